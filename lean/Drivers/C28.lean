import ProbLogModel.Core.Proto
import ProbLogModel.PyPl
import ProbLogModel.Extern
open ProbLogModel.Proto ProbLogModel.PyPl ProbLogModel.Extern

/-
Protocol (one op per line):
  py2pl V | pl2py cur|fix P | rt cur|fix V | why cur|fix V | list2term V | term2list cur|fix P
  V ::= (i N) | (f R) | (s "str") | (l V*) | (t V*) | (term P)
  export (T*) (A*) (V*)        -- problog_export: one result tuple;   T ::= int|float|str|list|term   A ::= u | (b P)
  exportnd (T*) (A*) ((V*)*)   -- problog_export_nondet / _raw: list of result tuples
      → modeError | fail | (ok P*) | (ok (P*)*) | bad-convert (a result without the declared type)
  P ::= (ci N) | (cf R) | (cs "str") | (iv N) | (pv "n") | (a "f") | (a2 "f" P P) | (o "f" N "repr")
-/

partial def parsePl : SExp → Option Pl
  | .list [.atom "ci", n] => n.int?.map .cint
  | .list [.atom "cf", r] => r.rat?.map .cflt
  | .list [.atom "cs", .atom s] => some (.cstr (unquote s))
  | .list [.atom "iv", n] => n.int?.map .ivar
  | .list [.atom "pv", .atom s] => some (.pvar (unquote s))
  | .list [.atom "a", .atom s] => some (.atom (unquote s))
  | .list [.atom "a2", .atom s, a, b] => do
    let a ← parsePl a
    let b ← parsePl b
    pure (.app2 (unquote s) a b)
  | .list [.atom "o", .atom s, n, .atom r] => n.nat?.map (fun n => .other (unquote s) n (unquote r))
  | _ => none

partial def parseVal : SExp → Option PyVal
  | .list [.atom "i", n] => n.int?.map .int
  | .list [.atom "f", r] => r.rat?.map .flt
  | .list [.atom "s", .atom s] => some (.str (unquote s))
  | .list (.atom "l" :: xs) => (xs.mapM parseVal).map .list
  | .list (.atom "t" :: xs) => (xs.mapM parseVal).map .tup
  | .list [.atom "term", p] => (parsePl p).map .term
  | _ => none

partial def showPl : Pl → String
  | .cint i => renderList ["ci", toString i]
  | .cflt q => renderList ["cf", renderRat q]
  | .cstr s => renderList ["cs", quote s]
  | .ivar i => renderList ["iv", toString i]
  | .pvar n => renderList ["pv", quote n]
  | .atom f => renderList ["a", quote f]
  | .app2 f a b => renderList ["a2", quote f, showPl a, showPl b]
  | .other f n r => renderList ["o", quote f, toString n, quote r]

partial def showVal : PyVal → String
  | .int i => renderList ["i", toString i]
  | .flt q => renderList ["f", renderRat q]
  | .str s => renderList ["s", quote s]
  | .list xs => renderList ("l" :: xs.map showVal)
  | .tup xs => renderList ("t" :: xs.map showVal)
  | .term t => renderList ["term", showPl t]

def parseTy : SExp → Option Ty
  | .atom "int" => some .int
  | .atom "float" => some .float
  | .atom "str" => some .str
  | .atom "list" => some .list
  | .atom "term" => some .term
  | _ => none

def parseArg : SExp → Option Arg
  | .atom "u" => some .unbound
  | .list [.atom "b", p] => (parsePl p).map .bound
  | _ => none

/-- `_convert_output` on every result of one tuple. -/
def convertAll (tys : List Ty) (vs : List PyVal) : Option (List Pl) :=
  if tys.length != vs.length then none else (tys.zip vs).mapM (fun (t, v) => convertOutput t v)

def stepExport (nd : Bool) (tys args vals : List SExp) : String :=
  match tys.mapM parseTy, args.mapM parseArg with
  | some tys, some args =>
    if tys.length != args.length then "bad-op" else
    let targs := tys.zip args
    if nd then
      match vals.mapM (fun v => match v with | .list vs => vs.mapM parseVal | _ => none) with
      | none => "bad-op"
      | some vss =>
        match vss.mapM (convertAll tys) with
        | none => "bad-convert"
        | some rss =>
          match exportCallNondet targs rss with
          | none => "modeError"
          | some outs => renderList ("ok" :: outs.map (fun o => renderList (o.map showPl)))
    else
      match vals.mapM parseVal with
      | none => "bad-op"
      | some vs =>
        match convertAll tys vs with
        | none => "bad-convert"
        | some rs =>
          match exportCall targs rs with
          | .modeError => "modeError"
          | .fail => "fail"
          | .ok outs => renderList ("ok" :: outs.map showPl)
  | _, _ => "bad-op"

def decOf (s : String) : Option (String → String) :=
  if s == "cur" then some stripAll else if s == "fix" then some stripPair else none

def step (_ : Unit) (line : String) : Unit × String :=
  let out : String :=
    match parseLine line with
    | some [.atom "py2pl", v] =>
      (match parseVal v with | some v => showPl (py2pl v) | none => "bad-op")
    | some [.atom "list2term", v] =>
      (match parseVal v with | some (.list xs) => showPl (list2term xs) | _ => "bad-op")
    | some [.atom "export", .list tys, .list args, .list vals] => stepExport false tys args vals
    | some [.atom "exportnd", .list tys, .list args, .list vals] => stepExport true tys args vals
    | some [.atom op, .atom d, x] =>
      (match decOf d with
       | none => "bad-op"
       | some dec =>
         if op == "pl2py" then
           (match parsePl x with | some p => showVal (pl2pyWith dec p) | none => "bad-op")
         else if op == "rt" then
           (match parseVal x with | some v => showVal (pl2pyWith dec (py2pl v)) | none => "bad-op")
         else if op == "why" then
           (match parseVal x with | some v => why dec v | none => "bad-op")
         else if op == "term2list" then
           (match parsePl x with
            | some p => (match term2list dec p with
                         | some xs => renderList ("ok" :: xs.map showVal)
                         | none => "ValueError")
            | none => "bad-op")
         else "bad-op")
    | _ => "bad-op"
  ((), out)

def main : IO Unit := runDriver () step
