import ProbLogModel.Core.Proto
import ProbLogModel.Tasks.BN
/-!
Driver for C31 (Bayesian-network export).

  NET (clause …) jointLimit detLimit
     clause = (C|O|T ((atom prob|-) …) body)      body = - | (a n) | (n n) | (and b b) | (or b b)
  -> `ERR:<name>` or
     (choices ((parents…) nvals ((key row) …)) …) (ors (atom ((k v) …)) …) (joint total (atom m) …|-) (det (atom m) …|-)

`joint`: marginals from the full joint (product of all CPT entries summed over all assignments) when the number of
assignments is at most `jointLimit`; `det`: the same with the deterministic atom variables eliminated.
-/
open ProbLogModel.Proto ProbLogModel.BN

partial def pBody : SExp → Option Body
  | .list [.atom "a", .atom n] => n.toNat?.map Body.atom
  | .list [.atom "n", .atom n] => n.toNat?.map Body.neg
  | .list [.atom "and", l, r] => do pure (Body.and (← pBody l) (← pBody r))
  | .list [.atom "or", l, r] => do pure (Body.or (← pBody l) (← pBody r))
  | _ => none

def pClause : SExp → Option GClause
  | .list [.atom k, .list hs, b] => do
    let kind ← match k with
      | "C" => some Kind.clause
      | "O" => some Kind.orFact
      | "T" => some Kind.termFact
      | _ => none
    let heads ← hs.mapM (fun (h : SExp) => match h with
      | .list [.atom a, .atom p] => do
        let a ← a.toNat?
        if p == "-" then pure (a, (none : Option Rat)) else pure (a, some (← parseRat p))
      | _ => none)
    let body ← match b with
      | .atom "-" => some none
      | b => (pBody b).map some
    pure { kind := kind, heads := heads, body := body }
  | _ => none

def rKey (ks : List Bool) : String := renderList (ks.map (fun b => if b then "1" else "0"))

def rNet (n : Net) : String :=
  "(choices " ++ " ".intercalate (n.choices.map (fun c =>
      renderList [renderList (c.parents.map toString), toString c.nvals,
        renderList (c.rows.map (fun r => renderList [rKey r.1, renderList (r.2.map renderRat)]))])) ++ ") (ors " ++
    " ".intercalate (n.ors.map (fun e =>
      renderList [toString e.1, renderList (e.2.map (fun p => renderList [toString p.1, toString p.2]))])) ++ ")"

def step (_ : Unit) (line : String) : Unit × String :=
  ((), match parseLine line with
  | some [.atom "NET", .list cs, .atom jl, .atom dl] =>
    match cs.mapM pClause, jl.toNat?, dl.toNat? with
    | some cs, some jl, some dl =>
      match ofClauses cs with
      | .error .attributeError => "ERR:AttributeError"
      | .error .noBody => "ERR:noBody"
      | .ok net =>
        let ncv := (net.choices.map (·.nvals)).foldl (· * ·) 1
        let njoint := ncv * 2 ^ net.ors.length
        let atoms := net.ors.map (·.1)
        let joint := if njoint ≤ jl then
            "(joint " ++ renderRat (total net) ++ " " ++
              " ".intercalate (atoms.map (fun a => renderList [toString a, renderRat (marginal net a)])) ++ ")"
          else "(joint -)"
        let det := if ncv ≤ dl then
            "(det " ++ " ".intercalate (atoms.map (fun a => renderList [toString a, renderRat (marginalDet net a)])) ++ ")"
          else "(det -)"
        rNet net ++ " " ++ joint ++ " " ++ det
    | _, _, _ => "bad-op"
  | _ => "bad-op")

def main : IO Unit := runDriver () step
