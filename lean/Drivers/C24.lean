import ProbLogModel.Core.Proto
import ProbLogModel.Tasks.LFI
/-!
Driver for C24 (LFI M-step).

  STEP ((i (o …)) …) ((avail (idx …)) …) t|f ((i key value) …) ((m pEvidence ((b|p idx key value) …)) …)
       _adatomc         _adatoms          normalize  weights before     _evaluate_examples() output
  -> `ERR:<name>` or `(new (i key v) …) (ws (i key v) …)`: the un-normalised ratios in update order and all weights
     after `_update`.
-/
open ProbLogModel.Proto ProbLogModel.LFI

def listOf {α} (f : SExp → Option α) (e : SExp) : Option (List α) := e.items?.bind (fun xs => xs.mapM f)

def pAdc : SExp → Option (Nat × List Int)
  | .list [i, os] => do pure (← i.nat?, ← listOf SExp.int? os)
  | _ => none

def pAd : SExp → Option (Rat × List Nat)
  | .list [a, idx] => do pure (← a.rat?, ← listOf SExp.nat? idx)
  | _ => none

def pW : SExp → Option (Index × Rat)
  | .list [i, k, v] => do pure (((← i.int?), (← k.nat?)), ← v.rat?)
  | _ => none

def pEntry : SExp → Option Entry
  | .list [.atom b, i, k, v] => do pure { isBody := b == "b", idx := ← i.nat?, key := ← k.nat?, value := ← v.rat? }
  | _ => none

def pResult : SExp → Option Result
  | .list [m, pe, es] => do pure { m := ← m.rat?, pEvidence := ← pe.rat?, entries := ← listOf pEntry es }
  | _ => none

def rAssoc (l : Assoc) : String :=
  " ".intercalate (l.map (fun e => renderList [toString e.1.1, toString e.1.2, renderRat e.2]))

def step (_ : Unit) (line : String) : Unit × String :=
  ((), match parseLine line with
  | some [.atom "STEP", adc, ads, .atom nrm, ws, rs] =>
    match listOf pAdc adc, listOf pAd ads, listOf pW ws, listOf pResult rs with
    | some adc, some ads, some ws, some rs =>
      let adcf (i : Nat) : List Int := ((adc.find? (fun e => e.1 == i)).map (·.2)).getD []
      match update adcf rs, ProbLogModel.LFI.step adcf ads (nrm == "t") ws rs with
      | .ok new, .ok ws' => "(new " ++ rAssoc new ++ ") (ws " ++ rAssoc ws' ++ ")"
      | .error .keyError, _ | _, .error .keyError => "ERR:KeyError"
      | .error .zeroDivision, _ | _, .error .zeroDivision => "ERR:ZeroDivisionError"
    | _, _, _, _ => "bad-op"
  | _ => "bad-op")

def main : IO Unit := runDriver () step
