import ProbLogModel.Core.Proto
import ProbLogModel.Core.StoreIO
import ProbLogModel.Formula
import ProbLogModel.GroundFO
import ProbLogModel.GroundFOSpec
/-!
Semantic check of the first-order grounder model per input (translation validation of the statement
`ProbLogProofs.C01GroundFO.CorrectFO`, which is not yet a theorem):

`CHECKFO opts nconsts prog bases calls sched fuel natoms nchoices nworlds`  (first seven arguments as `GROUNDFO`)
runs the model, then in `nworlds` worlds (all choices false, all true, then pseudo-random ones) compares the bottom-up
value of every reported key with `Sem.wfm` of the Herbrand instantiation `GroundFO.inst`, and checks that every instance
of a call that is not reported is false.  Output: `ok <worlds> t` | `ok <worlds> f <index of the first failing world>` |
`error <what>`.
A schedule entry for the goal `(999999)` is the selection code of every goal that has no entry of its own.

`SPECOK nconsts prog bases natoms arities predranks` decides the hypotheses `SpecOK` of the proved theorem
`ProbLogProofs.C01GroundFO.C01_groundFO_correct_wfm_partial` for the program (`GroundFO.specOKb`, sound by
`ProbLogProofs.GroundFOSem.specOKb_sound`), with the rank of an atom = the rank of its predicate.  Output:
`spec t` | `spec f <first failing part>`.
-/
open ProbLogModel.Proto ProbLogModel.StoreIO ProbLogModel.Formula ProbLogModel ProbLogModel.GroundFO

def pTermC : SExp → Option Term
  | .atom s => if s.startsWith "c" then (s.drop 1).toNat?.map Term.const
               else if s.startsWith "v" then (s.drop 1).toNat?.map Term.var else none
  | _ => none

def pValC : SExp → Option Val
  | .atom s => if s.startsWith "c" then (s.drop 1).toNat?.map Val.c
               else if s.startsWith "v" then (s.drop 1).toNat?.map Val.v else none
  | _ => none

def pLitC : SExp → Option Lit
  | .atom "t" => some .tt
  | .list (.atom "p" :: .atom q :: ts) => do some (.pos ⟨(← q.toNat?), (← ts.mapM pTermC)⟩)
  | .list (.atom "n" :: .atom q :: ts) => do some (.neg ⟨(← q.toNat?), (← ts.mapM pTermC)⟩)
  | _ => none

def pChoiceC : SExp → Option (Option Choice)
  | .atom "-" => some none
  | .list [.atom i, .atom g, .atom p, .atom n] => do
    some (some { ident := (← i.toNat?), group := (← g.toNat?), prob := (← parseRat p), name := (← n.toNat?) })
  | _ => none

def pClauseC : SExp → Option Clause
  | .list [.atom "fact", .list cs, .atom i, .atom p] => do
    let pr ← (if p == "-" then some none else (parseRat p).map some)
    some (.fact (← cs.mapM (fun (c : SExp) => match c with | .atom s => (s.drop 1).toNat? | _ => none)) (← i.toNat?) pr)
  | .list [.atom "rule", .list hs, .atom n, .list ls, ch] => do
    some (.rule (← hs.mapM pTermC) (← n.toNat?) (← ls.mapM pLitC) (← pChoiceC ch))
  | _ => none

def pProgC (nc : Nat) (pr bases : SExp) : Option Prog := do
  let defs ← match pr with
    | .list ds => ds.mapM (fun (d : SExp) => match d with
      | .list (.atom a :: cs) => do some ((← a.toNat?), (← cs.mapM pClauseC))
      | _ => none)
    | _ => none
  let nb ← match bases with
    | .list es => es.mapM (fun (e : SExp) => match e with
      | .list [.atom a, .atom b] => do some ((← a.toNat?), (← b.toNat?))
      | _ => none)
    | _ => none
  some { nconsts := nc, defs := defs, nameBase := nb }

def pCallsC : SExp → Option (List Call)
  | .list cs => cs.mapM (fun (c : SExp) => match c with
    | .list [.atom p, .list vs, .atom l, .atom f] => do
      some { pred := (← p.toNat?), args := (← vs.mapM pValC), label := pLabel l, failName := (← f.toNat?) }
    | _ => none)
  | _ => none

def pSchedC : SExp → Option (List (Goal × List Nat))
  | .list es => es.mapM (fun (e : SExp) => match e with
    | .list (.list (.atom p :: vs) :: is) => do
      some (⟨(← p.toNat?), (← vs.mapM pValC)⟩, (← is.mapM (fun (x : SExp) => match x with | .atom s => s.toNat? | _ => none)))
    | _ => none)
  | _ => none

/-- world number `w` over `n` choices: 0 = none, 1 = all, then a linear congruential bit stream -/
def worldOf (n w : Nat) : Array Bool :=
  if w == 0 then Array.replicate n false
  else if w == 1 then Array.replicate n true
  else
    let rec go : Nat → Nat → List Bool → List Bool
      | 0, _, acc => acc
      | k + 1, s, acc =>
        let s' := (s * 1103515245 + 12345) % 2147483648
        go k s' (((s' / 65536) % 2 == 1) :: acc)
    (go n (w * 7919 + 17) []).toArray

def pPairsC : SExp → Option (List (Nat × Nat))
  | .list es => es.mapM (fun (e : SExp) => match e with
    | .list [.atom a, .atom b] => do some ((← a.toNat?), (← b.toNat?))
    | _ => none)
  | _ => none

def specOKStep (P : Prog) (natoms : Nat) (arL prk : List (Nat × Nat)) : String :=
  let rk := blockRank P arL prk
  if !GroundAcyclic.nodupB (P.defs.map (·.1)) then "spec f nodup"
  else if !P.defs.all (fun d => d.2.all (clauseOKb P.nconsts (lookup arL) d.1)) then "spec f clauses"
  else if !layoutOKb P natoms arL then "spec f layout"
  else if !GroundAcyclic.wfB (inst P natoms) natoms rk then "spec f acyclic"
  else if specOKb P natoms arL rk then "spec t" else "spec f"

def step (_ : Unit) (line : String) : Unit × String :=
  ((), match parseLine line with
  | some [SExp.atom "CHECKFO", _o, .atom nc, pr, bases, cs, sc, .atom fuel, .atom na, .atom nch, .atom nw] =>
    match nc.toNat?, pCallsC cs, pSchedC sc, fuel.toNat?, na.toNat?, nch.toNat?, nw.toNat? with
    | some nc, some calls, some sc, some fuel, some natoms, some nch, some nw =>
      match pProgC nc pr bases with
      | some P =>
        -- a goal without entry gets the code of the wildcard entry `(999999)` (any code is a valid schedule)
        let dflt := (lookup sc ⟨999999, []⟩).getD []
        let sched : Sched := fun g => (lookup sc g).getD dflt
        match groundAll P sched fuel calls {} with
        | .ok (rss, st) =>
          let rules := toSemRules (inst P natoms)
          let bad := (List.range nw).find? (fun w =>
            let chosen := worldOf nch w
            let m := Sem.wfm rules chosen natoms
            !(m.1 == m.2 && checkWorldWith P m.1 calls rss st.store chosen))
          match bad with
          | none => "ok " ++ toString nw ++ " t"
          | some w => "ok " ++ toString nw ++ " f " ++ toString w
        | .error _ => "error model"
      | none => "bad-op prog"
    | _, _, _, _, _, _, _ => "bad-op"
  | some [SExp.atom "SPECOK", .atom nc, pr, bases, .atom na, ars, prks] =>
    match nc.toNat?, na.toNat?, pPairsC ars, pPairsC prks with
    | some nc, some natoms, some arL, some prk =>
      match pProgC nc pr bases with
      | some P => specOKStep P natoms arL prk
      | none => "bad-op prog"
    | _, _, _, _ => "bad-op"
  | _ => "bad-op")

def main : IO Unit := runDriver () step
