import ProbLogModel.Core.Proto
import ProbLogModel.TermIO
import ProbLogModel.Order
open ProbLogModel ProbLogModel.Proto ProbLogModel.Order ProbLogModel.TermIO

def ord : Ordering → String
  | .lt => "lt"
  | .eq => "eq"
  | .gt => "gt"

def b (x : Bool) : String := if x then "1" else "0"

/-- ops:
  `cmp T1 T2`       → lt|eq|gt                      (struct_cmp, patched model)
  `std T1 T2`       → lt|eq|gt                      (specification)
  `ops T1 T2`       → six bits: @< @=< @> @>= == \==
  `compare C T1 T2` → CallModeError | fail | ok T
  `sort (T …)`      → (T …)
  `plain T`         → 0|1 -/
def step (s : Unit) (line : String) : Unit × String :=
  match parseLine line with
  | some [.atom "cmp", x, y] =>
    (match toTerm x, toTerm y with
     | some a, some c => (s, ord (structCmp a c))
     | _, _ => (s, "bad-term"))
  | some [.atom "std", x, y] =>
    (match toTerm x, toTerm y with
     | some a, some c => (s, ord (stdCompare a c))
     | _, _ => (s, "bad-term"))
  | some [.atom "ops", x, y] =>
    (match toTerm x, toTerm y with
     | some a, some c =>
       (s, " ".intercalate [b (structLt a c), b (structLe a c), b (structGt a c), b (structGe a c), b (same a c), b (notSame a c)])
     | _, _ => (s, "bad-term"))
  | some [.atom "compare", o, x, y] =>
    (match toTerm o, toTerm x, toTerm y with
     | some o, some a, some c =>
       (match builtinCompare o a c with
        | .callModeError => (s, "CallModeError")
        | .fail => (s, "fail")
        | .succeed t => (s, "ok " ++ render t))
     | _, _, _ => (s, "bad-term"))
  | some [.atom "sort", .list xs] =>
    (match toTerms xs with
     | some ts => (s, renderList ((sortModel ts).map render))
     | none => (s, "bad-term"))
  | some [.atom "plain", x] =>
    (match toTerm x with
     | some a => (s, b (plain a))
     | none => (s, "bad-term"))
  | _ => (s, "bad-op")

def main : IO Unit := runDriver () step
