import ProbLogModel.Core.Proto
import ProbLogModel.Tasks.Export
open ProbLogModel.Proto ProbLogModel ProbLogModel.Clark ProbLogModel.Export

/-! Line protocol for C25 (I/O glue).
  DIMACS atomcount ((l*)*)   -> quoted text of `Clark.toDimacs`
  READ "text"                -> nvars ((l*)*)   (`Export.readDimacs`) -/

def pClauses : SExp → Option (List (List Int))
  | .list cs => cs.mapM (fun c => match c with
    | .list ls => ls.mapM (fun l => match l with | .atom s => s.toInt? | _ => none)
    | _ => none)
  | _ => none

def step (_ : Unit) (line : String) : Unit × String :=
  ((), match parseLine line with
  | some [.atom "DIMACS", .atom n, cls] =>
    match n.toNat?, pClauses cls with
    | some n, some cls =>
      quote (toDimacs { atomcount := n, clauses := cls, weights := [], names := [], ads := [] })
    | _, _ => "bad-op"
  | some [.atom "READ", .atom txt] =>
    let r := readDimacs (unquote txt)
    toString r.1 ++ " " ++ renderList (r.2.map (fun c => renderList (c.map toString)))
  | _ => "bad-op")

def main : IO Unit := runDriver () step
