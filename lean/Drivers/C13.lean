import ProbLogModel.Core.Proto
import ProbLogModel.SLD
import ProbLogModel.ClauseIndex
open ProbLogModel.Proto ProbLogModel.SLD ProbLogModel.ClauseIndex

/-! Line protocol for C13.

  solve FUEL PROGRAM GOAL OUT        → `(t1 t2 ...)` : OUT instantiated by every answer, in SLD order | `none`
  bottomup FUEL ROUNDS PROGRAM       → `(a1 a2 ...)` : the derived ground atoms (derivation order) | `none`
  find ARITY ((ID (K ...)) ...) (A ...)            → `(id ...)` | `IndexError` | `KeyError`   (model of the fixed code)
  findold ARITY ((ID (K ...)) ...) (A ...) (A ...) → `((id ...) (id ...))` successive calls on the unfixed code's model

  terms:  `(v N)` variable, `name` atom/number, `(f name t1 ... tn)` compound
  goals:  `true` `fail` `(call T)` `(= T T)` `(and G G)` `(or G G)` `(not G)` `(findall T G T)`
  clause: `(clause NVARS HEAD BODY)`;  keys/args of find: `_` = not ground, any other token = the ground value -/

partial def parseTm : SExp → Option Tm
  | .atom s => some (.sym s)
  | .list [.atom "v", .atom n] => n.toNat?.map Tm.var
  | .list (.atom "f" :: .atom name :: args) =>
    args.foldlM (fun acc a => (parseTm a).map (fun t => Tm.app acc t)) (Tm.sym name)
  | _ => none

partial def parseGoal : SExp → Option Goal
  | .atom "true" => some .tt
  | .atom "fail" => some .ff
  | .list [.atom "call", t] => (parseTm t).map Goal.call
  | .list [.atom "=", a, b] => do some (.unif (← parseTm a) (← parseTm b))
  | .list [.atom "and", a, b] => do some (.conj (← parseGoal a) (← parseGoal b))
  | .list [.atom "or", a, b] => do some (.disj (← parseGoal a) (← parseGoal b))
  | .list [.atom "not", a] => do some (.neg (← parseGoal a))
  | .list [.atom "findall", t, g, r] => do some (.findall (← parseTm t) (← parseGoal g) (← parseTm r))
  | _ => none

def parseClause : SExp → Option Clause
  | .list [.atom "clause", .atom n, h, b] => do some ⟨← parseTm h, ← parseGoal b, ← n.toNat?⟩
  | _ => none

def parseProgram : SExp → Option Program
  | .list cs => cs.mapM parseClause
  | _ => none

/-- Spine of a curried application. -/
def spine : Tm → List Tm → Tm × List Tm
  | .app f a, acc => spine f (a :: acc)
  | t, acc => (t, acc)

partial def renderTm (t : Tm) : String :=
  match t with
  | .var n => "(v " ++ toString n ++ ")"
  | .sym s => s
  | .app _ _ =>
    let (h, args) := spine t []
    let hs := match h with
      | .sym s => s
      | o => renderTm o
    "(f " ++ hs ++ " " ++ " ".intercalate (args.map renderTm) ++ ")"

/-- Rename variables by first occurrence (answers are compared up to variable names). -/
def canonVars (t : Tm) : Tm :=
  let rec go : Tm → List Nat → Tm × List Nat
    | .var n, seen =>
      match seen.idxOf? n with
      | some i => (.var i, seen)
      | none => (.var seen.length, seen ++ [n])
    | .sym s, seen => (.sym s, seen)
    | .app f a, seen =>
      let (f', s1) := go f seen
      let (a', s2) := go a s1
      (.app f' a', s2)
  (go t []).1

def parseKey : SExp → Option Key
  | .atom "_" => some none
  | .atom s => some (some s)
  | _ => none

def parseCls : SExp → Option (List (Int × List Key))
  | .list cs => cs.mapM (fun c => match c with
    | .list [.atom id, .list ks] => do some (← id.toInt?, ← ks.mapM parseKey)
    | _ => none)
  | _ => none

def parseArgs : SExp → Option (List Key)
  | .list ks => ks.mapM parseKey
  | _ => none

def showInts (l : List Int) : String := renderList (l.map toString)

def step (s : Unit) (line : String) : Unit × String :=
  match parseLine line with
  | some [.atom "solve", .atom fuel, prog, goal, out] =>
    match fuel.toNat?, parseProgram prog, parseGoal goal, parseTm out with
    | some fuel, some P, some g, some o =>
      (match solveSt P fuel g ⟨[], max g.maxVar o.maxVar⟩ with
       | none => (s, "none")
       | some as => (s, renderList (as.map (fun a => renderTm (canonVars (o.subst a.σ))))))
    | _, _, _, _ => (s, "bad-op")
  | some [.atom "bottomup", .atom fuel, .atom rounds, prog] =>
    match fuel.toNat?, rounds.toNat?, parseProgram prog with
    | some fuel, some rounds, some P =>
      (match bottomUp P fuel rounds [] with
       | none => (s, "none")
       | some F => (s, renderList (F.map renderTm)))
    | _, _, _ => (s, "bad-op")
  | some [.atom "find", .atom ar, cls, args] =>
    match ar.toNat?, parseCls cls, parseArgs args with
    | some ar, some cls, some args =>
      (match build ar cls with
       | none => (s, "IndexError")
       | some ci =>
         match find ci args with
         | .ok l => (s, showInts l)
         | .indexError => (s, "IndexError")
         | .keyError => (s, "KeyError"))
    | _, _, _ => (s, "bad-op")
  | some (.atom "findold" :: .atom ar :: cls :: calls) =>
    match ar.toNat?, parseCls cls, calls.mapM parseArgs with
    | some ar, some cls, some calls =>
      (match build ar cls with
       | none => (s, "IndexError")
       | some ci =>
         let (outs, _) := calls.foldl (fun (acc : List String × CIndex) a =>
           let (r, ci') := findOld acc.2 a
           (acc.1 ++ [showInts r], ci')) ([], ci)
         (s, renderList outs))
    | _, _, _ => (s, "bad-op")
  | _ => (s, "bad-op")

def main : IO Unit := runDriver () step
