import ProbLogModel.Core.Proto
import ProbLogModel.SemiringPrelude
import ProbLogModel.Generated.Semirings
import ProbLogModel.ADWeights
/-!
Driver for C30: the weight-extraction model (ProbLogModel.ADWeights) over the GENERATED semirings.

  P extract (w…) (((n…) extra) …)          probability semiring, rationals `n/d`
  L extract (w…) (((n…) extra) …)          log-probability semiring over `Float`, numbers as IEEE-754 bit patterns
  P|L updatead ((pos neg) …) (n…) extra    one `ConstraintAD.update_weights`

Output: `((pos neg) …)` — the weights of all atoms in input order — or `ERR:<exception class>`.
-/
open ProbLogModel.Proto ProbLogModel.SemiringPrelude ProbLogModel.Generated ProbLogModel.ADWeights

def fl? (e : SExp) : Option Float := e.nat?.map (fun n => Float.ofBits n.toUInt64)
def listOf {α} (f : SExp → Option α) (e : SExp) : Option (List α) := e.items?.bind (fun xs => xs.mapM f)
def pairOf {α} (f : SExp → Option α) (e : SExp) : Option (α × α) :=
  match e with
  | .list [a, b] => do pure (← f a, ← f b)
  | _ => none
def ad? (e : SExp) : Option (List Nat × Nat) :=
  match e with
  | .list [ns, x] => do pure (← listOf SExp.nat? ns, ← x.nat?)
  | _ => none

def showRes {α} (f : α → String) (r : PyRes (List (α × α))) : String :=
  match r with
  | .ok ws => renderList (ws.map (fun w => renderList [f w.1, f w.2]))
  | .error e => "ERR:" ++ e.name

def fbits (x : Float) : String := toString x.toBits

def step (_ : Unit) (line : String) : Unit × String :=
  let r : Option String :=
    match parseLine line with
    | some [.atom "P", .atom "extract", ws, ads] => do
      let ws ← listOf SExp.rat? ws
      let ads ← listOf ad? ads
      pure (showRes renderRat (extractWeights probOps ws ads))
    | some [.atom "L", .atom "extract", ws, ads] => do
      let ws ← listOf fl? ws
      let ads ← listOf ad? ads
      pure (showRes fbits (extractWeights (logOps Float) ws ads))
    | some [.atom "P", .atom "updatead", ws, ns, x] => do
      let ws ← listOf (pairOf SExp.rat?) ws
      pure (showRes renderRat (updateAD probOps ws (← listOf SExp.nat? ns) (← x.nat?)))
    | some [.atom "L", .atom "updatead", ws, ns, x] => do
      let ws ← listOf (pairOf fl?) ws
      pure (showRes fbits (updateAD (logOps Float) ws (← listOf SExp.nat? ns) (← x.nat?)))
    | _ => none
  ((), r.getD "bad-op")

def main : IO Unit := runDriver () step
