import ProbLogModel.Core.Proto
import ProbLogModel.Containers
open ProbLogModel.Proto ProbLogModel.Containers

structure St where
  os : List (Nat × OSet) := []
  uh : List (Nat × UHeap) := []
  bv : List (Nat × BitVec5) := []

def getA {α} (d : α) (l : List (Nat × α)) (i : Nat) : α := ((l.find? (·.1 == i)).map (·.2)).getD d
def setA {α} (l : List (Nat × α)) (i : Nat) (v : α) : List (Nat × α) := (i, v) :: l.filter (·.1 != i)

def showInts (l : List Int) : String := renderList (l.map toString)
def showNats (l : List Nat) : String := renderList (l.map toString)

def step (s : St) (line : String) : St × String :=
  match (parseLine line).map (fun es => es.map SExp.render) with
  | some ("os" :: id :: op :: args) =>
    match id.toNat? with
    | none => (s, "bad-op")
    | some id =>
      let cur := getA OSet.empty s.os id
      let put (v : OSet) (o : String) : St × String := ({ s with os := setA s.os id v }, o)
      let ints := args.filterMap String.toInt?
      let nats := args.filterMap String.toNat?
      match op, ints, nats with
      | "new", _, _ => put (OSet.ofList ints) "ok"
      | "add", [k], _ => put (cur.add k) "ok"
      | "discard", [k], _ => put (cur.discard k) "ok"
      | "pop", _, _ =>
        (match cur.pop (args == ["last"]) with
         | none => (s, "KeyError")
         | some (k, c) => put c (toString k))
      | "iter", _, _ => (s, showInts cur.iter)
      | "rev", _, _ => (s, showInts cur.reversed)
      | "len", _, _ => (s, toString cur.len)
      | "contains", [k], _ => (s, toString (cur.contains k))
      | "or", _, [a, b] => put (OSet.union (getA OSet.empty s.os a) (getA OSet.empty s.os b)) "ok"
      | "and", _, [a, b] => put (OSet.inter (getA OSet.empty s.os a) (getA OSet.empty s.os b)) "ok"
      | "sub", _, [a, b] => put (OSet.sub (getA OSet.empty s.os a) (getA OSet.empty s.os b)) "ok"
      | "ior", _, [b] => put (cur.addAll (getA OSet.empty s.os b).items) "ok"
      | "iand", _, [b] => put (OSet.iand cur (getA OSet.empty s.os b)) "ok"
      | "isub", _, [b] => put (OSet.isub cur (getA OSet.empty s.os b)) "ok"
      | "eq", _, [b] => (s, toString (OSet.eqv cur (getA OSet.empty s.os b)))
      | _, _, _ => (s, "bad-op")
  | some ("uh" :: id :: op :: args) =>
    match id.toNat? with
    | none => (s, "bad-op")
    | some id =>
      let cur := getA UHeap.empty s.uh id
      let put (v : UHeap) (o : String) : St × String := ({ s with uh := setA s.uh id v }, o)
      let ints := args.filterMap String.toInt?
      match op, ints with
      | "new", _ => put UHeap.empty "ok"
      | "push", [key, item] => let (h, b) := cur.push key item; put h (toString b)
      | "pop", _ =>
        (match cur.popWithKey with
         | none => (s, "AssertionError")
         | some ((k, it), h) => put h (toString k ++ " " ++ toString it))
      | "peek", _ => (s, match cur.peek with | none => "AssertionError" | some it => toString it)
      | "len", _ => (s, toString cur.len)
      | "dump", _ =>
        let hp := renderList (cur.heap.toList.map (fun (k, i) => renderList [toString k, toString i]))
        let srt := cur.index.toArray.qsort (fun a b => a.1 < b.1) |>.toList
        let ix := renderList (srt.map (fun (i, p) => renderList [toString i, toString p]))
        (s, hp ++ " " ++ ix)
      | _, _ => (s, "bad-op")
  | some ("bv" :: id :: op :: args) =>
    match id.toNat? with
    | none => (s, "bad-op")
    | some id =>
      let cur := getA BitVec5.empty s.bv id
      let put (v : BitVec5) (o : String) : St × String := ({ s with bv := setA s.bv id v }, o)
      let nats := args.filterMap String.toNat?
      let g (i : Nat) := getA BitVec5.empty s.bv i
      match op, nats with
      | "new", _ => put BitVec5.empty "ok"
      | "add", [i] => put (cur.add i) "ok"
      | "contains", [i] => (s, toString (cur.contains i))
      | "iter", _ => (s, showNats cur.iter)
      | "len", _ => (s, toString cur.len)
      | "bool", _ => (s, toString cur.nonzero)
      | "blocks", _ => (s, showNats cur.blocks)
      | "and", [a, b] => put (BitVec5.and (g a) (g b)) "ok"
      | "or", [a, b] => put (BitVec5.or (g a) (g b)) "ok"
      | "ior", [b] => put (BitVec5.ior cur (g b)) "ok"
      | "iand", [b] => put (BitVec5.iand cur (g b)) "ok"
      | _, _ => (s, "bad-op")
  | some ["reset"] => ({}, "ok")
  | _ => (s, "bad-op")

def main : IO Unit := runDriver ({} : St) step
