/-
Driver for the evidence-propagation model (`ProbLogModel.Propagate`). One output line per input line.

  PROP <store> (ev*) ((n v)*) first|last|(replay nid*)   → `<outcome> | (popped nid*)`
        outcome = `ok ((n v)*)` (dict `current`, insertion order) | InconsistentEvidenceError | TypeError | BadKey | fuel
        `replay`: at step t pop the t-th listed element (the pop order observed on the real `set`)
  ALL <store> (ev*) ((n v)*) <limit>                      → `complete|partial (<outcome>*)`: distinct outcomes (entries
        sorted by node) over all pop orders, at most <limit> leaves of the choice tree are visited
  EVID <store>                                            → `(nid*)` evidence nodes as `ground_evidence` passes them
  EVV -|((n v)*) key                                      → get_evidence_value
  ENG -|((n v)*) key                                      → StackBasedEngine.propagate_evidence lookup
  AD ((n v)*) (member*) node                              → ConstraintAD.add evidence branch
  SUBSTOK <store> ((n v)*)                                → store after `substitute`
-/
import ProbLogModel.Core.Proto
import ProbLogModel.Core.StoreIO
import ProbLogModel.Formula
import ProbLogModel.Propagate
open ProbLogModel.Proto ProbLogModel.StoreIO ProbLogModel.Formula ProbLogModel.Propagate

def pInts : SExp → Option (List Int)
  | .list xs => xs.mapM (fun (x : SExp) => match x with | .atom s => s.toInt? | _ => none)
  | _ => none

def pNatsL : SExp → Option (List Nat)
  | .list xs => xs.mapM (fun (x : SExp) => match x with | .atom s => s.toNat? | _ => none)
  | _ => none

def pCur : SExp → Option Cur
  | .list es => es.mapM (fun (e : SExp) => match e with
      | .list [.atom n, .atom k] => do some ((← n.toNat?), (← pKey k))
      | _ => none)
  | _ => none

def pCurOpt : SExp → Option (Option Cur)
  | .atom "-" => some none
  | e => (pCur e).map some

def rCur (c : Cur) : String := renderList (c.map (fun (n, v) => renderList [toString n, rKey v]))

def rErrP : PErr → String
  | .inconsistent => "InconsistentEvidenceError"
  | .typeError => "TypeError"
  | .badKey => "BadKey"
  | .fuel => "fuel"

def rOutcome : Except PErr Cur → String
  | .ok c => "ok " ++ rCur c
  | .error e => rErrP e

/-- pick function of a schedule: `mode` 0 = first, 1 = last, 2 = replay of `sched` (t-th pop = t-th entry). -/
def mkPick (total : Nat) (mode : Nat) (sched : Array Int) : Nat → List Int → Nat := fun f q =>
  match mode with
  | 0 => 0
  | 1 => q.length - 1
  | _ =>
    match sched[total - 1 - f]? with
    | some nid => q.idxOf nid
    | none => 0

/-- `run` with the list of popped elements recorded (I/O glue; the result is cross-checked with `run`). -/
def runTrace (S : Store) (pick : Nat → List Int → Nat) : Nat → PState → List Int → Except PErr Cur × List Int
  | 0, st, tr => (if st.queue.isEmpty then .ok st.cur else .error .fuel, tr.reverse)
  | f + 1, st, tr =>
    if st.queue.isEmpty then (.ok st.cur, tr.reverse)
    else
      match st.queue[pick f st.queue % st.queue.length]? with
      | none => (.error .fuel, tr.reverse)
      | some nid =>
        match popStep S { st with queue := st.queue.erase nid } nid with
        | .error e => (.error e, (nid :: tr).reverse)
        | .ok st' => runTrace S pick f st' (nid :: tr)

def insertSorted (x : Nat × Key) : List (Nat × Key) → List (Nat × Key)
  | [] => [x]
  | y :: r => if x.1 ≤ y.1 then x :: y :: r else y :: insertSorted x r
def sortCur (c : Cur) : Cur := c.foldr insertSorted []

def canonOutcome : Except PErr Cur → String
  | .ok c => "ok " ++ rCur (sortCur c)
  | .error e => rErrP e

/-- All pop orders (depth-first over the choice tree), `budget` = number of leaves still allowed. -/
partial def explore (S : Store) (st : PState) (budget : Nat) (acc : List String) : Nat × List String :=
  if budget == 0 then (0, acc)
  else if st.queue.isEmpty then
    let o := canonOutcome (.ok st.cur)
    (budget - 1, if acc.contains o then acc else acc ++ [o])
  else
    st.queue.foldl (fun (ba : Nat × List String) nid =>
      let (b, acc) := ba
      if b == 0 then (0, acc)
      else
        match popStep S { st with queue := st.queue.erase nid } nid with
        | .error e =>
          let o := rErrP e
          (b - 1, if acc.contains o then acc else acc ++ [o])
        | .ok st' => explore S st' b acc) (budget, acc)

def rADRes : ADRes → String
  | .retFalse => "retFalse"
  | .retNode t => "retNode " ++ rCur t
  | .continue_ t => "continue " ++ rCur t

def step (_ : Unit) (line : String) : Unit × String :=
  ((), match parseLine line with
  | some [SExp.atom "PROP", st, ev, cur0, mode] =>
    match pStore st, pInts ev, pCur cur0 with
    | some S, some ev, some cur0 =>
      let ms : Option (Nat × Array Int) := match mode with
        | .atom "first" => some (0, #[])
        | .atom "last" => some (1, #[])
        | .list (.atom "replay" :: xs) => (pInts (.list xs)).map (fun l => (2, l.toArray))
        | _ => none
      match ms with
      | none => "bad-op"
      | some (m, sched) =>
        let pick := mkPick (fuelBound S) m sched
        let r := propagate S pick ev cur0
        let (r2, tr) := runTrace S pick (fuelBound S) ⟨mkQueue ev, cur0, []⟩ []
        if rOutcome r != rOutcome r2 then "driver-mismatch"
        else rOutcome r ++ " | " ++ renderList (tr.map toString)
    | _, _, _ => "bad-op"
  | some [SExp.atom "ALL", st, ev, cur0, .atom lim] =>
    match pStore st, pInts ev, pCur cur0, lim.toNat? with
    | some S, some ev, some cur0, some lim =>
      let (b, outs) := explore S ⟨mkQueue ev, cur0, []⟩ lim []
      (if b == 0 then "partial " else "complete ") ++ renderList (outs.map (fun o => "(" ++ o ++ ")"))
    | _, _, _, _ => "bad-op"
  | some [SExp.atom "EVID", st] =>
    match pStore st with
    | some S => renderList ((evNodes S).map toString)
    | none => "bad-op"
  | some [SExp.atom "EVV", tbl, .atom k] =>
    match pCurOpt tbl, pKey k with
    | some t, some k => rKey (evValue t k)
    | _, _ => "bad-op"
  | some [SExp.atom "ENG", tbl, .atom k] =>
    match pCurOpt tbl, pKey k with
    | some t, some k => rKey (engineLookup t k)
    | _, _ => "bad-op"
  | some [SExp.atom "AD", tbl, ms, .atom node] =>
    match pCur tbl, pNatsL ms, node.toNat? with
    | some t, some ms, some n => rADRes (adAddEv t ms n)
    | _, _, _ => "bad-op"
  | some [SExp.atom "SUBST", st, tbl] =>
    match pStore st, pCur tbl with
    | some S, some t => rStore (substitute S t)
    | _, _ => "bad-op"
  | _ => "bad-op")

def main : IO Unit := runDriver () step
