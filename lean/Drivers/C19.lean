import ProbLogModel.Core.Proto
import ProbLogModel.Findall
/-!
Driver for C19 (world-splitting of findall/all). One output line per input line.

  select ((term node) (term node) ...)      → all pairs of `_select_sublist` in generation order
  all <0|1> ((term node) ...)               → the pairs `_builtin_all` processes (allow_none = 0|1)
  findall ((term node) ...)                 → the pairs `_builtin_findall_base` processes
  conj (node node ...)                      → `F` if `conjIsFalse` (compacting `add_and` returns FALSE), else `ok`

node ::= T | F | signed integer (0 is read as TRUE).  Output: `(((t1 t2) (n1 n2 T)) ((t1) (n1 -n2 T)) ...)`.
-/
open ProbLogModel.Proto ProbLogModel.Findall

def parseNode (s : String) : Option Node :=
  if s == "T" then some .tt
  else if s == "F" then some .ff
  else s.toInt?.map Node.lit

def parseElem : SExp → Option Elem
  | .list [.atom t, .atom n] => (parseNode n).map (fun nd => (t, nd))
  | _ => none

def parseElems : SExp → Option (List Elem)
  | .list xs => xs.mapM parseElem
  | _ => none

def renderNode : Node → String
  | .tt => "T"
  | .ff => "F"
  | .lit i => if i == 0 then "T" else toString i

def renderPair (p : List Term × List Node) : String :=
  renderList [renderList p.1, renderList (p.2.map renderNode)]

def renderPairs (ps : List (List Term × List Node)) : String := renderList (ps.map renderPair)

def step (s : Unit) (line : String) : Unit × String :=
  match parseLine line with
  | some [.atom "select", l] =>
    (match parseElems l with
     | some lst => (s, renderPairs (selectSublist lst))
     | none => (s, "bad-op"))
  | some [.atom "findall", l] =>
    (match parseElems l with
     | some lst => (s, renderPairs (findallPairs lst))
     | none => (s, "bad-op"))
  | some [.atom "conj", .list ns] =>
    (match ns.mapM (fun e => match e with | .atom a => parseNode a | _ => none) with
     | some nodes => (s, if conjIsFalse nodes then "F" else "ok")
     | none => (s, "bad-op"))
  | some [.atom "all", .atom a, l] =>
    (match parseElems l, a with
     | some lst, "0" => (s, renderPairs (allPairs false lst))
     | some lst, "1" => (s, renderPairs (allPairs true lst))
     | _, _ => (s, "bad-op"))
  | _ => (s, "bad-op")

def main : IO Unit := runDriver () step
