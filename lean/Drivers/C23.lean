import ProbLogModel.Core.Proto
import ProbLogModel.Tasks.KBest
open ProbLogModel.Proto ProbLogModel ProbLogModel.MPE ProbLogModel.KBest

/-! Line protocol for C23 (I/O glue).
  PARTIAL weighted smart atomcount (clauses (h l*)*) (weights (i wp wn)*)  -> quoted DIMACS text
  FROMPARTIAL (weighted i*) (sol l*)                                     -> (l*)
  LOOP conv lowerOnly (weighted i*) (pw (i p n)*) (lower A*) (upper A*)   A = N | (l*)   -> result | order | tie -/

def pLogW (s : String) : Option LogW := if s == "-inf" then some none else (parseRat s).map some

def pLWs : List SExp → Option (List (Nat × LogW × LogW))
  | ws => ws.mapM (fun (w : SExp) => match w with
    | .list [.atom i, .atom a, .atom b] => do some ((← i.toNat?), (← pLogW a), (← pLogW b))
    | _ => none)

def pRaw : SExp → Option RawClause
  | .list (.atom h :: ls) => do
    let body ← ls.mapM (fun (x : SExp) => match x with | .atom s => s.toInt? | _ => none)
    let head ← (if h == "N" then some Head.none else if h == "T" then some (Head.bool true)
                else if h == "F" then some (Head.bool false) else h.toInt?.map Head.lit)
    some ⟨head, body⟩
  | _ => none

def pAns : SExp → Option (Option (List Int))
  | .atom "N" => some none
  | .list ls => (ls.mapM (fun (x : SExp) => x.int?)).map some
  | _ => none

def rRes : KRes → String
  | .single v => "single " ++ renderRat v
  | .interval lo hi => "interval " ++ renderRat lo ++ " " ++ renderRat hi

def step (_ : Unit) (line : String) : Unit × String :=
  ((), match parseLine line with
  | some [.atom "PARTIAL", .atom wd, .atom sm, .atom n, .list (.atom "clauses" :: cs), .list (.atom "weights" :: ws)] =>
    match n.toNat?, cs.mapM pRaw, pLWs ws with
    | some n, some cs, some ws =>
      match partialContents (wd == "t") (sm == "t") false n cs ws with
      | .ok w => quote (toDimacsP w)
      | .error .noneHead => "error TypeError"
    | _, _, _ => "bad-op"
  | some [.atom "FROMPARTIAL", .list (.atom "weighted" :: ws), .list (.atom "sol" :: ls)] =>
    match ws.mapM (fun (x : SExp) => x.nat?), ls.mapM (fun (x : SExp) => x.int?) with
    | some ws, some ls => renderList ((fromPartial (fun a => ws.contains a) ls).map toString)
    | _, _ => "bad-op"
  | some [.atom "LOOP", .atom conv, .atom lo, .list (.atom "weighted" :: ws), .list (.atom "pw" :: pws),
          .list (.atom "lower" :: la), .list (.atom "upper" :: ua)] =>
    match parseRat conv, ws.mapM (fun (x : SExp) => x.nat?), pws.mapM (fun (w : SExp) => match w with
        | .list [.atom i, .atom a, .atom b] => do some ((← i.toNat?), (← parseRat a), (← parseRat b))
        | _ => none), la.mapM pAns, ua.mapM pAns with
    | some conv, some ws, some pws, some la, some ua =>
      let pw : Nat → Rat × Rat := fun i => match pws.find? (fun e => e.1 == i) with
        | some e => e.2
        | none => (1, 1)
      -- replay: the k-th call on a border gets the k-th recorded answer of that border; a missing answer ends the run
      let oracle : Bool → Border → Option (List Int) := fun up bd =>
        ((if up then ua else la)[bd.sols.length]?).getD none
      let r := evalLoop (fun a => ws.contains a) pw conv (lo == "t") oracle (la.length + ua.length + 1) Border.init Border.init
      let order := String.ofList (r.2.map (fun st => if st.1 then 'U' else 'L'))
      -- a tie, or a near tie (relative difference below 1e-9): the implementation compares floats
      let near : Rat → Rat → Bool := fun l u =>
        let d := if l ≤ u then u - l else l - u
        let m := max (if l < 0 then -l else l) (if u < 0 then -u else u)
        d * 1000000000 ≤ m
      let tie := (r.2.drop 1).any (fun st => match st.2.1, st.2.2 with | some l, some u => near l u | _, _ => false)
      rRes r.1 ++ " | " ++ order ++ " | " ++ (if tie then "tie" else "notie")
    | _, _, _, _, _ => "bad-op"
  | _ => "bad-op")

def main : IO Unit := runDriver () step
