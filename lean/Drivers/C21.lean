import ProbLogModel.Core.Proto
import ProbLogModel.Tasks.DT
open ProbLogModel.Proto ProbLogModel.Tasks.DT

/-- index of a strategy in the table sent by the harness (big-endian, glue only) -/
def toNum (s : List Bool) : Nat := s.foldl (fun a b => 2 * a + (if b then 1 else 0)) 0

def showBits (s : List Bool) : String := renderList (s.map (fun b => if b then "1" else "0"))

def rats (e : SExp) : Option (List Rat) := do
  let xs ← e.items?
  xs.mapM SExp.rat?

def bits (e : SExp) : Option (List Bool) := do
  let xs ← e.items?
  xs.mapM (fun x => match x with | .atom "1" => some true | .atom "0" => some false | _ => none)

def pairs (e : SExp) : Option (List (Int × Rat)) := do
  let xs ← e.items?
  xs.mapM (fun x => match x with
    | .list [a, b] => do some ((← a.int?), (← b.rat?))
    | _ => none)

def step (_ : Unit) (line : String) : Unit × String :=
  let out : String :=
    match parseLine line with
    | some [.atom "n2b", i, n] =>
      (match i.nat?, n.nat? with
       | some i, some n => showBits (num2bits i n)
       | _, _ => "bad-op")
    | some [.atom "ex", n, adm, tab] =>
      (match n.nat?, bits adm, rats tab with
       | some n, some adm, some tab =>
         let tabA := tab.toArray
         let admA := adm.toArray
         let eu : List Bool → Rat := fun s => tabA.getD (toNum s) 0
         let ad : List Bool → Bool := fun s => admA.getD (toNum s) false
         (match searchExhaustive n ad eu with
          | .valueError => "ValueError"
          | .ok st =>
            match st.best with
            | none => "none " ++ toString st.evals
            | some (s, v) => showBits s ++ " " ++ renderRat v ++ " " ++ toString st.evals)
       | _, _, _ => "bad-op")
    | some [.atom "loc", us, ct, tab] =>
      (match rats us, ct.nat?, rats tab with
       | some us, some ct, some tab =>
         let tabA := tab.toArray
         let eu : List Bool → Rat := fun s => tabA.getD (toNum s) 0
         (match searchLocal us (ct == 1) eu with
          | .problogError => "ProbLogError"
          | .outOfFuel => "out-of-fuel"
          | .ok st => showBits st.choices ++ " " ++ renderRat st.best ++ " " ++ toString st.evals)
       | _, _, _ => "bad-op")
    | some [.atom "eval", res, us] =>
      (match pairs res, pairs us with
       | some res, some us => renderRat (evaluate res us)
       | _, _ => "bad-op")
    | some [.atom "evalu", res, us] =>
      (match pairs res, pairs us with
       | some res, some us => renderRat (evaluateUnpatched res us)
       | _, _ => "bad-op")
    | some [.atom "map", ps, v] =>
      (match rats ps, bits v with
       | some ps, some v => renderRat (mapScore ps v) ++ " " ++ renderRat (mapObjective ps v)
       | _, _ => "bad-op")
    | _ => "bad-op"
  ((), out)

def main : IO Unit := runDriver () step
