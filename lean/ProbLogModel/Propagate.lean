/-
Model of evidence propagation — `LogicFormula.propagate`, `get_evidence_value`, `set_evidence_value`
(`problog/formula.py` 940-1071), the lookup `StackBasedEngine.propagate_evidence` (`problog/engine_stack.py` 640-651),
the evidence branch of `ConstraintAD.add` (`problog/constraint.py` 135-146) and the labelling done by
`ClauseDBEngine.ground_evidence` (`problog/engine.py` 461-525).

Keys are Python's: `none` = FALSE (None), `some 0` = TRUE, `some (±i)` = node i / its negation.
The dict `current` is an association list in insertion order (`assocSet` = `current[k] = v`: overwrite in place).
The Python `queue` is a `set` whose `pop()` order is unspecified: the model keeps it as a duplicate-free list and takes the
element chosen by an arbitrary *pick function* `pick : Nat → List Int → Nat` (remaining fuel, queue ↦ index, taken modulo the
length); every theorem quantifies over all pick functions.
-/
import ProbLogModel.Formula
namespace ProbLogModel.Propagate
open ProbLogModel.Formula

inductive PErr where
  | inconsistent   -- InconsistentEvidenceError(context=" during evidence propagation")
  | typeError      -- `abs(c)` for a child `c = None` (a FALSE child stored in a node)
  | badKey         -- `get_node(abs(nid))`: AssertionError (key 0) or IndexError (no such node)
  | fuel           -- model only: fuel exhausted (never returned by `propagate`: `C06_propagate_terminates`)
  deriving DecidableEq, Repr

/-- the dict `current` : node ↦ TRUE / FALSE -/
abbrev Cur := List (Nat × Key)
/-- `atoms_in_rules` : node ↦ set of parents that could not be propagated yet -/
abbrev Rev := List (Nat × List Nat)

structure PState where
  queue : List Int
  cur : Cur
  rev : Rev
  deriving Repr, Inhabited, DecidableEq

/-- `queue.add(x)` -/
def qAdd (q : List Int) (x : Int) : List Int := if q.contains x then q else q ++ [x]

/-- `atoms_in_rules[k]` (defaultdict(set)) -/
def revGet (r : Rev) (k : Nat) : List Nat := (lookup r k).getD []
/-- `atoms_in_rules[k].add(p)` -/
def revAdd (r : Rev) (k p : Nat) : Rev :=
  assocSet r k (if (revGet r k).contains p then revGet r k else revGet r k ++ [p])
/-- `atoms_in_rules[k].discard(p)` -/
def revDiscard (r : Rev) (k p : Nat) : Rev := assocSet r k ((revGet r k).filter (· != p))

/-- formula.py:1020-1024  `ch = current.get(abs(c), abs(c)); if c < 0: ch = self.negate(ch)`.
    `abs(None)` raises TypeError. -/
def childVal (cur : Cur) : Key → Except PErr Key
  | none => .error .typeError
  | some c =>
    let ch : Key := (lookup cur c.natAbs).getD (some (c.natAbs : Int))
    .ok (if c < 0 then negate ch else ch)

/-- the list comprehension over `n.children` (the whole list is built before any test) -/
def childVals (cur : Cur) : List Key → Except PErr (List Key)
  | [] => .ok []
  | c :: cs =>
    match childVal cur c with
    | .error e => .error e
    | .ok v =>
      match childVals cur cs with
      | .error e => .error e
      | .ok vs => .ok (v :: vs)

/-- formula.py:1049  `filter(lambda x: x != 0 and x is not None, children)` -/
def nondet (cs : List Key) : List Int :=
  cs.filterMap (fun c => match c with
    | some k => if k = 0 then none else some k
    | none => none)

/-- formula.py:1001-1009: the parents of a node that gets its value for the first time and that already have a value are
    queued again, with the value they have. -/
def requeue (cur : Cur) (q : List Int) (parents : List Nat) : List Int :=
  parents.foldl (fun q at_ =>
    match lookup cur at_ with
    | some v => if v == TRUE then qAdd q (at_ : Int) else qAdd q (-(at_ : Int))
    | none => q) q

/-- `if abs(c) not in current: queue.add(c)` -/
def addIfNew (cur : Cur) (q : List Int) (c : Int) : List Int :=
  if (lookup cur c.natAbs).isNone then qAdd q c else q

/-- formula.py:1017-1071, the non-atom part of one iteration. `cur` already holds the value of the node. -/
def compound (isConj : Bool) (nid : Int) (cs : List Key) (q : List Int) (cur : Cur) (rev : Rev) : Except PErr PState :=
  match childVals cur cs with
  | .error e => .error e
  | .ok children =>
    -- Node should be true, but is a conjunction with a false child
    if isConj && children.contains FALSE && decide (nid > 0) then .error .inconsistent
    -- Node should be false, but is a disjunction with a true child
    else if !isConj && children.contains TRUE && decide (nid < 0) then .error .inconsistent
    -- Node should be false, and is a conjunction with a false child: already satisfied
    else if isConj && children.contains FALSE && decide (nid < 0) then .ok ⟨q, cur, rev⟩
    -- Node should be true and is a disjunction with a true child: already satisfied
    else if !isConj && children.contains TRUE && decide (nid > 0) then .ok ⟨q, cur, rev⟩
    else
      let nd := nondet children
      match nd with
      | [c] =>
        -- One child left: propagate value to the child
        if (lookup cur c.natAbs).isNone then
          .ok ⟨qAdd q (if nid < 0 then -c else c), cur, revDiscard rev c.natAbs nid.natAbs⟩
        else .ok ⟨q, cur, rev⟩
      | _ =>
        if decide (nid > 0) && isConj then
          -- Conjunction is true => all children are true
          .ok ⟨nd.foldl (fun q c => addIfNew cur q c) q, cur, nd.foldl (fun r c => revDiscard r c.natAbs nid.natAbs) rev⟩
        else if decide (nid < 0) && !isConj then
          -- Disjunction is false => all children are false
          .ok ⟨nd.foldl (fun q c => addIfNew cur q (-c)) q, cur, nd.foldl (fun r c => revDiscard r c.natAbs nid.natAbs) rev⟩
        else
          -- We can't propagate yet. Mark current rule as parent of its children.
          .ok ⟨q, cur, nd.foldl (fun r c => revAdd r c.natAbs nid.natAbs) rev⟩

/-- One iteration of the `while queue` loop for the popped element `nid` (`st.queue` is the queue after the pop). -/
def popStep (S : Store) (st : PState) (nid : Int) : Except PErr PState :=
  let a := nid.natAbs
  -- n = self.get_node(abs(nid))
  if a = 0 then .error .badKey else
  match S.nodes[a - 1]? with
  | none => .error .badKey
  | some n =>
    -- first time: process the parents again
    let q1 := if (lookup st.cur a).isNone then requeue st.cur st.queue (revGet st.rev a) else st.queue
    -- current[abs(nid)] = values[nid > 0]
    let cur := assocSet st.cur a (if nid > 0 then TRUE else FALSE)
    match n with
    | .atom _ _ _ _ => .ok ⟨q1, cur, st.rev⟩
    | .conj cs _ => compound true nid cs q1 cur st.rev
    | .disj cs _ => compound false nid cs q1 cur st.rev

/-- The `while queue:` loop. -/
def run (S : Store) (pick : Nat → List Int → Nat) : Nat → PState → Except PErr Cur
  | 0, st => if st.queue.isEmpty then .ok st.cur else .error .fuel
  | f + 1, st =>
    if st.queue.isEmpty then .ok st.cur
    else
      match st.queue[pick f st.queue % st.queue.length]? with
      | none => .error .fuel   -- unreachable (index < length)
      | some nid =>
        match popStep S { st with queue := st.queue.erase nid } nid with
        | .error e => .error e
        | .ok st' => run S pick f st'

/-- `queue = set(nodeids)` -/
def mkQueue (nodeids : List Int) : List Int := nodeids.foldl qAdd []

/-- Enough fuel for every pick function (`C06_propagate_terminates`). -/
def fuelBound (S : Store) : Nat := (S.nodes.length + 1) * (2 * S.nodes.length + 1)

/-- `LogicFormula.propagate(nodeids, current)`. -/
def propagate (S : Store) (pick : Nat → List Int → Nat) (nodeids : List Int) (current : Cur := []) : Except PErr Cur :=
  run S pick (fuelBound S) ⟨mkQueue nodeids, current, []⟩

/-! ### evidence values -/

/-- `get_evidence_value(key)`; `ev = none` ⇔ `not has_evidence_values()`. -/
def evValue (ev : Option Cur) (key : Key) : Key :=
  match key with
  | none => none
  | some k =>
    if k = 0 then some 0
    else
      match ev with
      | none => some k
      | some tbl =>
        let r : Key := (lookup tbl k.natAbs).getD (some (k.natAbs : Int))
        if k < 0 then negate r else r

/-- `set_evidence_value(key, value)` (key a node key, not TRUE/FALSE). -/
def setEvValue (tbl : Cur) (key : Int) (value : Key) : Cur :=
  if key < 0 then assocSet tbl key.natAbs (negate value) else assocSet tbl key.natAbs value

/-- `StackBasedEngine.propagate_evidence(db, target, functor, args, resultnode)` (engine_stack.py:640-651). -/
def engineLookup (ev : Option Cur) (resultnode : Key) : Key :=
  match ev with
  | none => resultnode
  | some tbl =>
    -- `resultnode in target.lookup_evidence`: the dict has positive int keys only
    let find (k : Key) : Option Key := match k with
      | some i => if 0 < i then lookup tbl i.natAbs else none
      | none => none
    match find resultnode with
    | some v => v
    | none =>
      match find (negate resultnode) with
      | some v => negate v
      | none => resultnode

/-- Replace every child by its evidence value (what `_break_cycles` sees through `get_evidence_value`). -/
def substNode (tbl : Cur) : Node → Node
  | .atom i g e n => .atom i g e n
  | .conj cs n => .conj (cs.map (evValue (some tbl))) n
  | .disj cs n => .disj (cs.map (evValue (some tbl))) n

def substitute (S : Store) (tbl : Cur) : Store := { S with nodes := S.nodes.map (substNode tbl) }

/-! ### `ConstraintAD.add`, evidence branch (constraint.py:135-146, `formula.semiring` unset) -/

inductive ADRes where
  | retFalse                 -- `return formula.FALSE` : another member of the AD is true by evidence
  | retNode (tbl : Cur)      -- `return node` before the node is added to the constraint
  | continue_ (tbl : Cur)    -- fall through to `self.nodes.add(node)`
  deriving Repr, DecidableEq

def adAddEv (tbl : Cur) (members : List Nat) (node : Nat) : ADRes :=
  if members.any (fun n => evValue (some tbl) (some (n : Int)) == TRUE) then .retFalse
  else if evValue (some tbl) (some (node : Int)) == FALSE then .retNode tbl
  else if evValue (some tbl) (some (node : Int)) == TRUE then
    .continue_ (members.foldl (fun (t : Cur) (n : Nat) => setEvValue t (n : Int) FALSE) tbl)
  else .continue_ tbl

/-! ### evidence labelling (engine.py:461-516) and `LogicFormula.evidence()` (formula.py:321-332) -/

/-- The second argument of `evidence/2`. -/
inductive EvArg where
  | true_ | false_ | other
  deriving DecidableEq, Repr

/-- An evidence statement about ground atom `a`: `evidence(a)`, `evidence(\+a)`, `evidence(a, v)`. -/
inductive EvStmt where
  | ev1 (negated : Bool) (a : Nat)
  | ev2 (a : Nat) (v : EvArg)
  deriving DecidableEq, Repr

/-- What `ground_evidence` grounds and the label it gives to the result: `(atom, label)`.
    `evidence(\+a)` grounds `-query[0]` = `a` with LABEL_EVIDENCE_NEG. -/
def evLabel : EvStmt → Nat × Label
  | .ev1 true a => (a, .evNeg)
  | .ev1 false a => (a, .evPos)
  | .ev2 a .true_ => (a, .evPos)
  | .ev2 a .false_ => (a, .evNeg)
  | .ev2 a .other => (a, .evMaybe)

/-- The evidence literal `LogicFormula.evidence()` reports for a statement, `g` = key the atom is grounded to. -/
def evLiteral (g : Nat → Key) (s : EvStmt) : Option Key :=
  match evLabel s with
  | (a, .evPos) => some (g a)
  | (a, .evNeg) => some (negate (g a))
  | _ => none

/-- `LogicFormula.evidence()`: positive evidence keys, then negated negative evidence keys. -/
def evidenceOf (S : Store) : List Key :=
  (S.names.filterMap (fun (l, _, k) => if l == Label.evPos then some k else none)) ++
  (S.names.filterMap (fun (l, _, k) => if l == Label.evNeg then some (negate k) else none))

/-- engine.py:520-524 `[node for name, node in target.evidence() if node != 0 and node is not None]` -/
def evNodes (S : Store) : List Int := nondet (evidenceOf S)

/-- `ground_evidence(..., propagate_evidence=True)`: `target.lookup_evidence = propagate(ev_nodes, {})`. -/
def propagateEvidence (S : Store) (pick : Nat → List Int → Nat) : Except PErr Cur :=
  propagate S pick (evNodes S) []

end ProbLogModel.Propagate
