/-
C17: model of the operator-precedence parser of problog/parser.py as written:
  `collapse` (:1208-1271)  bracket matching into sub-expressions with an explicit stack,
  `SubExpression.parse` (:1309-1324), `ListExpression.parse` (:1402-1430),
  `label_tokens` (:1143-1196)  role labelling atom / functor / arglist / binop / unop,
  `fold` (:1072-1141)  choice of the operator of maximal priority (rightmost for `yfx`, leftmost otherwise),
                       the `x`/`y` priority clash test,
  `_build_operator_free` (:1010-1070), `_build_clause` (:917-930),
and of the factory it is used with by `PrologString` (program.py:345-575, `ExtendedPrologFactory`), statement by
statement (the program-level `build_program`/`_update_functors` pass is not part of this model).

Python exceptions are explicit results:
  * `Err.parse msg`     — `ParseError` (message without position),
  * `Err.grounding`     — `GroundingError` raised by the factory,
  * `Err.crash k`       — a non-ProbLog exception raised inside the *factory* (program.py), e.g. `AttributeError`,
  * `Err.internal k`    — a non-ProbLog exception raised by *parser.py's own code* (the branch C17_fold_total is about),
  * `Err.unsupported w` — the model does not represent the value the implementation builds (counted, never compared).

Mutation in Python (tokens are objects, `label_tokens` assigns attributes) is rendered functionally: a token list is
labelled exactly once (parser.py labels the token list of a sub-expression when its closing bracket is read and the
root list at the end), so labelling returns a new list.
-/
import ProbLogModel.ParserTypes
import ProbLogModel.Syntax
import ProbLogModel.Generated.OpTable
namespace ProbLogModel.Parser
open ProbLogModel.Syntax

inductive Err where
  | parse (msg : String)
  | grounding (msg : String)
  | crash (kind : String)
  | internal (kind : String)
  | unsupported (what : String)
  deriving DecidableEq, Repr, Inhabited

abbrev R := Except Err

/-! ## Items of a token list: raw tokens and closed sub-expressions -/

inductive SubKind where
  | paren | list | sharp
  deriving DecidableEq, Repr, Inhabited

/-- `.tokens` of a parsed `SubExpression`: a Python list (argument-list mode) or a single value. -/
inductive SubVal where
  | many (l : List Tm)
  | one (v : Tm)
  deriving Repr, Inhabited

/-- A closed `ParenExpression` / `ListExpression` after `parse()` (parser.py:1283-1461). -/
structure Sub where
  kind : SubKind
  commaList : Bool          -- `is_comma_list` (fixed once the inner tokens are labelled)
  atom : Bool               -- starts `True`
  functor : Bool            -- starts `False`
  arglistFlag : Bool        -- `_arglist`, starts `True`
  value : SubVal            -- `.tokens`
  enum : Option (List Tm)   -- `enum_tokens()`; `none` = not iterable (`TypeError`)
  deriving Repr, Inhabited

inductive Item where
  | tok (t : Tok) (arglist : Bool)
  | sub (s : Sub)
  deriving Repr, Inhabited

namespace Item
def atom : Item → Bool
  | tok t _ => t.atom
  | sub s => s.atom
def functor : Item → Bool
  | tok t _ => t.functor
  | sub s => s.functor
def binop : Item → Option OpDef
  | tok t _ => t.binop
  | sub _ => none
def unop : Item → Option OpDef
  | tok t _ => t.unop
  | sub _ => none
def aggregate : Item → Bool
  | tok t _ => t.aggregate
  | sub _ => false
/-- `.arglist`: attribute of a `Token`, property `_arglist and is_comma_list` of a sub-expression (parser.py:1301). -/
def arglist : Item → Bool
  | tok _ a => a
  | sub s => s.arglistFlag && s.commaList
def isCommaList : Item → Bool
  | tok _ _ => false
  | sub s => s.commaList
def priority : Item → Nat
  | tok t _ => t.priority
  | sub _ => 0
def isSpecial (i : Item) (sp : Special) : Bool :=
  match i with
  | tok t _ => t.special == some sp
  | sub _ => false
def countOptions : Item → Nat
  | tok t _ => t.countOptions
  | sub _ => 1
def setAtom (b : Bool) : Item → Item
  | tok t a => tok { t with atom := b } a
  | sub s => sub { s with atom := b }
def setFunctor (b : Bool) : Item → Item
  | tok t a => tok { t with functor := b } a
  | sub s => sub { s with functor := b }
def clearBinop : Item → Item
  | tok t a => tok { t with binop := none } a
  | i => i
def clearUnop : Item → Item
  | tok t a => tok { t with unop := none } a
  | i => i
def setArglist (b : Bool) : Item → Item
  | tok t _ => tok t b
  | sub s => sub { s with arglistFlag := b }
end Item

/-! ## The factory (program.py: `PrologFactory`, `ExtendedPrologFactory`) -/
namespace Factory

def ofInt (s : String) : R Tm :=
  match s.toInt? with
  | some v => pure (.const (.int v))
  | none => throw (.unsupported "int()")

def hexVal (c : Char) : Option Nat :=
  if '0' ≤ c && c ≤ '9' then some (c.toNat - '0'.toNat)
  else if 'a' ≤ c && c ≤ 'f' then some (c.toNat - 'a'.toNat + 10)
  else if 'A' ≤ c && c ≤ 'F' then some (c.toNat - 'A'.toNat + 10)
  else none

def ofHex (s : String) : R Tm :=
  match s.toList with
  | '0' :: 'x' :: ds =>
    match ds.foldl (fun acc c => match acc, hexVal c with
        | some a, some d => some (a * 16 + d)
        | _, _ => none) (some 0) with
    | some v => pure (.const (.int v))
    | none => throw (.unsupported "int(,16)")
  | _ => throw (.unsupported "int(,16)")

/-- `build_function` (program.py:354). -/
def function (f : String) (args : List Tm) (op : Option (Nat × Spec) := none) : Tm := .term f args op none

/-- `build_binop` (program.py:366): the functor is quoted. -/
def binop (f : String) (a b : Tm) (n : Nat) (s : Spec) : Tm := .term ("'" ++ f ++ "'") [a, b] (some (n, s)) none

def negFloatText (s : String) : String :=
  match s.toList with
  | '-' :: r => String.ofList r
  | _ => "-" ++ s

/-- `build_unop` (program.py:375): a minus sign applied to a number is folded into the constant. -/
def unop (f : String) (a : Tm) (n : Nat) (s : Spec) : R Tm :=
  if f == "-" then
    match a with
    | .none => throw (.crash "AttributeError")            -- `operand.is_constant()` on None
    | .const (.int v) => pure (.const (.int (-v)))
    | .const (.flt t) => pure (.const (.flt (negFloatText t)))
    | a => pure (.term ("'" ++ f ++ "'") [a] (some (n, s)) none)
  else pure (.term ("'" ++ f ++ "'") [a] (some (n, s)) none)

/-- `build_list` (program.py:384). -/
def list (values : List Tm) (tail : Tm) : Tm :=
  let nil := match tail with
    | .none => Tm.term "[]" [] none none
    | t => t
  values.foldr (fun v cur => .term "." [v, cur] none none) nil

/-- `build_index` (parser.py:1488, inherited): `build_function("i", arguments)`. -/
def index (args : List Tm) : Tm := .term "i" args none none

/-- `literal.functor = literal.functor + suffix` for the object classes the model represents. -/
def renameNeg (t : Tm) : R Tm :=
  match t with
  | .none => throw (.crash "AttributeError")              -- `literal.signature` on None
  | .term f as o p => pure (.term (f ++ "_n") as o p)
  | .agg f as => pure (.agg (f ++ "_n") as)
  | .var n => pure (.var (n ++ "_n"))
  | .const (.str s) => pure (.const (.str (s ++ "_n")))
  | .const _ => throw (.crash "TypeError")                 -- `literal.functor + "_p"` with a number
  | .not f c => pure (.not (f ++ "_n") c)
  | _ => throw (.unsupported "negated head literal of class And/Or/Clause")

/-- `ExtendedPrologFactory.build_probabilistic` (program.py:541-553). -/
def probabilistic (p t : Tm) : R Tm := do
  let t ← (match t with
    | .none => throw (.crash "AttributeError")            -- `operand2.is_negated()` on None
    | .not _ c => renameNeg c                              -- neg_head_literal_to_pos_literal(abs(literal))
    | t => pure t)
  match t, p with
  | .term f as o _, .none => pure (.term f as o none)       -- `probability = None` is "no probability"
  | .term f as o _, p => pure (.term f as o (some p))
  | _, _ => throw (.unsupported "probability on a non-Term object")

def isExactTerm : Tm → Bool
  | .term _ _ _ _ => true
  | _ => false

def isAgg : Tm → Bool
  | .agg _ _ => true
  | _ => false

/-- `.args` of an object (for `term.args` in `build_clause`); `none` = `AttributeError` on None. -/
def argsOf : Tm → Option (List Tm)
  | .none => none
  | .term _ as _ _ => some as
  | .agg _ as => some as
  | .and a b => some [a, b]
  | .or a b => some [a, b]
  | .not _ c => some [c]
  | .clause h b => some [h, b]
  | .ad _ _ => some []          -- (heads list, body): never an AggTerm at top level of the list object
  | .var _ => some []
  | .const _ => some []

/-- `ExtendedPrologFactory.build_clause` (program.py:555-575) then `PrologFactory.build_clause` (:401-451). -/
def clause (heads : List Tm) (body : Tm) : R Tm := do
  let heads ← heads.mapM (fun h => match h with
    | .not _ c => renameNeg c
    | h => pure h)
  if !heads.all isExactTerm then throw (.grounding "Unexpected clause head")
  match heads with
  | [] => throw (.crash "IndexError")
  | [h] =>
    match h with
    | .term f as _ _ =>
      let isScope := f == "':'"
      let tm ← (if isScope then
          match as with
          | _ :: t :: _ => pure t
          | _ => throw (.crash "IndexError")                -- `operand1[0].args[1]`
        else pure h)
      match argsOf tm with
      | none => throw (.crash "AttributeError")            -- `term.args` on None
      | some targs =>
        if targs.any isAgg then throw (.unsupported "aggregate clause")
        else pure (.clause h body)
    | _ => throw (.grounding "Unexpected clause head")
  | hs => pure (.ad hs body)

/-- `build_directive` (program.py:371). -/
def directive (body : Tm) : R Tm := clause [.term "_directive" [] none none] body

end Factory

/-! ## `_build_clause` (parser.py:917-930): split the head at `;` -/

/-- `while current.functor == ";": heads.append(current.args[0]); current = current.args[1]`. -/
def uncurryOr : Tm → R (List Tm)
  | .none => throw (.internal "AttributeError:_build_clause") -- `current.functor` on None
  | .or a b => (a :: ·) <$> uncurryOr b
  | .term ";" (a :: b :: _) _ _ => (a :: ·) <$> uncurryOr b
  | .term ";" _ _ _ => throw (.internal "IndexError:_build_clause")
  | .agg ";" (a :: b :: _) => (a :: ·) <$> uncurryOr b
  | .agg ";" _ => throw (.internal "IndexError:_build_clause")
  | .not ";" _ => throw (.internal "IndexError:_build_clause")
  | .var ";" => throw (.internal "IndexError:_build_clause")
  | t => pure [t]

def buildClause (a b : Tm) : R Tm := do
  let heads ← uncurryOr a
  Factory.clause heads b

/-- Dispatch on the builder of a binary operator (`max_op[2](functor=…, operand1=lf, operand2=rf, …)`). -/
def buildBin (op : OpDef) (f : String) (a b : Tm) : R Tm :=
  match op.builder with
  | .binop => pure (Factory.binop f a b op.prio op.spec)
  | .conjunction => pure (.and a b)
  | .disjunction => pure (.or a b)
  | .probabilistic => Factory.probabilistic a b
  | .clause => buildClause a b
  | _ => throw (.unsupported "unary builder used for a binary operator")

def buildUn (op : OpDef) (f : String) (a : Tm) : R Tm :=
  match op.builder with
  | .unop => Factory.unop f a op.prio op.spec
  | .not_ => pure (.not f a)
  | .directive => Factory.directive a
  | _ => throw (.unsupported "binary builder used for a unary operator")

/-! ## `label_tokens` (parser.py:1143-1196) -/

/-- first if-chain (:1148-1155): `n` is the next (raw) token -/
def labelA (t : Item) (n : Option Item) : Item :=
  match n with
  | none => ((t.clearUnop).clearBinop).setFunctor false                       -- i == l
  | some nx =>
    if t.functor && nx.isCommaList then t.setAtom false
    else if t.unop.isSome && nx.priority > t.priority then t.clearUnop
    else t

/-- second if-chain (:1157-1182): `p` is the previous (labelled) token; may modify it -/
def labelB (p : Option Item) (t : Item) : R (Option Item × Item) :=
  match p with
  | none => pure (none, (t.clearBinop).setArglist false)                      -- i == 0
  | some pv =>
    if pv.aggregate then pure (some ((pv.setAtom false).setFunctor true), t)
    else if pv.functor then pure (some pv, (t.setAtom false).setArglist t.isCommaList)
    else if pv.arglist then pure (some pv, ((t.clearUnop).setAtom false).setFunctor false)
    else if pv.atom then
      if t.binop.isNone then throw (Err.parse "Expected binary operator")
      else pure (some pv, (((t.clearUnop).setAtom false).setFunctor false).setArglist false)
    else if pv.binop.isSome then pure (some pv, (t.clearBinop).setArglist false)
    else pure (some pv, t.setArglist false)

/-- :1184-1185 -/
def labelC (t : Item) : Item := if t.unop.isSome && t.functor then t.clearUnop else t

/-- :1187-1190 -/
def labelD (t : Item) (n : Option Item) : R Item :=
  if t.unop.isSome && t.atom then
    match n with
    | none => throw (Err.internal "IndexError:label_tokens")                   -- tokens[i + 1]
    | some nx => pure (if nx.binop.isNone then t.setAtom false else t)
  else pure t

/-- One iteration of the loop for token `t` with previous (already labelled) token `p` and next (raw) token `n`.
    Returns the possibly modified previous token and the labelled `t`. -/
def labelStep (p : Option Item) (t : Item) (n : Option Item) : R (Option Item × Item) := do
  let (p, t) ← labelB p (labelA t n)
  let t ← labelD (labelC t) n
  -- :1192-1193
  if t.countOptions != 1 then throw (Err.parse "Ambiguous token role")
  pure (p, t)

/-- The loop: `p` is the previous labelled token (not yet emitted, because the next iteration may still modify it). -/
def labelGo (p : Option Item) : List Item → R (List Item)
  | [] => pure (match p with | none => [] | some pv => [pv])
  | t :: rest => do
    let (p', t') ← labelStep p t rest.head?
    let out ← labelGo (some t') rest
    pure (match p' with | none => out | some pv => pv :: out)

def label (ts : List Item) : R (List Item) := labelGo none ts

/-! ## `_build_operator_free` (parser.py:1010-1070) -/

/-- `curr = tokens[-1]; for t in reversed(tokens[:-1]): curr = build_conjunction(",", t, curr)` -/
def conjoin : List Tm → Option Tm
  | [] => none
  | [t] => some t
  | t :: ts => (conjoin ts).map (fun c => .and t c)

def buildOpFree (items : List Item) : R Tm :=
  match items with
  | [] => pure .none
  | [.sub s] =>
    match s.value with
    | .many l => match conjoin l with
      | some v => pure v
      | none => throw (.internal "IndexError:_build_operator_free")            -- token.tokens[-1] of an empty list
    | .one v => pure v
  | [.tok t _] =>
    match t.special with
    | some .variable => pure (.var t.str)
    | some .integer => Factory.ofInt t.str
    | some .hexInteger => Factory.ofHex t.str
    | some .float => pure (.const (.flt t.str))
    | some .string => pure (.const (.str t.str))                              -- '"' + token.string[1:-1] + '"'
    | _ => if t.aggregate then pure (.agg t.str []) else pure (Factory.function t.str [])
  | [f, a] =>
    match a with
    | .tok _ _ => throw (.internal "AttributeError:_build_operator_free")     -- Token has no enum_tokens
    | .sub s =>
      match s.enum with
      | none => throw (.internal "TypeError:_build_operator_free")             -- iterating a non-list
      | some args =>
        match f with
        | .tok t _ => if t.aggregate then pure (.agg t.str args) else pure (Factory.function t.str args)
        | .sub _ => throw (.unsupported "sub-expression in functor position (functor = the whole source string)")
  | _ => throw (.parse "Unexpected token")

/-! ## `fold` (parser.py:1072-1141) -/

/-- The scan `for i in range(lo, hi)` choosing `max_i`, `max_op`. -/
def findMax : List Item → Nat → Option (Nat × OpDef) → Option (Nat × OpDef)
  | [], _, acc => acc
  | it :: rest, i, acc =>
    let op := match it.binop with
      | some b => some b
      | none => it.unop
    let acc := match op with
      | none => acc
      | some o =>
        match acc with
        | none => some (i, o)
        | some (_, m) => if o.prio > m.prio || (o.prio == m.prio && m.spec == .yfx) then some (i, o) else acc
    findMax rest (i + 1) acc

def itemStr : Item → String
  | .tok t _ => t.str
  | .sub _ => ""

/-- `fold(string, operators, lo, hi, pprior, porder)` on the slice `items`; `px` = (`pprior`, `porder == "x"`).
    `fuel` bounds the recursion depth (every recursive call is on a strictly shorter slice). -/
def foldN : Nat → List Item → Option (Nat × Bool) → R Tm
  | 0, _, _ => throw (.internal "fuel")
  | fuel + 1, items, px =>
    match findMax items 0 none with
    | none => buildOpFree items
    | some (i, op) =>
      if (match px with | some (pp, true) => pp == op.prio | _ => false) then
        throw (.parse "Operator priority clash")
      else if op.spec.isBin then do
        let lf ← foldN fuel (items.take i) (some (op.prio, op.spec.leftX))
        let rf ← foldN fuel (items.drop (i + 1)) (some (op.prio, op.spec.rightX))
        buildBin op (itemStr (items.getD i default)) lf rf
      else if i != 0 then throw (.parse "Operator priority clash")
      else do
        let lf ← foldN fuel (items.drop 1) (some (op.prio, op.spec.argX))
        buildUn op (itemStr (items.getD i default)) lf

def fold (items : List Item) : R Tm := foldN (items.length + 1) items none

/-! ## `SubExpression.parse` / `ListExpression.parse` -/

/-- Split at tokens with `is_special(SPECIAL_COMMA)` and fold every segment (parser.py:1311-1322). -/
def foldSegments : List Item → List Item → R (List Tm)
  | [], cur => do pure [← fold cur.reverse]
  | it :: rest, cur =>
    if it.isSpecial .comma then do
      let v ← fold cur.reverse
      let vs ← foldSegments rest []
      pure (v :: vs)
    else foldSegments rest (it :: cur)

/-- `is_comma_list` (parser.py:1391-1397, 1440-1446): `max_operators[0]` is looked up in its labelled state. -/
def commaListOf (labelled : List Item) (maxIdx : Option Nat) : Bool :=
  match maxIdx with
  | none => true
  | some i =>
    match labelled[i]? with
    | some (.tok t _) => t.str == "," || t.priority < 1000
    | _ => true

def parseParen (kind : SubKind) (toks : List Item) (maxIdx : Option Nat) : R Sub := do
  let ls ← label toks
  let cl := commaListOf ls maxIdx
  if cl then                                                                   -- `self.arglist`: `_arglist` is still True
    let vs ← foldSegments ls []
    pure { kind, commaList := cl, atom := true, functor := false, arglistFlag := true, value := .many vs, enum := some vs }
  else
    let v ← fold ls
    pure { kind, commaList := cl, atom := true, functor := false, arglistFlag := true, value := .one v, enum := none }

/-- The loop of `ListExpression.parse` (parser.py:1407-1424): returns (prefix, tail). -/
def listSegments : List Item → List Item → R (List Tm × Tm)
  | [], cur => if cur.isEmpty then pure ([], .none) else do pure ([← fold cur.reverse], .none)
  | it :: rest, cur =>
    if it.isSpecial .pipe then do
      let v ← fold cur.reverse
      let tl ← fold rest
      pure ([v], tl)
    else if it.isSpecial .comma then do
      let v ← fold cur.reverse
      let (vs, tl) ← listSegments rest []
      pure (v :: vs, tl)
    else listSegments rest (it :: cur)

def parseList (toks : List Item) (maxIdx : Option Nat) : R Sub := do
  let ls ← label toks
  let cl := commaListOf ls maxIdx
  let (pre, tl) ← listSegments ls []
  pure { kind := .list, commaList := cl, atom := true, functor := false, arglistFlag := true,
         value := .one (Factory.list pre tl), enum := some [Factory.index pre] }

/-! ## `collapse` (parser.py:1208-1271) -/

structure Frame where
  kind : SubKind
  toks : List Item            -- in order
  maxIdx : Option Nat         -- index in `toks` of `max_operators[0]`
  maxPrio : Nat
  deriving Inhabited

/-- `SubExpression.append` (parser.py:1335-1350) for a token that is not the closing one. -/
def Frame.push (f : Frame) (it : Item) : Frame :=
  match it.binop with
  | some b =>
    if f.maxIdx.isNone || b.prio > f.maxPrio then
      { f with toks := f.toks ++ [it], maxIdx := some f.toks.length, maxPrio := b.prio }
    else { f with toks := f.toks ++ [it] }
  | none => { f with toks := f.toks ++ [it] }

def markLastAgg : List Item → List Item
  | [] => []
  | [.tok t a] => [.tok { t with aggregate := true } a]
  | [i] => [i]
  | i :: is => i :: markLastAgg is

/-- `accepts` (parser.py:1399, 1448). -/
def accepts (k : SubKind) (t : Tok) : Bool :=
  match k with
  | .list => t.special != some .parenClose
  | _ => t.special != some .brackClose

def closeChar : SubKind → Special
  | .paren => .parenClose
  | .list => .brackClose
  | .sharp => .sharpClose

/-- close the top frame with token `t` (which the frame accepts): append, parse, attach to the parent. -/
def closeFrame (fr : Frame) (t : Tok) (root : List Item) (stack : List Frame) : R (List Item × List Frame) := do
  let fr := if t.special == some (closeChar fr.kind) then fr else fr.push (.tok t false)
  let sub ← (match fr.kind with
    | .list => parseList fr.toks fr.maxIdx
    | k => parseParen k fr.toks fr.maxIdx)
  match stack with
  | [] => pure (root ++ [.sub sub], [])
  | par :: more => pure (root, par.push (.sub sub) :: more)

/-- an `IndexError` escaping from `current_expr.parse(self)` is caught by `except IndexError` (parser.py:1245) and
    becomes `UnmatchedCharacter`; the tag in the message is for the harness only (Python's message is the same). -/
def catchIndexError {α} (r : R α) : R α :=
  match r with
  | .error (.internal "IndexError:_build_clause") => .error (.parse "Unmatched character [caught IndexError]")
  | .error (.internal "IndexError:label_tokens") => .error (.parse "Unmatched character [caught IndexError]")
  | .error (.internal "IndexError:_build_operator_free") => .error (.parse "Unmatched character [caught IndexError]")
  | .error (.crash "IndexError") => .error (.parse "Unmatched character [caught IndexError]")
  | r => r

/-- The loop over the raw tokens; `stack` has the innermost open expression first. The previous raw token (for
    `tokens[token_i - 1].aggregate = True`) is the last element of the current container when that is a raw token
    (after an opening bracket the container is empty, after a closing one its last element is a sub-expression; in
    both cases the marked token is a bracket, whose flag is never read). -/
def collapseStep (t : Tok) (rest : List Tok) (root : List Item) (stack : List Frame) : R (List Item × List Frame) :=
  let other : R (List Item × List Frame) :=
    if t.special == some .parenOpen then
      pure (root, { kind := .paren, toks := [], maxIdx := none, maxPrio := 0 } :: stack)
    else if t.special == some .brackOpen then
      pure (root, { kind := .list, toks := [], maxIdx := none, maxPrio := 0 } :: stack)
    else if t.special == some .parenClose || t.special == some .brackClose then
      match stack with
      | [] => throw (.parse "Unmatched character")
      | fr :: more =>
        if !accepts fr.kind t then throw (.parse "Unexpected character")
        else catchIndexError (closeFrame fr t root more)
    else
      match stack with
      | fr :: more =>
        if t.special == some .sharpClose && fr.kind == .sharp && accepts fr.kind t then closeFrame fr t root more
        else pure (root, fr.push (.tok t false) :: more)
      | [] => pure (root ++ [.tok t false], [])
  if t.special == some .sharpOpen then
    match rest with
    | [] => throw (.internal "IndexError:collapse")                            -- tokens[token_i + 1]
    | v :: rest' =>
      if v.special == some .variable && (match rest' with | c :: _ => c.special == some .sharpClose | [] => false) then
        let fr : Frame := { kind := .sharp, toks := [], maxIdx := none, maxPrio := 0 }
        match stack with
        | [] => pure (markLastAgg root, [fr])
        | top :: more => pure (root, fr :: { top with toks := markLastAgg top.toks } :: more)
      else other
  else other

def collapseGo : List Tok → List Item → List Frame → R (List Item)
  | [], root, stack =>
    match stack with
    | [] => pure root
    | _ => throw (.parse "Unmatched character")
  | t :: rest, root, stack => do
    let (root, stack) ← collapseStep t rest root stack
    collapseGo rest root stack

/-- `tokens[-1].aggregate = True` when the statement starts with `<Var>` (index `token_i - 1 = -1` wraps around). -/
def premark (toks : List Tok) : List Tok :=
  match toks with
  | a :: v :: c :: _ =>
    if a.special == some .sharpOpen && v.special == some .variable && c.special == some .sharpClose then
      match toks.reverse with
      | l :: r => (({ l with aggregate := true } : Tok) :: r).reverse
      | [] => toks
    else toks
  | _ => toks

/-- `collapse(string, tokens)`: one statement. -/
def collapse (toks : List Tok) : R Tm := do
  let root ← collapseGo (premark toks) [] []
  let ls ← label root
  fold ls

end ProbLogModel.Parser
