/-
Model of problog/pypl.py (`py2pl`, `pl2py`), of `list2term`/`term2list` (logic.py:108-144) and of the
argument conversions of `problog_export` (extern.py:47-125)  — property C28.

Python values are `PyVal`; Prolog-side objects are `Pl`.  Only the shapes the two functions look at are kept
structurally (constants, arity-0 terms, arity-2 terms); every other `Term` is an opaque leaf identified by its
functor, arity and printed form.  The `ValueError` branches (`py2pl` on an unsupported Python type such as
bool/dict/None, `pl2py` on `None`) have no constructor in the input types, so they are outside the model (the
harness checks them on the real code only).

Floats are exact rationals (the value of the IEEE double); `Constant.__init__` rounds floats to 15 decimals
(logic.py:896-901, `round(value, 15)`): correctly rounded decimal (round-half-even on the exact value),
then the nearest double of that decimal — `round15`.
-/
namespace ProbLogModel.PyPl

/-- Objects on the Prolog side. -/
inductive Pl where
  | cint (i : Int)                                   -- Constant(int)
  | cflt (q : Rat)                                   -- Constant(float)
  | cstr (s : String)                                -- Constant(str): the functor string, quotes included
  | ivar (i : Int)                                   -- a variable written as a Python int
  | pvar (n : String)                                -- Var(name)
  | atom (f : String)                                -- Term(f)
  | app2 (f : String) (a b : Pl)                     -- Term(f, a, b)
  | other (f : String) (arity : Nat) (repr : String) -- any other Term (arity ∉ {0, 2}); never inspected
  deriving Repr, DecidableEq

/-- Python values. `term`: a `Term` (or `Var`) object held on the Python side. -/
inductive PyVal where
  | int (i : Int)
  | flt (q : Rat)
  | str (s : String)
  | list (xs : List PyVal)
  | tup (xs : List PyVal)
  | term (t : Pl)
  deriving Repr

/-! ### Constant's float rounding -/

/-- Round half to even. -/
def roundHalfEven (q : Rat) : Int :=
  let f := q.floor
  let r := q - (f : Rat)
  if r < 1 / 2 then f else if r > 1 / 2 then f + 1 else if f % 2 = 0 then f else f + 1

def pow2 (e : Int) : Rat := if e ≥ 0 then ((2 ^ e.toNat : Nat) : Rat) else 1 / ((2 ^ (-e).toNat : Nat) : Rat)

/-- Nearest IEEE binary64 value (round-half-even on the 53-bit significand, subnormals included; overflow
    is not modelled: the inputs are finite doubles rounded to 15 decimals). -/
def toDouble (q : Rat) : Rat :=
  if q = 0 then 0
  else
    let a : Rat := if q < 0 then -q else q
    let l0 : Int := (a.num.natAbs.log2 : Int) - (a.den.log2 : Int)
    let l1 : Int := if a < pow2 l0 then l0 - 1 else l0
    let l : Int := if pow2 (l1 + 1) ≤ a then l1 + 1 else l1      -- 2^l ≤ a < 2^(l+1)
    let e : Int := if l - 52 < -1074 then -1074 else l - 52
    let m : Int := roundHalfEven (a / pow2 e)
    let r : Rat := (m : Rat) * pow2 e
    if q < 0 then -r else r

/-- The decimal `round(value, 15)` aims at (logic.py:899-900). -/
def decimal15 (q : Rat) : Rat := (roundHalfEven (q * 1000000000000000) : Rat) / 1000000000000000

/-- `round(value, 15)` as a double. -/
def round15 (q : Rat) : Rat := toDouble (decimal15 q)

/-! ### py2pl (pypl.py:21-51) -/

/-- `'"{}"'.format(d)`. -/
def quoteStr (s : String) : String := "\"" ++ s ++ "\""

/-- The loop `for el in reversed(d[:-1]): tail = Term(f, py2pl(el), tail)`. -/
def buildSeq (f : String) (base : Pl) (revInit : List Pl) : Pl :=
  revInit.foldl (fun tail el => .app2 f el tail) base

mutual
def py2pl : PyVal → Pl
  | .list xs =>
    match (py2plAll xs).reverse with
    | [] => .atom "[]"
    | last :: revInit => buildSeq "." (.app2 "." last (.atom "[]")) revInit
  | .tup xs =>
    match (py2plAll xs).reverse with
    | [] => .atom "()"
    | last :: revInit => buildSeq "," last revInit
  | .str s => .cstr (quoteStr s)
  | .int i => .cint i
  | .flt q => .cflt (round15 q)
  | .term t => t
def py2plAll : List PyVal → List Pl
  | [] => []
  | x :: xs => py2pl x :: py2plAll xs
end

/-! ### pl2py (pypl.py:54-93) -/

/-- Current code: `d.value.replace('"', "").replace("'", "")`. -/
def stripAll (s : String) : String :=
  String.ofList (s.toList.filter (fun c => c != '"' && c != '\''))

/-- Proposed fix (repo_patches/C28_quotes.diff): remove one pair of enclosing, matching quotes. -/
def stripPair (s : String) : String :=
  match s.toList with
  | [] => s
  | c :: rest =>
    if (c == '"' || c == '\'') && rest.getLast? == some c then String.ofList rest.dropLast else s

/-- `term2str` on an int (logic.py:99-103). -/
def intVarName (i : Int) : String := if i ≥ 0 then "A" ++ toString (i + 1) else "X" ++ toString (-i)

/-- The last two `elif`s and the `else` of the Term case (functor tests do not look at the arity). -/
def nonSeq (f : String) (t : Pl) : PyVal :=
  if f == "[]" then .list [] else if f == "()" then .tup [] else .term t

mutual
/-- `pl2py`, with the string decoder `dec` as a parameter (`stripAll` = current code, `stripPair` = fix). -/
def pl2pyWith (dec : String → String) : Pl → PyVal
  | .cstr s => .str (dec s)
  | .cint i => .int i
  | .cflt q => .flt q
  | .app2 f a b =>
    if f == "." then .list (pl2pyWith dec a :: listRest dec b)
    else if f == "," then .tup (pl2pyWith dec a :: tupRest dec b)
    else nonSeq f (.app2 f a b)
  | .atom f => nonSeq f (.atom f)
  | .other f n r => nonSeq f (.other f n r)
  | .pvar n => nonSeq n (.pvar n)
  | .ivar i => .term (.pvar (intVarName i))
/-- The `while … functor == "."` loop from its second iteration on, and the test on the final tail. -/
def listRest (dec : String → String) : Pl → List PyVal
  | .app2 f a b =>
    if f == "." then pl2pyWith dec a :: listRest dec b
    else [if f == "," then .tup (pl2pyWith dec a :: tupRest dec b) else nonSeq f (.app2 f a b)]
  | .cstr s => if s == "[]" then [] else [.str (dec s)]
  | .cint i => [.int i]
  | .cflt q => [.flt q]
  | .atom f => if f == "[]" then [] else [nonSeq f (.atom f)]
  | .other f n r => [nonSeq f (.other f n r)]
  | .pvar n => if n == "[]" then [] else [nonSeq n (.pvar n)]
  | .ivar i => [.term (.pvar (intVarName i))]
/-- The `while … functor == ","` loop from its second iteration on, and the final element. -/
def tupRest (dec : String → String) : Pl → List PyVal
  | .app2 f a b =>
    if f == "," then pl2pyWith dec a :: tupRest dec b
    else [if f == "." then .list (pl2pyWith dec a :: listRest dec b) else nonSeq f (.app2 f a b)]
  | .cstr s => [.str (dec s)]
  | .cint i => [.int i]
  | .cflt q => [.flt q]
  | .atom f => [nonSeq f (.atom f)]
  | .other f n r => [nonSeq f (.other f n r)]
  | .pvar n => [nonSeq n (.pvar n)]
  | .ivar i => [.term (.pvar (intVarName i))]
end

/-- `pl2py` of the current code. -/
def pl2pyCur : Pl → PyVal := pl2pyWith stripAll
/-- `pl2py` with the proposed fix. -/
def pl2pyFix : Pl → PyVal := pl2pyWith stripPair

/-! ### list2term / term2list (logic.py:108-144), used by `problog_export` for `list` arguments -/

def list2term (xs : List PyVal) : Pl :=
  (py2plAll xs).reverse.foldl (fun tail e => .app2 "." e tail) (.atom "[]")

/-- `term2list(term, deep=True)`; `none` = `ValueError("Expected fixed list.")`.
    The final test is `term == Term("[]")` with the `__eq__` of the *tail's* class: functor and arity for a
    Term, the printed form for a Constant and for a Var. -/
def term2list (dec : String → String) : Pl → Option (List PyVal)
  | .app2 f a b =>
    if f == "." then (term2list dec b).map (fun r => pl2pyWith dec a :: r) else none
  | .atom f => if f == "[]" then some [] else none
  | .cstr s => if s == "[]" then some [] else none      -- Constant.__eq__ compares the printed forms
  | .pvar n => if n == "[]" then some [] else none      -- Var.__eq__ compares the printed forms
  | _ => none

/-! ### the domain on which the round trip is the identity -/

def isLongTup : PyVal → Bool
  | .tup (_ :: _ :: _) => true
  | _ => false

def lastOk (xs : List PyVal) : Bool :=
  match xs.getLast? with
  | some l => !isLongTup l
  | none => true

mutual
/-- Plain values (ints, floats, strings, lists, tuples) that survive `pl2py ∘ py2pl` unchanged:
    floats with at most 15 decimals, strings the decoder restores, no tuple of length one, and no tuple
    whose last element is a tuple of length ≥ 2. -/
def good (dec : String → String) : PyVal → Bool
  | .int _ => true
  | .flt q => round15 q == q
  | .str s => dec (quoteStr s) == s
  | .list xs => goodAll dec xs
  | .tup xs => xs.length != 1 && goodAll dec xs && lastOk xs
  | .term _ => false
def goodAll (dec : String → String) : List PyVal → Bool
  | [] => true
  | x :: xs => good dec x && goodAll dec xs
end

mutual
/-- First reason why a value is outside `good` ("ok" if inside) — the structural condition used to classify
    a failing round trip on the real code. -/
def why (dec : String → String) : PyVal → String
  | .int _ => "ok"
  | .flt q => if round15 q == q then "ok" else "float15"
  | .str s => if dec (quoteStr s) == s then "ok" else "quote"
  | .list xs => whyAll dec xs
  | .tup xs =>
    if xs.length == 1 then "tuple1"
    else
      let w := whyAll dec xs
      if w != "ok" then w else if lastOk xs then "ok" else "tailtuple"
  | .term _ => "term"
def whyAll (dec : String → String) : List PyVal → String
  | [] => "ok"
  | x :: xs => let w := why dec x; if w != "ok" then w else whyAll dec xs
end

end ProbLogModel.PyPl
