/-
Shared first-order term type for all models (problog/logic.py: `Term`, `Var`, `Constant`).

The constructors follow what the engine sees at a builtin call, not the concrete syntax:

* `var n`     — an unbound variable.  Inside the engine variables are Python `int`s (`is_variable`, logic.py:161-167);
                in a parsed clause they are `Var` objects; both are modelled by an integer identity.
* `int i`     — `Constant(i)` with `type(value) == int` (negative literals are parsed to `Constant(-3)`).
* `float q`   — `Constant(x)` with `type(value) == float`, as the exact rational value of the (finite) double.
                (`-0.0`, `inf`, `nan` are outside the model.)
* `str s`     — `Constant('"…"')`, a double-quoted string; `s` is the text between the double quotes.
* `app f as`  — `Term(f, *as)`.  An atom is `app f []` (ProbLog has no separate atom class: `arity == 0`).
                `f` is `str(term.functor)` exactly as ProbLog stores it, i.e. **including the single quotes** of a
                quoted atom (`'hello world'` has functor `"'hello world'"`, `a-b` has functor `"'-'"`).
                Lists are `app "." [head, tail]` ending in `app "[]" []` (logic.py `list2term`).

Keep this file minimal and stable: other properties build on it.
-/
namespace ProbLogModel

inductive Term where
  | var (n : Int)
  | int (i : Int)
  | float (q : Rat)
  | str (s : String)
  | app (f : String) (args : List Term)
  deriving Repr, Inhabited

namespace Term

mutual
/-- Structural equality (= `Term.__eq__`, logic.py:704-738, on the modelled fragment). -/
def decEq : (a b : Term) → Decidable (a = b)
  | .var m, .var n => if h : m = n then isTrue (by rw [h]) else isFalse (by intro e; cases e; exact h rfl)
  | .int m, .int n => if h : m = n then isTrue (by rw [h]) else isFalse (by intro e; cases e; exact h rfl)
  | .float m, .float n => if h : m = n then isTrue (by rw [h]) else isFalse (by intro e; cases e; exact h rfl)
  | .str m, .str n => if h : m = n then isTrue (by rw [h]) else isFalse (by intro e; cases e; exact h rfl)
  | .app f as, .app g bs =>
    if h : f = g then
      match decEqList as bs with
      | isTrue h2 => isTrue (by rw [h, h2])
      | isFalse h2 => isFalse (by intro e; cases e; exact h2 rfl)
    else isFalse (by intro e; cases e; exact h rfl)
  | .var _, .int _ | .var _, .float _ | .var _, .str _ | .var _, .app _ _
  | .int _, .var _ | .int _, .float _ | .int _, .str _ | .int _, .app _ _
  | .float _, .var _ | .float _, .int _ | .float _, .str _ | .float _, .app _ _
  | .str _, .var _ | .str _, .int _ | .str _, .float _ | .str _, .app _ _
  | .app _ _, .var _ | .app _ _, .int _ | .app _ _, .float _ | .app _ _, .str _ => isFalse (by intro e; cases e)
def decEqList : (as bs : List Term) → Decidable (as = bs)
  | [], [] => isTrue rfl
  | [], _ :: _ => isFalse (by intro e; cases e)
  | _ :: _, [] => isFalse (by intro e; cases e)
  | a :: as, b :: bs =>
    match decEq a b with
    | isTrue h1 =>
      match decEqList as bs with
      | isTrue h2 => isTrue (by rw [h1, h2])
      | isFalse h2 => isFalse (by intro e; cases e; exact h2 rfl)
    | isFalse h1 => isFalse (by intro e; cases e; exact h1 rfl)
end

instance : DecidableEq Term := decEq

def atom (f : String) : Term := .app f []

/-- `logic.py: list2term` — Prolog list from a Lean list. -/
def ofList : List Term → Term
  | [] => .app "[]" []
  | x :: xs => .app "." [x, ofList xs]

/-- `term.arity` (0 for constants; only used on `app`). -/
def arity : Term → Nat
  | .app _ as => as.length
  | _ => 0

mutual
/-- Number of constructors (size bound used by generators and drivers). -/
def size : Term → Nat
  | .app _ as => 1 + sizeList as
  | _ => 1
def sizeList : List Term → Nat
  | [] => 0
  | a :: as => size a + sizeList as
end

mutual
/-- `term.is_ground()`. -/
def ground : Term → Bool
  | .var _ => false
  | .app _ as => groundList as
  | _ => true
def groundList : List Term → Bool
  | [] => true
  | a :: as => ground a && groundList as
end

mutual
/-- Apply `g` to every functor string of the term. -/
def mapFunctor (g : String → String) : Term → Term
  | .app f as => .app (g f) (mapFunctorList g as)
  | t => t
def mapFunctorList (g : String → String) : List Term → List Term
  | [] => []
  | a :: as => mapFunctor g a :: mapFunctorList g as
end

/-- Python `s.strip(c)`: remove all leading and trailing occurrences of the character `c`. -/
def stripChar (c : Char) (s : String) : String :=
  String.ofList ((s.toList.dropWhile (· == c)).reverse.dropWhile (· == c)).reverse

/-- `logic.py:1270 unquote(s) = s.strip("'")`: remove all leading and trailing single quotes. -/
def unquoteName (s : String) : String := stripChar '\'' s

/-- `str(constant).strip('"')` for a string constant whose text (between the double quotes) is `s`. -/
def stringText (s : String) : String := stripChar '"' ("\"" ++ s ++ "\"")

end Term
end ProbLogModel
