/-
Models of the three utility containers of problog/util.py (property C34).

* `OSet`  — `OrderedSet` (util.py:252-330): the doubly linked list + dict is modelled by the list it denotes
  (iteration order); the inherited `collections.abc.Set/MutableSet` mix-ins (`|`, `&`, `-`, `|=`, `&=`, `-=`)
  are modelled with the operand whose order survives made explicit.
* `UHeap` — util.py:449-587, array heap of (key,item) + index map item ↦ position, `_swim_up`, `_sink_down`,
  `_swap`, update in place.  Modelled concretely (array + association list).
* `BitVec5` — `BitVector` util.py:590-677: list of blocks of `binsize = 32` bits.
-/
namespace ProbLogModel.Containers

/-! ## OrderedSet -/

structure OSet where
  items : List Int
  deriving Repr, BEq, DecidableEq

namespace OSet
def empty : OSet := ⟨[]⟩
def contains (s : OSet) (k : Int) : Bool := s.items.contains k
def len (s : OSet) : Nat := s.items.length
/-- `add`: append at the end of the linked list iff the key is not in the map. -/
def add (s : OSet) (k : Int) : OSet := if s.items.contains k then s else ⟨s.items ++ [k]⟩
/-- `discard`: unlink the node iff the key is in the map. -/
def discard (s : OSet) (k : Int) : OSet := ⟨s.items.erase k⟩
/-- `pop(last)`: `none` models `KeyError("set is empty")`. -/
def pop (s : OSet) (last : Bool) : Option (Int × OSet) :=
  match s.items with
  | [] => none
  | x :: xs =>
    if last then
      let k := (x :: xs).getLast (by simp)
      some (k, s.discard k)
    else some (x, s.discard x)
/-- `OrderedSet(iterable)` / `self |= iterable`. -/
def addAll (s : OSet) (ks : List Int) : OSet := ks.foldl add s
def ofList (ks : List Int) : OSet := addAll empty ks
/-- `a | b` (Set.__or__): `_from_iterable(chain(a, b))`. -/
def union (a b : OSet) : OSet := addAll (ofList a.items) b.items
/-- `a & b` (Set.__and__): `_from_iterable(v for v in b if v in a)` — the order of the RIGHT operand. -/
def inter (a b : OSet) : OSet := ofList (b.items.filter a.contains)
/-- `a - b` (Set.__sub__): `_from_iterable(v for v in a if v not in b)`. -/
def sub (a b : OSet) : OSet := ofList (a.items.filter (fun v => !b.contains v))
/-- `a &= b` (MutableSet.__iand__): `for v in (a - b): a.discard(v)`. -/
def iand (a b : OSet) : OSet := (sub a b).items.foldl discard a
/-- `a -= b` (MutableSet.__isub__), `b` a different object. -/
def isub (a b : OSet) : OSet := b.items.foldl discard a
def iter (s : OSet) : List Int := s.items
def reversed (s : OSet) : List Int := s.items.reverse
/-- `__eq__` against another OrderedSet: same length and same order. -/
def eqv (a b : OSet) : Bool := a.items.length == b.items.length && a.items == b.items
end OSet

/-! ## UHeap -/

structure UHeap where
  heap : Array (Int × Int)          -- (key, item)
  index : List (Int × Nat)          -- item ↦ position (the dict `_index`)
  deriving Repr

namespace UHeap
def empty : UHeap := ⟨#[], []⟩
def len (h : UHeap) : Nat := h.heap.size
def lookup (idx : List (Int × Nat)) (item : Int) : Option Nat :=
  match idx with
  | [] => none
  | (i, p) :: r => if i == item then some p else lookup r item
def setIdx (idx : List (Int × Nat)) (item : Int) (p : Nat) : List (Int × Nat) :=
  match idx with
  | [] => [(item, p)]
  | (i, q) :: r => if i == item then (i, p) :: r else (i, q) :: setIdx r item p
def delIdx (idx : List (Int × Nat)) (item : Int) : List (Int × Nat) :=
  idx.filter (fun e => e.1 != item)

/-- `_swap`: updates both the array and the index. Out-of-range positions leave the heap unchanged
    (the Python would raise IndexError; never reached from the public operations). -/
def swap (h : UHeap) (i j : Nat) : UHeap :=
  if hi : i < h.heap.size then
    if hj : j < h.heap.size then
      let a := h.heap[i]
      let b := h.heap[j]
      -- self._index[item1] = index2 ; self._index[item2] = index1   (in this order)
      let idx := setIdx (setIdx h.index a.2 j) b.2 i
      ⟨(h.heap.set i b).set j a (by simp; exact hj), idx⟩
    else h
  else h

theorem swap_size (h : UHeap) (i j : Nat) : (h.swap i j).heap.size = h.heap.size := by
  unfold swap; split <;> try rfl
  split <;> simp

def keyAt (h : UHeap) (i : Nat) : Int := (h.heap.getD i (0, 0)).1

/-- `_swim_up`. Structural on the index (parent < index). -/
def swimUp (h : UHeap) (i : Nat) : UHeap :=
  if hz : i = 0 then h
  else
    let p := (i - 1) / 2
    if h.keyAt p > h.keyAt i then swimUp (h.swap p i) p else h
termination_by i
decreasing_by omega

/-- `_sink_down`, fuelled by the array size (each recursive call moves to a child index, and stops when
    the child index is out of range). -/
def sinkDownAux (fuel : Nat) (h : UHeap) (i : Nat) : UHeap :=
  match fuel with
  | 0 => h
  | fuel + 1 =>
    let c1 := 2 * i + 1
    let c2 := 2 * i + 2
    let n := h.heap.size
    let k1 : Option Int := if c1 < n then some (h.keyAt c1) else none
    let k2 : Option Int := if c1 < n && c2 < n then some (h.keyAt c2) else none
    let k := h.keyAt i
    match k1, k2 with
    | some a, some b =>
      if k > a then
        if a > b then sinkDownAux fuel (h.swap i c2) c2 else sinkDownAux fuel (h.swap i c1) c1
      else if k > b then sinkDownAux fuel (h.swap i c2) c2 else h
    | some a, none => if k > a then sinkDownAux fuel (h.swap i c1) c1 else h
    | none, some b => if k > b then sinkDownAux fuel (h.swap i c2) c2 else h
    | none, none => h

def sinkDown (h : UHeap) (i : Nat) : UHeap := sinkDownAux h.heap.size h i

/-- `push(item)` with the key computed by the caller's key function. Returns `is_new`. -/
def push (h : UHeap) (key item : Int) : UHeap × Bool :=
  match lookup h.index item with
  | none =>
    let heap := h.heap.push (key, item)
    let i := heap.size - 1
    (swimUp ⟨heap, setIdx h.index item i⟩ i, true)
  | some i =>
    let old := h.heap.getD i (0, 0)
    if old.1 == key then (h, false)
    else
      let h' : UHeap := ⟨h.heap.setIfInBounds i (key, old.2), h.index⟩
      if i ≠ 0 ∧ key < h'.keyAt ((i - 1) / 2) then (swimUp h' i, false) else (sinkDown h' i, false)

/-- `pop_with_key`; `none` models the failed `assert bool(self)`. -/
def popWithKey (h : UHeap) : Option ((Int × Int) × UHeap) :=
  if hs : 0 < h.heap.size then
    let top := h.heap[0]
    let h1 := h.swap 0 (h.heap.size - 1)
    let h2 : UHeap := ⟨h1.heap.pop, delIdx h1.index top.2⟩
    let h3 := if h2.heap.size > 0 then sinkDown h2 0 else h2
    some (top, h3)
  else none

def peek (h : UHeap) : Option Int := if hs : 0 < h.heap.size then some h.heap[0].2 else none
end UHeap

/-! ## BitVector (5-bit bins: blocks of 32 bits) -/

structure BitVec5 where
  blocks : List Nat
  deriving Repr, BEq, DecidableEq

namespace BitVec5
def binBits : Nat := 5
def binSize : Nat := 1 <<< binBits
def mask : Nat := (1 <<< binBits) - 1
def empty : BitVec5 := ⟨[]⟩

def setBlock : List Nat → Nat → Nat → List Nat
  | [], _, _ => []
  | x :: xs, 0, v => (x ||| v) :: xs
  | x :: xs, b + 1, v => x :: setBlock xs b v

def add (s : BitVec5) (index : Nat) : BitVec5 :=
  let b := index >>> binBits
  let i := index &&& mask
  let n := s.blocks.length
  let blocks := if n ≤ b then s.blocks ++ List.replicate (b - n + 1) 0 else s.blocks
  ⟨setBlock blocks b (1 <<< i)⟩

def contains (s : BitVec5) (index : Nat) : Bool :=
  let b := index >>> binBits
  let i := index &&& mask
  if s.blocks.length ≤ b then false else (s.blocks.getD b 0 &&& (1 <<< i)) != 0

def iterBlock (o : Nat) (block : Nat) : List Nat :=
  if block = 0 then [] else (List.range binSize).filterMap (fun i => if (1 <<< i) &&& block != 0 then some (o + i) else none)

def iterFrom : Nat → List Nat → List Nat
  | _, [] => []
  | o, b :: bs => iterBlock o b ++ iterFrom (o + binSize) bs

def iter (s : BitVec5) : List Nat := iterFrom 0 s.blocks

/-- `a & b`: zip. -/
def and (a b : BitVec5) : BitVec5 := ⟨List.zipWith (· &&& ·) a.blocks b.blocks⟩
/-- `a | b`: zip, then the tails. -/
def or (a b : BitVec5) : BitVec5 :=
  ⟨List.zipWith (· ||| ·) a.blocks b.blocks ++ a.blocks.drop b.blocks.length ++ b.blocks.drop a.blocks.length⟩
/-- `a |= b`. -/
def ior (a b : BitVec5) : BitVec5 := or a b
/-- `a &= b` after the fix (blocks of `a` beyond `len(b.blocks)` are dropped). -/
def iand (a b : BitVec5) : BitVec5 := and a b

def popcount (fuel n : Nat) : Nat :=
  match fuel with
  | 0 => 0
  | f + 1 => if n = 0 then 0 else n % 2 + popcount f (n / 2)

def len (s : BitVec5) : Nat := (s.blocks.map (fun b => popcount 64 b)).sum
def nonzero (s : BitVec5) : Bool := s.blocks.any (· != 0)
end BitVec5

end ProbLogModel.Containers
