/-
Evaluator for the strings built by `SemiringSymbolic` (problog/evaluator.py:296-340): what Python's `eval` computes on
them, for exactly the grammar the semiring can emit

    T ::= F | T "*" F | T " / " F                     (left associative, as in Python)
    F ::= numeral | "(" T ")" | "(" T " + " T ")" | "(" T "-" T ")"        ("(1-a)" is the `negate` form)
    numeral ::= digits | digits "." digits             (what `str(Constant(p))` prints for 1e-4 ≤ p < 1e16)

Hand-written (the Python side is the built-in `eval`), core Lean only.  Two stages, both by structural recursion
on the input so that the proofs (ProbLogProofs/Lemmas/SymbolicEval.lean) are plain inductions:
`lex` (characters → tokens) and a stack machine `run` over the tokens.  `eval s = none` means: not in the grammar,
or a division by zero (Python: SyntaxError / ZeroDivisionError).
-/
namespace ProbLogModel.SymbolicEval

inductive Tok where
  | lp | rp | plus | minus | star | slash
  | num (q : Rat)
  deriving DecidableEq, Repr, Inhabited

def isNumChar (c : Char) : Bool := c.isDigit || c == '.'

def digitsVal (cs : List Char) : Nat := cs.foldl (fun n c => 10 * n + (c.toNat - 48)) 0

/-- Value of `ddd` or `ddd.ddd` (characters are digits or '.'); anything else has no value. -/
def numVal (cs : List Char) : Option Rat :=
  let ip := cs.takeWhile (· != '.')
  match cs.dropWhile (· != '.') with
  | [] => if ip.isEmpty then none else some (digitsVal ip : Nat)
  | _ :: fp =>
    if ip.isEmpty || fp.isEmpty || fp.any (· == '.') then none
    else some ((digitsVal ip : Nat) + (digitsVal fp : Nat) / ((10 ^ fp.length : Nat) : Rat))

/-- Non-numeral characters of the grammar: the tokens they stand for (a blank stands for none). -/
def delim : Char → Option (List Tok)
  | '(' => some [.lp]
  | ')' => some [.rp]
  | '+' => some [.plus]
  | '-' => some [.minus]
  | '*' => some [.star]
  | '/' => some [.slash]
  | ' ' => some []
  | _ => none

/-- The numeral collected so far (reversed) becomes a token. -/
def flush (acc : List Char) : Option (List Tok) :=
  if acc.isEmpty then some [] else (numVal acc.reverse).map (fun q => [Tok.num q])

def lexAux : List Char → List Char → Option (List Tok)
  | acc, [] => flush acc
  | acc, c :: cs =>
    if isNumChar c then lexAux (c :: acc) cs
    else
      match delim c, flush acc, lexAux [] cs with
      | some d, some f, some r => some (f ++ d ++ r)
      | _, _, _ => none

def lexChars (cs : List Char) : Option (List Tok) := lexAux [] cs

/-- One parenthesis level of the machine. -/
structure Frame where
  /-- left operand of a pending `+` (`false`) or `-` (`true`) -/
  lhs : Option (Rat × Bool)
  /-- value of the product read so far -/
  prod : Option Rat
  /-- pending `*` (`false`) or `/` (`true`) waiting for its right operand -/
  pend : Option Bool
  deriving Repr

def Frame.empty : Frame := ⟨none, none, none⟩

structure St where
  cur : Frame
  stack : List Frame

/-- An operand arrives: it starts the product, or completes the pending `*` / `/`. -/
def feed (f : Frame) (v : Rat) : Option Frame :=
  match f.prod, f.pend with
  | none, none => some { f with prod := some v }
  | some p, some false => some { f with prod := some (p * v), pend := none }
  | some p, some true => if v == 0 then none else some { f with prod := some (p / v), pend := none }
  | _, _ => none

/-- Value of a closed frame: the product, combined with the pending left operand of `+`/`-`. -/
def Frame.close (f : Frame) : Option Rat :=
  match f.prod, f.pend, f.lhs with
  | some p, none, none => some p
  | some p, none, some (l, false) => some (l + p)
  | some p, none, some (l, true) => some (l - p)
  | _, _, _ => none

def step (s : St) : Tok → Option St
  | .num q => (feed s.cur q).map (fun f => { s with cur := f })
  | .star =>
    match s.cur.prod, s.cur.pend with
    | some _, none => some { s with cur := { s.cur with pend := some false } }
    | _, _ => none
  | .slash =>
    match s.cur.prod, s.cur.pend with
    | some _, none => some { s with cur := { s.cur with pend := some true } }
    | _, _ => none
  | .plus =>
    match s.stack, s.cur.lhs, s.cur.prod, s.cur.pend with
    | _ :: _, none, some p, none => some { s with cur := ⟨some (p, false), none, none⟩ }
    | _, _, _, _ => none
  | .minus =>
    match s.stack, s.cur.lhs, s.cur.prod, s.cur.pend with
    | _ :: _, none, some p, none => some { s with cur := ⟨some (p, true), none, none⟩ }
    | _, _, _, _ => none
  | .lp => some ⟨Frame.empty, s.cur :: s.stack⟩
  | .rp =>
    match s.stack, s.cur.close with
    | f :: st, some v => (feed f v).map (fun f' => ⟨f', st⟩)
    | _, _ => none

def run : St → List Tok → Option St
  | s, [] => some s
  | s, t :: ts => (step s t).bind (fun s' => run s' ts)

def finish (s : St) : Option Rat :=
  match s.stack, s.cur.lhs with
  | [], none => s.cur.close
  | _, _ => none

def evalToks (ts : List Tok) : Option Rat := (run ⟨Frame.empty, []⟩ ts).bind finish

def evalChars (cs : List Char) : Option Rat := (lexChars cs).bind evalToks

/-- What Python's `eval` returns on a string built by `SemiringSymbolic`. -/
def eval (s : String) : Option Rat := evalChars s.toList

end ProbLogModel.SymbolicEval
