/-
Model of `problog/cnf_formula.py` `clarks_completion` (lines 348-393), `CNF.add_clause/add_constraint`,
`ConstraintAD.as_clauses` (constraint.py), and the plain (unweighted, non-partial) `CNF._contents`/`to_dimacs`.
-/
import ProbLogModel.Formula
namespace ProbLogModel.Clark
open ProbLogModel.Formula

abbrev Clause := List Int

structure CNF where
  atomcount : Nat
  clauses : List Clause            -- node clauses then constraint clauses (head `False` dropped as `_contents` does)
  weights : List (Nat × Weight)
  names : List (Label × Name × Key)
  ads : List ADC
  deriving Repr, Inhabited

inductive CErr where
  | noneChild (i : Nat)      -- a `None` child: `-x` raises TypeError in Python
  | noExtra (g : Nat)        -- non-trivial AD constraint without extra node: clause would contain None
  deriving Repr

def childLits (i : Nat) (cs : List Key) : Except CErr (List Int) :=
  cs.mapM (fun c => match c with
    | some k => .ok k
    | none => .error (.noneChild i))

/-- The clauses `clarks_completion` emits for node `index` (1-based). -/
def nodeClauses (index : Nat) : Node → Except CErr (List Clause)
  | .atom .. => .ok []
  | .conj cs _ => do
    let ls ← childLits index cs
    .ok (((index : Int) :: ls.map (fun x => -x)) :: ls.map (fun c => [-(index : Int), c]))
  | .disj cs _ => do
    let ls ← childLits index cs
    .ok ((-(index : Int) :: ls) :: ls.map (fun c => [(index : Int), -c]))

/-- all unordered pairs (i < j) of a list, as `(-n, -m)` clauses -/
def exclusive : List Int → List Clause
  | [] => []
  | n :: rest => rest.map (fun m => [-n, -m]) ++ exclusive rest

/-- `ConstraintAD.as_clauses`. -/
def adClauses (c : ADC) : Except CErr (List Clause) :=
  if c.nodes.length ≤ 1 then .ok []          -- is_true(): trivially satisfied
  else match c.extra with
    | none => .error (.noExtra c.group)
    | some e =>
      let nodes : List Int := c.nodes.map (fun n => Int.ofNat n) ++ [Int.ofNat e]
      .ok (exclusive nodes ++ [nodes])

def enumFrom {α} : Nat → List α → List (Nat × α)
  | _, [] => []
  | n, x :: xs => (n, x) :: enumFrom (n + 1) xs

def clark (S : Store) : Except CErr CNF := do
  let nc ← (enumFrom 1 S.nodes).mapM (fun (i, nd) => nodeClauses i nd)
  let ac ← S.ads.mapM adClauses
  .ok { atomcount := S.nodes.length, clauses := nc.flatten ++ ac.flatten, weights := S.weights,
        names := S.names, ads := S.ads }

/-! ### semantics -/

def litVal (v : Nat → Bool) (k : Int) : Bool := if k < 0 then !(v k.natAbs) else v k.natAbs
def satClause (v : Nat → Bool) (c : Clause) : Bool := c.any (litVal v)
def satCNF (v : Nat → Bool) (cs : List Clause) : Bool := cs.all (satClause v)

/-- Bottom-up evaluation of an acyclic store: value of each node in array order, children looked up among the
    values already computed (children of node i refer to nodes < i). `α` gives the atoms' values by node id. -/
def childVal (acc : List Bool) : Key → Bool
  | none => false
  | some k => if k = 0 then true else
      let b := acc.getD (k.natAbs - 1) false
      if k < 0 then !b else b

def nodeVal (α : Nat → Bool) (acc : List Bool) : Node → Bool
  | .atom .. => α (acc.length + 1)
  | .conj cs _ => cs.all (childVal acc)
  | .disj cs _ => cs.any (childVal acc)

def dagVals (α : Nat → Bool) (nodes : List Node) : List Bool :=
  nodes.foldl (fun acc nd => acc ++ [nodeVal α acc nd]) []

def dagEval (S : Store) (α : Nat → Bool) (k : Key) : Bool := childVal (dagVals α S.nodes) k

/-- Children refer to strictly smaller, existing, non-zero node ids (what `LogicDAG` guarantees). -/
def acyclicNode (i : Nat) : Node → Bool
  | .atom .. => true
  | .conj cs _ => cs.all (fun c => match c with | some k => k != 0 && k.natAbs < i | none => false)
  | .disj cs _ => cs.all (fun c => match c with | some k => k != 0 && k.natAbs < i | none => false)

def acyclic (S : Store) : Bool := (enumFrom 1 S.nodes).all (fun (i, nd) => acyclicNode i nd)

/-- plain DIMACS text of `to_dimacs()` (no weights, no names). -/
def toDimacs (c : CNF) : String :=
  "p cnf " ++ toString c.atomcount ++ " " ++ toString c.clauses.length ++ "\n" ++
  "\n".intercalate (c.clauses.map (fun cl => " ".intercalate (cl.map toString) ++ " 0"))

end ProbLogModel.Clark
