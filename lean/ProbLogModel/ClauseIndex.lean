import ProbLogModel.Containers
/-
Model of `ClauseIndex` (problog/clausedb.py:1007-1080, the per-argument index of the clauses of one predicate)
with `find` as in the proposed fix repo_patches/C13_clause_index.diff (merge in clause order, the index is not
modified by `find`).

* the list itself (`list.__init__`)            ↦ `items`   (clause node ids in append order)
* `self.__index[i]` (defaultdict(OrderedSet))  ↦ `index[i]` (association list key ↦ OSet; key `none` = Python `None`,
                                                   the entry of clauses whose i-th head argument is not ground)
* `self.__position` (item ↦ position)          ↦ `position`
* `self.__erased`                              ↦ `erased`
-/
namespace ProbLogModel.ClauseIndex
open ProbLogModel.Containers

/-- An index key: `some text` for a ground argument (its canonical text), `none` for Python's `None`. -/
abbrev Key := Option String
abbrev Dict := List (Key × OSet)

def dget : Dict → Key → Option OSet
  | [], _ => none
  | (k', s) :: r, k => if k' = k then some s else dget r k

/-- `d[k].add(item)` on a `defaultdict(OrderedSet)`. -/
def dadd : Dict → Key → Int → Dict
  | [], k, item => [(k, OSet.empty.add item)]
  | (k', s) :: r, k, item => if k' = k then (k', s.add item) :: r else (k', s) :: dadd r k item

structure CIndex where
  items : List Int
  index : List Dict
  erased : List Int
  position : List (Int × Nat)
  deriving Repr

def empty (arity : Nat) : CIndex := ⟨[], List.replicate arity [], [], []⟩

/-- `_add` (clausedb.py:1046): `for i, k in enumerate(key): self.__index[i][k].add(item)`;
    `none` models the `IndexError` for a key longer than the arity. -/
def addKeys : List Dict → List Key → Int → Option (List Dict)
  | ds, [], _ => some ds
  | [], _ :: _, _ => none
  | d :: ds, k :: ks, item => (addKeys ds ks item).map (fun r => dadd d k item :: r)

def setPos : List (Int × Nat) → Int → Nat → List (Int × Nat)
  | [], item, p => [(item, p)]
  | (i, q) :: r, item, p => if i = item then (i, p) :: r else (i, q) :: setPos r item p

/-- `append(item)` with the key computed from the clause head (`None` for a non-ground argument). -/
def append (ci : CIndex) (item : Int) (key : List Key) : Option CIndex :=
  (addKeys ci.index key item).map (fun idx =>
    { ci with items := ci.items ++ [item], index := idx, position := setPos ci.position item ci.items.length })

def erase (ci : CIndex) (its : List Int) : CIndex := { ci with erased := ci.erased ++ its }

/-- `self.__position.__getitem__`; `none` = KeyError. -/
def posOf : List (Int × Nat) → Int → Option Nat
  | [], _ => none
  | (i, p) :: r, item => if i = item then some p else posOf r item

/-- `heapq.merge(a, b, key=pos)` for two iterables: smallest key first, ties to the first iterable. -/
def merge (pos : Int → Nat) : List Int → List Int → List Int
  | [], b => b
  | x :: a, [] => x :: a
  | x :: a, y :: b => if pos x ≤ pos y then x :: merge pos a (y :: b) else y :: merge pos (x :: a) b
termination_by a b => a.length + b.length

/-- Python truthiness of `curr` / `none`: `None` and the empty OrderedSet are both false. -/
def truthy : Option OSet → Bool
  | none => false
  | some s => !s.items.isEmpty

def inOpt (o : Option OSet) (x : Int) : Bool :=
  match o with
  | none => false
  | some s => s.contains x

inductive LoopRes where
  | earlyEmpty                       -- `return []` inside the loop
  | done (results : Option OSet)     -- loop finished; `none` = no restricting argument
  | indexError                       -- more call arguments than index columns
  | keyError                         -- an indexed item without position (never happens for a well-formed index)
  deriving Repr

/-- The items of an optional index entry (`None` ↦ nothing). -/
def optItems (o : Option OSet) : List Int :=
  match o with
  | some s => s.items
  | none => []

def optSet (o : Option OSet) : OSet :=
  match o with
  | some s => s
  | none => OSet.empty

/-- The `for i, arg in enumerate(arguments)` loop of `find`; a call argument is `some text` if ground, else `none`. -/
def findLoop (pos : List (Int × Nat)) : List Dict → List Key → Option OSet → LoopRes
  | _, [], results => .done results
  | [], _ :: _, _ => .indexError
  | d :: ds, arg :: args, results =>
    match arg with
    | none =>
      -- not ground: no restriction; then `if results is not None and not results: return []`
      (match results with
       | some r => if r.items.isEmpty then .earlyEmpty else findLoop pos ds args results
       | none => findLoop pos ds args results)
    | some k =>
      let curr := dget d (some k)   -- clauses with this ground argument
      let non := dget d none        -- clauses with a non-ground argument
      -- `merge(curr, none, key=self.__position.__getitem__)` raises KeyError for an item without position
      if results.isNone && truthy curr && truthy non &&
          !((optItems curr ++ optItems non).all (fun x => (posOf pos x).isSome)) then .keyError
      else
        let r : OSet := match results with
          | none =>
            if !truthy curr then optSet non          -- `none if none is not None else OrderedSet()`
            else if !truthy non then optSet curr
            else OSet.ofList (merge (fun x => (posOf pos x).getD 0) (optItems curr) (optItems non))
          | some res => OSet.ofList (res.items.filter (fun x => inOpt curr x || inOpt non x))
        if r.items.isEmpty then .earlyEmpty else findLoop pos ds args (some r)

inductive FindRes where
  | ok (l : List Int)
  | indexError
  | keyError
  deriving Repr, BEq, DecidableEq

/-- `find(arguments)`: the candidate clauses in iteration order. -/
def find (ci : CIndex) (args : List Key) : FindRes :=
  match findLoop ci.position ci.index args none with
  | .earlyEmpty => .ok []
  | .indexError => .indexError
  | .keyError => .keyError
  | .done none =>
    -- `OrderedSet(self) - self.__erased` / `self`
    if ci.erased.isEmpty then .ok ci.items
    else .ok ((OSet.ofList ((OSet.ofList ci.items).items.filter (fun v => !ci.erased.contains v))).items)
  | .done (some r) =>
    if ci.erased.isEmpty then .ok r.items
    else .ok ((OSet.ofList (r.items.filter (fun v => !ci.erased.contains v))).items)

/-- Build the index of a predicate from its clauses `(id, key)` in program order. -/
def build (arity : Nat) (cls : List (Int × List Key)) : Option CIndex :=
  cls.foldl (fun o c => o.bind (fun ci => append ci c.1 c.2)) (some (empty arity))

/-! ### The code before the fix (clausedb.py:1016-1044 at the verified commit), for the refutation theorem:
`curr |= none` mutates the index entry and puts the non-ground clauses last; `results & curr` keeps the order of
the right operand. -/

def dset : Dict → Key → OSet → Dict
  | [], k, s => [(k, s)]
  | (k', s') :: r, k, s => if k' = k then (k', s) :: r else (k', s') :: dset r k s

/-- One call of the unfixed `find` on a one-restricting-argument-at-a-time basis; returns the result and the
    (mutated) index. -/
def findLoopOld : List Dict → List Key → Option OSet → Option (Option OSet) × List Dict
  | ds, [], results => (some results, ds)
  | [], _ :: _, results => (some results, [])
  | d :: ds, arg :: args, results =>
    match arg with
    | none =>
      (match results with
       | some r => if r.items.isEmpty then (none, d :: ds) else
           let (o, ds') := findLoopOld ds args results; (o, d :: ds')
       | none => let (o, ds') := findLoopOld ds args results; (o, d :: ds'))
    | some k =>
      let non := (dget d none).getD OSet.empty
      let (curr, d') := match dget d (some k) with
        | none => (non, d)
        | some c => let c' := c.addAll non.items; (c', dset d (some k) c')   -- `curr |= none` in place
      let r := match results with
        | none => curr
        | some res => OSet.inter res curr
      if r.items.isEmpty then (none, d' :: ds) else
        let (o, ds') := findLoopOld ds args (some r); (o, d' :: ds')

def findOld (ci : CIndex) (args : List Key) : List Int × CIndex :=
  match findLoopOld ci.index args none with
  | (none, idx) => ([], { ci with index := idx })
  | (some none, idx) => (ci.items, { ci with index := idx })
  | (some (some r), idx) => (r.items, { ci with index := idx })

end ProbLogModel.ClauseIndex
