import ProbLogModel.Term
/-!
Standard order of terms (property C15): model of problog/engine_builtin.py

* `structCmp`      — `struct_cmp` (engine_builtin.py:985-1056) **with the proposed fixes applied**
                     (repo_patches/C15_number_order.diff: the number/number branch returns its result and compares
                     exact values; repo_patches/C15_atom_quotes.diff: functors are compared without their quotes).
* `structCmpOrig`  — `struct_cmp` as it was before those patches (kept for the refutation theorem only).
* `sortModel`      — `_builtin_sort` (:1204-1215): `sorted(set(elements), key=StructSort)`.
* `builtinCompare` — `_builtin_compare` (:1079-1089); `structLt/Le/Gt/Ge` (:1060-1076); `same/notSame` (:790-798).
* `stdCompare`     — the specification: standard order of terms.

Results are `Ordering`: `.lt` ≙ Python `-1`, `.eq` ≙ `0`, `.gt` ≙ `1`.
-/
namespace ProbLogModel.Order
open ProbLogModel Term

/-! ## Helpers -/

/-- `compare(a, b)` (engine_builtin.py:976-982) on exact numeric values. -/
def cmpRat (a b : Rat) : Ordering := if a < b then .lt else if b < a then .gt else .eq

/-- `_is_number` (:474-513) together with the value (`term.value`) and the kind: `0` float, `1` integer.
    Besides constants the code accepts the legacy form `'-'(N)` with `N` a numeric constant
    (`_is_integer_neg`, `_is_float_neg`: functor `"'-'"`, arity 1); its value is `-N` (`compute_function`). -/
def numKey : Term → Option (Rat × Nat)
  | .int i => some ((i : Rat), 1)
  | .float q => some (q, 0)
  | .app f [.int i] => if f = "'-'" then some (-(i : Rat), 1) else none
  | .app f [.float q] => if f = "'-'" then some (-q, 0) else none
  | _ => none

/-- Number/number branch (:1012-1022 with C15_number_order applied):
    `res = compare(a.value, b.value); if res == 0: float is smaller …; return res`. -/
def cmpNum (ka kb : Rat × Nat) : Ordering :=
  let res := cmpRat ka.1 kb.1
  if res = .eq then
    if ka.2 = 0 ∧ kb.2 = 1 then .lt          -- _is_float(a) and _is_integer(b)
    else if kb.2 = 0 ∧ ka.2 = 1 then .gt     -- _is_float(b) and _is_integer(a)
    else .eq
  else res                                    -- the fix: `return res`

/-- Steps 1–3 of `struct_cmp` (variables, numbers, strings). `none` = control reaches step 4 ("atoms / terms"). -/
def cmpHead (a b : Term) : Option Ordering :=
  match a, b with
  | .var m, .var n => some (compare m n)      -- :996-1003 variables by identity
  | .var _, _ => some .lt                     -- :1005
  | _, .var _ => some .gt                     -- :1007
  | a, b =>
    match numKey a, numKey b with
    | some ka, some kb => some (cmpNum ka kb) -- :1011-1022
    | some _, none => some .lt                -- :1024
    | none, some _ => some .gt                -- :1026
    | none, none =>
      match a, b with
      | .str s, .str t => some (compare (stringText s) (stringText t))  -- :1031 (C15_atom_quotes: without the quotes)
      | .str _, _ => some .lt                 -- :1033
      | _, .str _ => some .gt                 -- :1035
      | _, _ => none

mutual
/-- `struct_cmp(a, b)` with the proposed fixes. -/
def structCmp : Term → Term → Ordering
  | .app f as, .app g bs =>
    match cmpHead (.app f as) (.app g bs) with
    | some r => r
    | none =>
      -- 4.1 arity (:1039), 4.2 functor (:1044-1048; C15_atom_quotes: without quotes), 4.3 arguments (:1051-1054)
      (compare as.length bs.length).then
        ((compare (unquoteName f) (unquoteName g)).then (structCmpArgs as bs))
  | a, b =>
    match cmpHead a b with
    | some r => r
    | none => .eq   -- unreachable: a term that is not `app` is a variable, a number or a string (`cmpHead_isSome`)
/-- `for a1, b1 in zip(a.args, b.args)`: first non-zero result, `0` when the shorter list is exhausted. -/
def structCmpArgs : List Term → List Term → Ordering
  | a :: as, b :: bs => (structCmp a b).then (structCmpArgs as bs)
  | _, _ => .eq
end

/-! ## The code before the patches (for the refutation only)

`fl` renders a float as Python's `str(float)` (not modelled; the refutation holds for every rendering). -/

/-- `str(a.functor)` of a term that reached step 4. -/
def functorText (fl : Rat → String) : Term → String
  | .int i => toString i
  | .float q => fl q
  | .str s => "\"" ++ s ++ "\""
  | .app f _ => f
  | .var n => toString n

/-- Number/number branch as written before the patch: a result is returned only when `res == 0`. -/
def cmpNumOrig (ka kb : Rat × Nat) : Option Ordering :=
  let res := cmpRat ka.1 kb.1
  if res = .eq then
    if ka.2 = 0 ∧ kb.2 = 1 then some .lt
    else if kb.2 = 0 ∧ ka.2 = 1 then some .gt
    else some .eq
  else none                                   -- falls through to steps 3 and 4

def cmpHeadOrig (a b : Term) : Option Ordering :=
  match a, b with
  | .var m, .var n => some (compare m n)
  | .var _, _ => some .lt
  | _, .var _ => some .gt
  | a, b =>
    match numKey a, numKey b with
    | some ka, some kb => cmpNumOrig ka kb
    | some _, none => some .lt
    | none, some _ => some .gt
    | none, none =>
      match a, b with
      | .str s, .str t => some (compare ("\"" ++ s ++ "\"") ("\"" ++ t ++ "\""))   -- `compare(str(a), str(b))`
      | .str _, _ => some .lt
      | _, .str _ => some .gt
      | _, _ => none

mutual
def structCmpOrig (fl : Rat → String) : Term → Term → Ordering
  | .app f as, .app g bs =>
    match cmpHeadOrig (.app f as) (.app g bs) with
    | some r => r
    | none => (compare as.length bs.length).then ((compare f g).then (structCmpOrigArgs fl as bs))
  | a, b =>
    match cmpHeadOrig a b with
    | some r => r
    | none =>
      -- fall-through of two unequal numbers: arity, then the functors *as strings*, then the (zipped) arguments
      (compare a.arity b.arity).then (compare (functorText fl a) (functorText fl b))
def structCmpOrigArgs (fl : Rat → String) : List Term → List Term → Ordering
  | a :: as, b :: bs => (structCmpOrig fl a b).then (structCmpOrigArgs fl as bs)
  | _, _ => .eq
end

/-! ## The comparison builtins -/

def structLt (a b : Term) : Bool := structCmp a b == .lt                       -- `@<`  :1060
def structLe (a b : Term) : Bool := structCmp a b != .gt                       -- `@=<` :1065
def structGt (a b : Term) : Bool := structCmp a b == .gt                       -- `@>`  :1070
def structGe (a b : Term) : Bool := structCmp a b != .lt                       -- `@>=` :1075
def same (a b : Term) : Bool := decide (a = b)                                 -- `==`  :796
def notSame (a b : Term) : Bool := !decide (a = b)                             -- `\==` :790

/-- `compares[1 - cp]` with `compares = "'>'", "'='", "'<'"` (:1081-1083). -/
def cmpToken : Ordering → String
  | .lt => "'<'"
  | .eq => "'='"
  | .gt => "'>'"

inductive CompareRes where
  | callModeError                 -- first argument neither a variable nor one of `< = >`
  | fail
  | succeed (c : Term)            -- the (possibly bound) first argument
  deriving Repr, DecidableEq

/-- `_is_compare` (:577) with C15_atom_quotes: the atoms `<`, `=`, `>` quoted or not. -/
def isCompareAtom : Term → Bool
  | .app f [] => unquoteName f == "<" || unquoteName f == "=" || unquoteName f == ">"
  | _ => false

/-- `_builtin_compare(c, a, b)` (:1079-1089). -/
def builtinCompare (c a b : Term) : CompareRes :=
  match c with
  | .var _ => .succeed (.app (cmpToken (structCmp a b)) [])          -- mode "v**"
  | .app f [] =>
    if isCompareAtom c then                                           -- mode "<**"
      if unquoteName (cmpToken (structCmp a b)) = unquoteName f then .succeed c else .fail
    else .callModeError
  | _ => .callModeError

/-! ## sort/2 -/

/-- `set(elements)`: duplicates (under `Term.__eq__`) removed.  Python iterates the set in hash order; the model
    keeps first occurrences in list order — the difference is only visible when `struct_cmp` returns 0 for two
    terms that are not `==`. -/
def dedup : List Term → List Term
  | [] => []
  | x :: xs => x :: (dedup xs).filter (fun y => !decide (y = x))

/-- Stable insertion: after every element that is not greater (`sorted` uses only `StructSort.__lt__`, :443). -/
def insertSorted (x : Term) : List Term → List Term
  | [] => [x]
  | y :: ys => if structCmp x y = .lt then x :: y :: ys else y :: insertSorted x ys

def sortList (l : List Term) : List Term := l.foldl (fun acc x => insertSorted x acc) []

/-- `sorted(set(elements), key=StructSort)` (:1211). -/
def sortModel (l : List Term) : List Term := sortList (dedup l)

/-! ## Specification: the standard order of terms

`Var < Number < String < Atom < Compound` (the property does not place strings; this is the code's placement);
variables by identity; numbers by value, a float before an integer of equal value; strings and atoms alphabetically
(by character code) by their text; compound terms by arity, then name, then arguments from left to right.
Atoms are the terms of arity 0, so "by arity first" also puts atoms before compound terms.
The text of an atom is its functor without the quotes: the order is defined on `unq t`. -/

def stdNumKey : Term → Option (Rat × Nat)
  | .int i => some ((i : Rat), 1)
  | .float q => some (q, 0)
  | _ => none

def rank : Term → Nat
  | .var _ => 0
  | .int _ => 1
  | .float _ => 1
  | .str _ => 2
  | .app _ _ => 3

/-- Numbers: by value, then float (kind 0) before integer (kind 1). -/
def stdNum (ka kb : Rat × Nat) : Ordering := (cmpRat ka.1 kb.1).then (compare ka.2 kb.2)

def stdFlat (a b : Term) : Ordering :=
  match a, b with
  | .var m, .var n => compare m n
  | .str s, .str t => compare s t
  | a, b =>
    match stdNumKey a, stdNumKey b with
    | some ka, some kb => stdNum ka kb
    | _, _ => compare (rank a) (rank b)

mutual
/-- The order on terms whose functors carry no quotes. -/
def stdCore : Term → Term → Ordering
  | .app f as, .app g bs => (compare as.length bs.length).then ((compare f g).then (stdCoreArgs as bs))
  | a, b => stdFlat a b
/-- Lexicographic, left to right (a proper prefix first; only used on lists of equal length). -/
def stdCoreArgs : List Term → List Term → Ordering
  | [], [] => .eq
  | [], _ :: _ => .lt
  | _ :: _, [] => .gt
  | a :: as, b :: bs => (stdCore a b).then (stdCoreArgs as bs)
end

/-- The term with every functor replaced by its text (quotes removed). -/
def unq (t : Term) : Term := t.mapFunctor unquoteName

/-- **The specification.** -/
def stdCompare (a b : Term) : Ordering := stdCore (unq a) (unq b)

mutual
/-- Terms on which the code's tests agree with the standard's: no sub-term of the legacy shape `'-'(Number)`, and no
    string whose text begins or ends with a double quote (`strip('"')` would eat it). -/
def plain : Term → Bool
  | .app f as => (numKey (.app f as)).isNone && plainList as
  | .str s => decide (stringText s = s)
  | _ => true
def plainList : List Term → Bool
  | [] => true
  | a :: as => plain a && plainList as
end

end ProbLogModel.Order
