/-!
# Model of `problog/clausedb.py` — the node table of `ClauseDB` and its extension mechanism (property C29)

A database is a chain of *layers* (`DB.root l` / `DB.ext l offset parent`): the Python object's private fields
`__nodes`, `__heads`, `__node_redirect`, `__builtins` are the layer, `__parent`/`__offset` the `ext` constructor
(clausedb.py:76-104; a root has `__offset = 0`). In this purely functional model the parent is a *field* of the
child, so "the parent is not modified" is the statement that no operation changes that field (see C29 proofs).

Abstractions (kept out of the model on purpose):
* node payloads (arguments, probabilities, locations, variable counts) — a node keeps its kind, its predicate
  signature, the node indices it refers to and, for a choice node, the group id of its annotated disjunction;
* `ClauseIndex` (argument indexing of a define node's children, clausedb.py:1009) is a plain list (C13 models it);
* `is_reserved_name` (clausedb.py:146) compares a string with a fresh set by identity and is therefore always
  `False`: the AccessError of clausedb.py:277 cannot be raised and is not modelled;
* scoping (`_scope_term`) is the identity for the unscoped statements this model is used for.

`getNode`/`resolve` and `adGroup` mirror the code *with* repo_patches/C29_grandchild_redirect.diff and
C29_ad_group_id.diff; `getNodeV0`, `defsV0`, `adGroupV0` mirror the code as written before (commit 9130489), for which
the C29 properties are refuted (Properties/C29.lean). Every other definition is the same for both.

Python exceptions are explicit `Err` results. Core Lean only (no Mathlib) so the driver links.
-/
namespace ProbLogModel.ClauseDB

/-- Predicate signatures `functor/arity`. `body n` is the auxiliary predicate `body_<n>` that `_compile` creates for an
    annotated disjunction (clausedb.py:447, `n = len(self)` at that moment). -/
inductive Sig where
  | user (id : Nat)
  | body (n : Nat)
  deriving DecidableEq, Repr, Inhabited

/-- What `_add_head` returns: a node index, or the (negative) identifier of a builtin. -/
inductive Ref where
  | node (i : Nat)
  | builtin (k : Nat)
  deriving DecidableEq, Repr, Inhabited

/-- Instruction nodes (clausedb.py:45-71). `other` = conj / disj / neg / choice / the raw call to a choice node:
    kinds the extension mechanism never looks into (tag + the node indices they refer to). `empty` is the `()`
    placeholder appended by `_append_node()` for a head that is called before it is defined. -/
inductive Node where
  | define (sig : Sig) (children : List Nat)
  | fact (sig : Sig)
  | clause (sig : Sig) (body : Nat)
  | call (sig : Sig) (defnode : Ref)
  | other (tag : Nat) (refs : List Nat)
  | empty
  deriving DecidableEq, Repr, Inhabited

inductive Err where
  | indexErrorParent   -- IndexError("Can't update node in parent.")  clausedb.py:261
  | indexError         -- list index out of range
  | accessError        -- AccessError("Can not overwrite built-in ...") clausedb.py:281
  | attributeError     -- `.children` / `.append` on a node that has none
  | parentWrite        -- NOT an exception: Python would silently mutate a list object owned by the parent
  deriving DecidableEq, Repr, Inhabited

structure Layer where
  nodes : List Node := []
  heads : List (Sig × Nat) := []
  redirect : List (Nat × Nat) := []
  builtins : List (Sig × Nat) := []
  deriving Repr, Inhabited

inductive DB where
  | root (l : Layer)
  | ext (l : Layer) (offset : Nat) (parent : DB)
  deriving Repr, Inhabited

namespace DB

def layer : DB → Layer
  | root l => l
  | ext l _ _ => l

def parent? : DB → Option DB
  | root _ => none
  | ext _ _ p => some p

/-- `__offset` (clausedb.py:91-97). -/
def offset : DB → Nat
  | root _ => 0
  | ext _ off _ => off

def setLayer : DB → Layer → DB
  | root _, l => root l
  | ext _ off p, l => ext l off p

/-- `__len__` (clausedb.py:106). -/
def len (db : DB) : Nat := db.layer.nodes.length + db.offset

end DB

/-- `ClauseDB.extend` (clausedb.py:109) + the parent branch of `__init__` (clausedb.py:93-97).
    (The real constructor then calls `_load_builtin_module`, which may add the clause of `builtin.pl` to the new
    database; the harness replays that as an ordinary `clause` + `alias` operation.) -/
def extend (db : DB) : DB :=
  .ext { builtins := db.layer.builtins } db.len db

/-- `self.__node_redirect.get(index, index)`. -/
def redirectGet (l : Layer) (i : Nat) : Nat := (l.redirect.lookup i).getD i

/-- `_get_head` (clausedb.py:266): own heads first, then the parent's — `if node is None and self.__parent`
    tests the parent's *truth value*, i.e. `len(parent) != 0`. -/
def getHead : DB → Sig → Option Nat
  | .root l, s => l.heads.lookup s
  | .ext l _ p, s =>
    match l.heads.lookup s with
    | some n => some n
    | none => if p.len = 0 then none else getHead p s

/-- `find` (clausedb.py:318). -/
def find (db : DB) (s : Sig) : Option Nat := getHead db s

/-- `_resolve_index` of the repaired `get_node` (repo_patches/C29_grandchild_redirect.diff): own redirect; if the
    result lives in an ancestor, the ancestor's resolution and the own redirect once more. -/
def resolve : DB → Nat → Nat
  | .root l, i => redirectGet l i
  | .ext l off p, i =>
    let i1 := redirectGet l i
    if i1 < off then redirectGet l (resolve p i1) else i1

/-- `_get_raw_node`: the node stored at an index, without redirects. -/
def rawNode : DB → Nat → Except Err Node
  | .root l, i => match l.nodes[i]? with
    | some n => .ok n
    | none => .error .indexError
  | .ext l off p, i =>
    if i < off then rawNode p i
    else match l.nodes[i - off]? with
      | some n => .ok n
      | none => .error .indexError

/-- `get_node` (clausedb.py:237) with the repair. -/
def getNode (db : DB) (i : Nat) : Except Err Node := rawNode db (resolve db i)

/-- `get_node` exactly as written before the repair (clausedb.py:248-253 at 9130489): own redirect, then the parent's
    `get_node` — the parent's redirect result is never looked up in the own map again. -/
def getNodeV0 : DB → Nat → Except Err Node
  | .root l, i => match l.nodes[redirectGet l i]? with
    | some n => .ok n
    | none => .error .indexError
  | .ext l off p, i =>
    let i1 := redirectGet l i
    if i1 < off then getNodeV0 p i1
    else match l.nodes[i1 - off]? with
      | some n => .ok n
      | none => .error .indexError

/-- `_set_node` (clausedb.py:259). -/
def setNode (db : DB) (i : Nat) (n : Node) : Except Err DB :=
  if i < db.offset then .error .indexErrorParent
  else if i - db.offset < db.layer.nodes.length then
    .ok (db.setLayer { db.layer with nodes := db.layer.nodes.set (i - db.offset) n })
  else .error .indexError

/-- `_append_node` (clausedb.py:265). -/
def appendNode (db : DB) (n : Node) : DB × Nat :=
  (db.setLayer { db.layer with nodes := db.layer.nodes ++ [n] }, db.len)

/-- `_set_head` (clausedb.py:272). -/
def setHead (db : DB) (s : Sig) (i : Nat) : DB :=
  db.setLayer { db.layer with heads := (s, i) :: db.layer.heads }

/-- `self.__node_redirect[old] = new`. -/
def addRedirect (db : DB) (old new : Nat) : DB :=
  db.setLayer { db.layer with redirect := (old, new) :: db.layer.redirect }

/-- Python truth value of a node: only the `()` placeholder is falsy. -/
def Node.truthy : Node → Bool
  | .empty => false
  | _ => true

/-- `_add_head` (clausedb.py:275-316). -/
def addHead (db : DB) (s : Sig) (create : Bool) : Except Err (DB × Ref) :=
  match db.layer.builtins.lookup s with                                    -- :278 get_builtin
  | some b => if create then .error .accessError else .ok (db, .builtin b)
  | none =>
    match getHead db s with                                                -- :286
    | none =>                                                              -- :287-299
      let (db1, idx) := appendNode db (if create then .define s [] else .empty)
      .ok (setHead db1 s idx, .node idx)
    | some node =>
      if create && decide (node < db.offset) then                          -- :300 node exists in parent
        match getNode db node with                                         -- :301
        | .error e => .error e
        | .ok existing =>
          let copied : Except Err (List Nat) :=                            -- :304-306
            match existing with
            | .empty => .ok []
            | .define _ ch => .ok ch
            | .other _ refs => .ok refs                                    -- conj/disj have `.children` too
            | _ => .error .attributeError
          match copied with
          | .error e => .error e
          | .ok clauses =>
            let (db1, idx) := appendNode db (.define s clauses)            -- :308
            .ok (setHead (addRedirect db1 node idx) s idx, .node idx)      -- :311-312
      else .ok (db, .node node)                                            -- :314

/-- `clauses.append(childnode)` on the list object held by the define node that `get_node(index)` returned:
    the write lands at the *resolved* index. A resolved index below the offset would be a silent mutation of the
    parent's object (`parentWrite`). -/
def appendChild (db : DB) (index : Nat) (child : Nat) : Except Err DB :=
  let r := resolve db index
  match rawNode db r with
  | .error e => .error e
  | .ok (.define s ch) =>
    if r < db.offset then .error .parentWrite
    else setNode db r (.define s (ch ++ [child]))
  | .ok _ => .error .attributeError

/-- `_add_define_node` (clausedb.py:176-188). -/
def addDefineNode (db : DB) (s : Sig) (child : Nat) : Except Err DB :=
  match addHead db s true with
  | .error e => .error e
  | .ok (_, .builtin _) => .error .accessError                            -- unreachable (create=True raises)
  | .ok (db1, .node idx) =>
    match getNode db1 idx with
    | .error e => .error e
    | .ok node =>
      if node.truthy then appendChild db1 idx child                         -- :186-187
      else setNode db1 idx (.define s [child])                              -- :180-184, then :187

/-- `_add_clause_node` (clausedb.py:206). Returns the database and the id of the clause node. -/
def addClauseNode (db : DB) (s : Sig) (body : Nat) : Except Err (DB × Nat) :=
  let (db1, c) := appendNode db (.clause s body)
  match addDefineNode db1 s c with
  | .error e => .error e
  | .ok db2 => .ok (db2, c)

/-- `add_fact` for a ground fact (clausedb.py:345-349). -/
def addFact (db : DB) (s : Sig) : Except Err (DB × Nat) :=
  let (db1, c) := appendNode db (.fact s)
  match addDefineNode db1 s c with
  | .error e => .error e
  | .ok db2 => .ok (db2, c)

/-- `_add_call_node` (clausedb.py:222-236). -/
def addCallNode (db : DB) (s : Sig) : Except Err (DB × Nat) :=
  match addHead db s false with
  | .error e => .error e
  | .ok (db1, ref) => .ok (appendNode db1 (.call s ref))

/-- `_create_alias` (clausedb.py:860-885), used by `use_module` — in particular by the `builtin.pl` prelude of every
    database (`forall/2` → `_builtin_forall/2`). Modelled for the correspondence only; the C29 theorems are about
    databases whose redirects all come from `_add_head`. -/
def createAlias (db : DB) (rootSig scopedSig : Sig) : Except Err DB :=
  match addHead db rootSig false with
  | .error e => .error e
  | .ok (db1, rh) =>
    match addHead db1 scopedSig false with
    | .error e => .error e
    | .ok (db2, sh) =>
      match rh, sh with
      | .node rh, .node sh =>
        match getNode db2 rh with
        | .error e => .error e
        | .ok n => if n.truthy then .ok db2 else .ok (addRedirect db2 rh (redirectGet db2.layer sh))
      | _, _ => .error .attributeError      -- builtins have no node (Python: TypeError in get_node)

/-! ## The part of `_compile` that drives the operations above (clausedb.py:386-561) -/

inductive Body where
  | call (s : Sig)
  | conj (a b : Body)
  | disj (a b : Body)
  | neg (a : Body)
  deriving Repr, Inhabited

def tagConj := 0
def tagDisj := 1
def tagNeg := 2
def tagChoice := 3
def tagChoiceCall := 4

def compileBody (db : DB) : Body → Except Err (DB × Nat)
  | .call s => addCallNode db s                                            -- :558
  | .conj a b =>                                                           -- :399-406
    match compileBody db a with
    | .error e => .error e
    | .ok (db1, i) =>
      match compileBody db1 b with
      | .error e => .error e
      | .ok (db2, j) => .ok (appendNode db2 (.other tagConj [i, j]))
  | .disj a b =>                                                           -- :407-414
    match compileBody db a with
    | .error e => .error e
    | .ok (db1, i) =>
      match compileBody db1 b with
      | .error e => .error e
      | .ok (db2, j) => .ok (appendNode db2 (.other tagDisj [i, j]))
  | .neg a =>                                                              -- :415-421
    match compileBody db a with
    | .error e => .error e
    | .ok (db1, i) => .ok (appendNode db1 (.other tagNeg [i]))

/-- Log of the clause/fact nodes an operation added: (signature, node id), in order of addition. -/
abbrev Log := List (Sig × Nat)

/-- One head of an annotated disjunction (clausedb.py:463-498). The choice node carries the *group id* of its
    annotated disjunction: the engine identifies a ground choice by (group, arguments, choice index), so two
    disjunctions must never share a group id. -/
def addChoice (db : DB) (group : Nat) (bodySig : Sig) (clauseBody : Ref) (h : Sig) : Except Err (DB × Nat) :=
  let (db1, choiceNode) := appendNode db (.other tagChoice [group])          -- :472 _add_choice_node
  let (db2, choiceCall) := appendNode db1 (.other tagChoiceCall [choiceNode]) -- :481 raw call node
  let (db3, bodyCall) := appendNode db2 (.call bodySig clauseBody)           -- :491
  let (db4, choiceBody) := appendNode db3 (.other tagConj [bodyCall, choiceCall])  -- :501
  addClauseNode db4 h choiceBody                                             -- :502

def addChoices (db : DB) (group : Nat) (bodySig : Sig) (clauseBody : Ref) : List Sig → Except Err (DB × Log)
  | [] => .ok (db, [])
  | h :: hs =>
    match addChoice db group bodySig clauseBody h with
    | .error e => .error e
    | .ok (db1, c) =>
      match addChoices db1 group bodySig clauseBody hs with
      | .error e => .error e
      | .ok (db2, log) => .ok (db2, (h, c) :: log)

/-- Group id of an annotated disjunction compiled into `db`: `len(self)`, the number of nodes of the database *and of
    its ancestors* (repo_patches/C29_ad_group_id.diff), taken before anything of the statement is compiled. -/
def adGroup (db : DB) : Nat := db.len

/-- The group id as written before the repair (clausedb.py:437 at 9130489): `len(self.__nodes)`, which restarts at 0
    in every extension. -/
def adGroupV0 (db : DB) : Nat := db.layer.nodes.length

/-- Statements a program (or an extension) adds. -/
inductive Op where
  | fact (s : Sig)                        -- ground fact, with or without probability
  | clause (s : Sig) (b : Body)           -- deterministic clause (also: non-ground fact = clause with body `true`)
  | ad (heads : List Sig) (b : Body)      -- annotated disjunction / probabilistic clause
  | call (b : Body)                       -- a body compiled on its own
  deriving Repr, Inhabited

def applyOp (db : DB) : Op → Except Err (DB × Log)
  | .fact s =>
    match addFact db s with
    | .error e => .error e
    | .ok (db1, c) => .ok (db1, [(s, c)])
  | .clause s b =>                                                         -- :508-521
    match compileBody db b with
    | .error e => .error e
    | .ok (db1, bodyNode) =>
      match addClauseNode db1 s bodyNode with
      | .error e => .error e
      | .ok (db2, c) => .ok (db2, [(s, c)])
  | .ad heads b =>                                                         -- :422-504
    match compileBody db b with                                            -- :431
    | .error e => .error e
    | .ok (db1, bodyNode) =>
      let bodySig := Sig.body db1.len                                      -- :447
      match addClauseNode db1 bodySig bodyNode with                        -- :456
      | .error e => .error e
      | .ok (db2, c) =>
        match addHead db2 bodySig true with                                -- :459
        | .error e => .error e
        | .ok (db3, clauseBody) =>
          match addChoices db3 (adGroup db) bodySig clauseBody heads with                 -- group: :437
          | .error e => .error e
          | .ok (db4, log) => .ok (db4, (bodySig, c) :: log)
  | .call b =>
    match compileBody db b with
    | .error e => .error e
    | .ok (db1, _) => .ok (db1, [])

def run (db : DB) : List Op → Except Err (DB × Log)
  | [] => .ok (db, [])
  | op :: ops =>
    match applyOp db op with
    | .error e => .error e
    | .ok (db1, l1) =>
      match run db1 ops with
      | .error e => .error e
      | .ok (db2, l2) => .ok (db2, l1 ++ l2)

/-- Abstract view: the clause ids of a predicate as seen through `find` + `get_node`. -/
def defs (db : DB) (s : Sig) : List Nat :=
  match find db s with
  | none => []
  | some i =>
    match getNode db i with
    | .ok (.define _ ch) => ch
    | _ => []

/-- The same view through the unrepaired `get_node`. -/
def defsV0 (db : DB) (s : Sig) : List Nat :=
  match find db s with
  | none => []
  | some i =>
    match getNodeV0 db i with
    | .ok (.define _ ch) => ch
    | _ => []

/-- Ids in a log that belong to signature `s`. -/
def Log.ids (log : Log) (s : Sig) : List Nat := (log.filter (fun e => e.1 == s)).map (·.2)

end ProbLogModel.ClauseDB
