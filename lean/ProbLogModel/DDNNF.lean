/-
Model of `problog/ddnnf_formula.py`: the `.nnf` file as read by `_load_nnf` (lines 364-418), the loaded `DDNNF`
formula, `SimpleDDNNFEvaluator` (lines 63-226) over the probability semiring (exact rationals, the code's float
thresholds kept as rationals), `BaseFormula.extract_weights` + `ConstraintAD.update_weights`, and the
syntactic validator for dsharp's output (decomposable, smooth, deterministic through the decision variable).
-/
import ProbLogModel.Formula
import ProbLogModel.Clark
namespace ProbLogModel.DDNNF
open ProbLogModel.Formula ProbLogModel.Clark

/-- One line of a `.nnf` file. Children are 0-based line numbers of earlier lines. -/
inductive NNode where
  | lit (l : Int)                     -- `L l`
  | and (cs : List Nat)               -- `A n c1 .. cn`
  | or (j : Nat) (cs : List Nat)      -- `O j n c1 .. cn`   (the Python loader ignores j)
  deriving Repr, DecidableEq, Inhabited

abbrev Circuit := List NNode          -- root = last line

/-! ### generic evaluation over a semiring given as a record (no Mathlib here) -/

structure SR (R : Type) where
  zero : R
  one : R
  plus : R → R → R
  times : R → R → R

def ratSR : SR Rat := ⟨0, 1, (· + ·), (· * ·)⟩
def natSR : SR Nat := ⟨0, 1, (· + ·), (· * ·)⟩

def evalLine {R} (sr : SR R) (w : Int → R) (acc : List R) : NNode → R
  | .lit l => w l
  | .and cs => cs.foldl (fun p c => sr.times p (acc.getD c sr.zero)) sr.one
  | .or _ cs => cs.foldl (fun p c => sr.plus p (acc.getD c sr.zero)) sr.zero

def evalLines {R} (sr : SR R) (w : Int → R) (c : Circuit) : List R :=
  c.foldl (fun acc nd => acc ++ [evalLine sr w acc nd]) []

/-- value of the root (last line); empty circuit: one -/
def evalC {R} (sr : SR R) (w : Int → R) (c : Circuit) : R :=
  match (evalLines sr w c).getLast? with
  | some r => r
  | none => sr.one

/-- Array-based evaluation used by the driver on large circuits (same fold as `evalLines`, O(1) child lookup). -/
def evalLineArr {R} (sr : SR R) (w : Int → R) (acc : Array R) : NNode → R
  | .lit l => w l
  | .and cs => cs.foldl (fun p c => sr.times p (acc.getD c sr.zero)) sr.one
  | .or _ cs => cs.foldl (fun p c => sr.plus p (acc.getD c sr.zero)) sr.zero

def evalCArr {R} (sr : SR R) (w : Int → R) (c : Circuit) : R :=
  let vals := c.foldl (fun (acc : Array R) nd => acc.push (evalLineArr sr w acc nd)) #[]
  if h : 0 < vals.size then vals[vals.size - 1] else sr.one

/-! ### syntactic validator -/

def insertSorted (x : Nat) : List Nat → List Nat
  | [] => [x]
  | y :: ys => if x < y then x :: y :: ys else if x == y then y :: ys else y :: insertSorted x ys

def mergeVars (a b : List Nat) : List Nat := a.foldl (fun acc x => insertSorted x acc) b

def disjointVars (a b : List Nat) : Bool := a.all (fun x => !b.contains x)

/-- variable sets of every line (sorted, duplicate free) -/
def varsLines (c : Circuit) : List (List Nat) :=
  c.foldl (fun acc nd =>
    acc ++ [match nd with
      | .lit l => [l.natAbs]
      | .and cs => cs.foldl (fun v ch => mergeVars (acc.getD ch []) v) []
      | .or _ cs => cs.foldl (fun v ch => mergeVars (acc.getD ch []) v) []]) []

def pairwise {α} (p : α → α → Bool) : List α → Bool
  | [] => true
  | x :: xs => xs.all (p x) && pairwise p xs

/-- `implies c i lit`: line i is the literal, or an AND one of whose children implies it (fuel = line number). -/
def impliesLit (c : Circuit) : Nat → Nat → Int → Bool
  | 0, _, _ => false
  | fuel + 1, i, lit =>
    match c[i]? with
    | some (.lit l) => l == lit
    | some (.and cs) => cs.any (fun ch => ch < i && impliesLit c fuel ch lit)
    | _ => false

inductive Verdict where
  | ok
  | bad (line : Nat) (why : String)
  | undecided (line : Nat) (why : String)
  deriving Repr, DecidableEq

def checkLine (c : Circuit) (vars : List (List Nat)) (i : Nat) : NNode → Verdict
  | .lit l => if l == 0 then .bad i "literal 0" else .ok
  | .and cs =>
    if !cs.all (· < i) then .bad i "forward reference"
    else if pairwise disjointVars (cs.map (fun ch => vars.getD ch [])) then .ok
    else .bad i "AND not decomposable"
  | .or j cs =>
    if !cs.all (· < i) then .bad i "forward reference"
    else match cs with
      | [] => .ok
      | [_] => .ok
      | [a, b] =>
        if vars.getD a [] != vars.getD b [] then .bad i "OR not smooth"
        else if j == 0 then .undecided i "no decision variable"
        else if (impliesLit c (i + 1) a (j : Int) && impliesLit c (i + 1) b (-(j : Int))) ||
                (impliesLit c (i + 1) a (-(j : Int)) && impliesLit c (i + 1) b (j : Int)) then .ok
        else .undecided i "children do not visibly disagree on the decision variable"
      | _ => .undecided i "OR with more than two children"

def validate (c : Circuit) : Verdict :=
  let vars := varsLines c
  (Clark.enumFrom 0 c).foldl (fun v (i, nd) => match v with
    | .ok => checkLine c vars i nd
    | other => other) .ok

def rootVars (c : Circuit) : List Nat := (varsLines c).getLast?.getD []

/-! ### `_load_nnf` : circuit + CNF ↦ DDNNF store -/

structure Loaded where
  store : Store
  line2node : List Key
  deriving Inhabited

/-- Names whose key is `node` (`names_inv[node]`), in `get_names_with_label` order. -/
def namesOf (ns : List (Label × Name × Key)) (k : Key) : List (Label × Name) :=
  (ns.filter (fun e => e.2.2 == k)).map (fun e => (e.1, e.2.1))

/-- Python's unary minus on a key (`node = -node`, line 388): `-0 == 0`, so the negation of the constant key TRUE
    stays TRUE; `-None` raises TypeError — see `loadNnfRaises` (the value returned here for `None` is never used when
    that predicate is false). -/
def negKey : Key → Key
  | some k => some (-k)
  | none => none

/-- `_load_nnf` raises `TypeError` (`-None`): some line `L -x` whose variable has the weight `False`
    (`add_atom` returns `None`). `loadNnf` models the cases in which this is `false`. -/
def loadNnfRaises (c : Circuit) (cnf : CNF) : Bool :=
  c.any (fun nd => match nd with
    | .lit name => name < 0 && (match (lookup cnf.weights name.natAbs).getD .neutral with
        | .ff => true
        | _ => false)
    | _ => false)

def loadNnf (c : Circuit) (cnf : CNF) (namesOrdered : List (Label × Name × Key)) : Loaded :=
  let init : Store := { opts := { autoCompact := false } }
  let step (st : Loaded × List Int) (nd : NNode) : Loaded × List Int :=
    let (ld, seen) := st
    match nd with
    | .lit name =>
      let w := (lookup cnf.weights name.natAbs).getD .neutral
      let pc : PClass := match w with | .tt => .pNone | .ff => .pFalse | _ => .normal
      let (S1, k) := ld.store.addAtom (.user (name.natAbs : Int)) pc w
      let node : Key := if name < 0 then negKey k else k
      let S2 := if seen.contains name then S1 else
        (namesOf namesOrdered (some name)).foldl (fun S (l, n) => S.addName n node l) S1
      (⟨S2, ld.line2node ++ [node]⟩, name :: seen)
    | .and cs =>
      let (S1, i) := ld.store.addConjNode (cs.map (fun ch => ld.line2node.getD ch none)) none false
      (⟨S1, ld.line2node ++ [some (i : Int)]⟩, seen)
    | .or _ cs =>
      let (S1, i) := ld.store.addDisjNode (cs.map (fun ch => ld.line2node.getD ch none)) none false
      (⟨S1, ld.line2node ++ [some (i : Int)]⟩, seen)
  let (ld0, seen) := c.foldl step (⟨init, []⟩, [])
  -- `if lnum > 0 and last_is_literal: nnf.add_and([line2node[lnum - 1]])` : a circuit whose last line is a literal
  -- gets an explicit root node (the evaluator takes the last node of the formula as root)
  let ld : Loaded := match c.getLast? with
    | some (.lit _) =>
      let (S1, _) := ld0.store.addConjNode [ld0.line2node.getLast?.getD none] none false
      ⟨S1, ld0.line2node⟩
    | _ => ld0
  -- names of literals that do not occur in the file: TRUE stays TRUE, everything else becomes FALSE (None)
  let rest := namesOrdered.filter (fun e => match e.2.2 with
    | some k => !seen.contains k
    | none => true)
  let S := rest.foldl (fun S (l, n, k) => S.addName n (if k == some 0 then some 0 else none) l) ld.store
  -- `nnf.add_constraint(c.copy(rename))` with rename : CNF variable ↦ atom node of the loaded formula
  let rename (x : Nat) : Nat := (lookup S.idxAtom (.user (x : Int))).getD x
  let ads := cnf.ads.map (fun c => { c with nodes := c.nodes.map rename, extra := c.extra.map rename })
  ⟨{ S with ads := ads }, ld.line2node⟩

/-! ### weights (probability semiring, exact) -/

inductive EvalErr where
  | invalidValue
  | inconsistent
  | badNode
  deriving Repr, DecidableEq

def eps9 : Rat := 1 / 1000000000
def eps12 : Rat := 1 / 1000000000000
def isZero (v : Rat) : Bool := -eps12 < v && v < eps12
def isOne (v : Rat) : Bool := 1 - eps12 < v && v < 1 + eps12
def inDomain (v : Rat) : Bool := 0 - eps9 ≤ v && v ≤ 1 + eps9

/-- `extract_weights(SemiringProbability())` followed by `ConstraintAD.update_weights` for every constraint. -/
def extractWeights (weights : List (Nat × Weight)) (ads : List ADC) : Except EvalErr (List (Nat × (Rat × Rat))) := do
  let base ← weights.mapM (fun (k, w) => match w with
    | .neutral => .ok (k, ((1 : Rat), (1 : Rat)))
    | .ff => .ok (k, ((0 : Rat), (1 : Rat)))
    | .tt => .ok (k, ((1 : Rat), (0 : Rat)))
    | .prob p => if inDomain p then .ok (k, (p, 1 - p)) else .error .invalidValue)
  ads.foldlM (fun ws c =>
    if c.nodes.length ≤ 1 then .ok ws
    else
      let ps := c.nodes.map (fun n => ((lookup ws n).getD (1, 1)).1)
      let ws1 := c.nodes.foldl (fun ws n => assocSet ws n (((lookup ws n).getD (1, 1)).1, (1 : Rat))) ws
      let complement := 1 - ps.foldl (· + ·) 0
      if !inDomain complement then .error .invalidValue
      else match c.extra with
        | some e => .ok (assocSet ws1 e (complement, (1 : Rat)))
        | none => .error .badNode) base

/-! ### `SimpleDDNNFEvaluator` on a loaded store -/

/-- `_get_weight/_calculate_weight`: bottom-up values of all nodes (positive polarity), children by key. -/
def nodeWeights (S : Store) (w : Nat → Rat × Rat) : List Rat :=
  S.nodes.foldl (fun acc nd =>
    let i := acc.length + 1
    let childW (k : Key) : Rat := match k with
      | none => 0
      | some c => if c = 0 then 1 else
        match S.nodes[c.natAbs - 1]? with
        | some (.atom ..) => if c < 0 then (w c.natAbs).2 else (w c.natAbs).1
        | _ => acc.getD (c.natAbs - 1) 0
    acc ++ [match nd with
      | .atom .. => (w i).1
      | .conj cs _ => cs.foldl (fun p c => p * childW c) 1
      | .disj cs _ => cs.foldl (fun p c => p + childW c) 0]) []

def wfun (ws : List (Nat × (Rat × Rat))) (i : Nat) : Rat × Rat := (lookup ws i).getD (1, 1)

/-- `get_root_weight` : weight of node `len(formula)` (times `weights[0][0]` if present — never set here).
    For an empty formula `_get_weight(0)` is `one`. -/
def rootWeight (S : Store) (ws : List (Nat × (Rat × Rat))) : Rat :=
  match S.nodes.getLast? with
  | none => 1
  | some (.atom ..) => (wfun ws S.nodes.length).1
  | some _ => (nodeWeights S (wfun ws)).getLast?.getD 1

def setEvidence (ws : List (Nat × (Rat × Rat))) (ev : Int) : Except EvalErr (List (Nat × (Rat × Rat))) :=
  let (p, n) := wfun ws ev.natAbs
  if (ev > 0 && isZero p) || (ev < 0 && isZero n) then .error .inconsistent
  else .ok (assocSet ws ev.natAbs (if ev > 0 then ((1 : Rat), (0 : Rat)) else ((0 : Rat), (1 : Rat))))

/-- `_set_value(index, value)`. -/
def setValue (ws : List (Nat × (Rat × Rat))) (index : Nat) (value : Bool) : List (Nat × (Rat × Rat)) :=
  let (p, n) := wfun ws index
  assocSet ws index (if value then (p, 0) else (0, n))

/-- `evidence_all()` restricted to determined evidence: (key, +1) for `evidence+`, (key, −1) for `evidence-`. -/
def evidenceAll (S : Store) : List (Key × Int) :=
  (S.names.filter (fun e => e.1 == .evPos)).map (fun e => (e.2.2, (1 : Int))) ++
  (S.names.filter (fun e => e.1 == .evNeg)).map (fun e => (e.2.2, (-1 : Int)))

structure Prepared where
  store : Store
  ws : List (Nat × (Rat × Rat))
  z : Rat
  hasEvidence : Bool

/-- `Evaluatable.get_evaluator` (evidence filtering, lines 380-392) + `_initialize()`:
    extract weights, apply evidence, compute Z. -/
def prepare (S : Store) : Except EvalErr Prepared := do
  let ws0 ← extractWeights S.weights S.ads
  let evs := evidenceAll S
  -- true evidence that is TRUE / false evidence that is FALSE: skipped; the opposite: inconsistent
  if evs.any (fun (k, v) => (k == some 0 && v < 0) || (k == none && v > 0)) then .error .inconsistent else
  let evi : List Int := evs.filterMap (fun (k, v) => match k with
    | some i => if i = 0 then none else some (v * i)
    | none => none)
  let ws ← evi.foldlM setEvidence ws0
  let z := rootWeight S ws
  if isZero z then .error .inconsistent
  else .ok ⟨S, ws, z, !evi.isEmpty⟩

/-- `evaluate(node)` for the (non-NSP) probability semiring. -/
def evaluate (P : Prepared) (node : Key) : Rat :=
  match node with
  | none => 0
  | some k =>
    if k = 0 then 1 else
    let ws' := setValue P.ws k.natAbs (k > 0)
    let r := rootWeight P.store ws'
    if P.hasEvidence then r / P.z else r

end ProbLogModel.DDNNF
