/-
The specification: distribution (possible-world) semantics of a ground normal program with independent choices
and annotated-disjunction groups, with the well-founded model computed by the alternating fixpoint.
This file is *not* a model of any ProbLog code; it is the reference the properties C01/C02/C07/C08/... speak about.
It is deliberately naive: explicit enumeration of total choices.
-/
namespace ProbLogModel.Sem

/-- A ground rule `head :- pos, \+neg` guarded by an optional choice (probabilistic fact / AD head). -/
structure Rule where
  head : Nat
  pos : List Nat
  neg : List Nat
  choice : Option Nat
  deriving Repr, Inhabited, DecidableEq

/-- A group of mutually exclusive choices `(probability, choice id)`; with probability `1 - Σ` none is taken.
    A probabilistic fact is a group with one alternative. -/
structure Group where
  alts : List (Rat × Nat)
  deriving Repr, Inhabited

structure Prog where
  natoms : Nat
  nchoices : Nat
  rules : List Rule
  groups : List Group
  deriving Repr, Inhabited

/-- A total choice: which choice ids are selected, and its probability. -/
structure World where
  weight : Rat
  chosen : List Nat
  deriving Repr, Inhabited

/-- All total choices: the product over groups of (alternatives ∪ {none}). -/
def worlds : List Group → List World
  | [] => [⟨1, []⟩]
  | g :: gs =>
    let rest := worlds gs
    let none_p : Rat := 1 - (g.alts.map (·.1)).foldl (· + ·) 0
    (g.alts.flatMap (fun (p, c) => rest.map (fun w => ⟨p * w.weight, c :: w.chosen⟩))) ++
      rest.map (fun w => ⟨none_p * w.weight, w.chosen⟩)

def getB (a : Array Bool) (i : Nat) : Bool := a.getD i false

/-- One pass of the immediate-consequence operator of the reduct w.r.t. `ctx` (negative literals are read in `ctx`). -/
def tpPass (rules : List Rule) (chosen : Array Bool) (ctx : Array Bool) (cur : Array Bool) : Array Bool :=
  rules.foldl (fun acc r =>
    let chOk := match r.choice with
      | none => true
      | some c => getB chosen c
    if chOk && r.pos.all (getB acc) && r.neg.all (fun a => !getB ctx a) then acc.setIfInBounds r.head true else acc) cur

/-- `Γ(ctx)`: least model of the reduct, by iterating `tpPass` (at most `natoms + 1` passes change anything). -/
def gamma (rules : List Rule) (chosen : Array Bool) (natoms : Nat) (ctx : Array Bool) : Array Bool :=
  let rec go : Nat → Array Bool → Array Bool
    | 0, cur => cur
    | fuel + 1, cur =>
      let nxt := tpPass rules chosen ctx cur
      if nxt == cur then cur else go fuel nxt
  go (natoms + 1) (Array.replicate natoms false)

/-- Well-founded model by the alternating fixpoint: `(T, U)` = (certainly true, possibly true). -/
def wfm (rules : List Rule) (chosen : Array Bool) (natoms : Nat) : Array Bool × Array Bool :=
  let rec go : Nat → Array Bool → Array Bool × Array Bool
    | 0, t => (t, gamma rules chosen natoms t)
    | fuel + 1, t =>
      let u := gamma rules chosen natoms t
      let t' := gamma rules chosen natoms u
      if t' == t then (t, u) else go fuel t'
  go (natoms + 1) (Array.replicate natoms false)

/-- The dependency program of `rules` for `roots`: a fact for every root and a rule `b :- head` for every body atom
    `b` (positive or negative) of every rule. Its least model is the set of atoms reachable from the roots. -/
def depRules (rules : List Rule) (roots : List Nat) : List Rule :=
  roots.map (fun a => ⟨a, [], [], none⟩) ++
    rules.flatMap (fun r => (r.pos ++ r.neg).map (fun b => ⟨b, [r.head], [], none⟩))

/-- Atoms reachable from the roots through rule bodies (positive and negative): the least model of `depRules`
    (proved: `ProbLogProofs.C01.C01_relevant_iff_reach`). -/
def relevantAtoms (rules : List Rule) (natoms : Nat) (roots : List Nat) : Array Bool :=
  gamma (depRules rules roots) #[] natoms #[]

/-- The former worklist formulation of `relevantAtoms`, kept for reference only (not used by `run`). Its fuel does not
    bound the work: one step is spent per *popped* atom, and a rule pushes its whole body, so programs whose bodies are
    long relative to `natoms` (e.g. `0 :- 1,…,1,2` with 20 copies of `1`) exhaust it before every reachable atom is
    marked (`ProbLogProofs.C01.C01_worklist_fuel_insufficient`). On programs where the worklist empties before the
    fuel does, and all atoms are `< natoms`, both compute the reachable set. -/
def relevantAtomsWorklist (rules : List Rule) (natoms : Nat) (roots : List Nat) : Array Bool :=
  let rec go : Nat → Array Bool → List Nat → Array Bool
    | 0, seen, _ => seen
    | _, seen, [] => seen
    | fuel + 1, seen, a :: rest =>
      if getB seen a then go fuel seen rest
      else
        let seen' := seen.setIfInBounds a true
        let nxt := (rules.filter (fun r => r.head == a)).flatMap (fun r => r.pos ++ r.neg)
        go fuel seen' (nxt ++ rest)
  go (natoms * (rules.length + 1) + roots.length + 1) (Array.replicate natoms false) roots

def restrict (P : Prog) (roots : List Nat) : Prog :=
  let rel := relevantAtoms P.rules P.natoms roots
  let rules := P.rules.filter (fun r => getB rel r.head)
  let used (c : Nat) : Bool := rules.any (fun r => r.choice == some c)
  { P with rules := rules, groups := P.groups.filter (fun g => g.alts.any (fun (_, c) => used c)) }

structure Result where
  z : Rat                      -- probability of the evidence
  num : List Rat               -- per query: probability of query ∧ evidence
  undefWorlds : Nat            -- worlds of non-zero weight whose well-founded model is not two-valued on a relevant atom
  nworlds : Nat
  deriving Repr, Inhabited

/-- The distribution semantics restricted to what is relevant for queries and evidence. -/
def run (P : Prog) (queries : List Nat) (evidence : List (Nat × Bool)) : Result :=
  let roots := queries ++ evidence.map (·.1)
  let Q := restrict P roots
  let rel := relevantAtoms P.rules P.natoms roots
  let ws := worlds Q.groups
  ws.foldl (fun (acc : Result) (w : World) =>
    if w.weight == (0 : Rat) then { acc with nworlds := acc.nworlds + 1 } else
    let chosen := w.chosen.foldl (fun a c => a.setIfInBounds c true) (Array.replicate P.nchoices false)
    let (t, u) := wfm Q.rules chosen P.natoms
    let undef := (List.range P.natoms).any (fun a => getB rel a && getB t a != getB u a)
    if undef then { acc with undefWorlds := acc.undefWorlds + 1, nworlds := acc.nworlds + 1 }
    else if evidence.all (fun (a, v) => getB t a == v) then
      { acc with z := acc.z + w.weight,
                 num := List.zipWith (fun n q => if getB t q then n + w.weight else n) acc.num queries,
                 nworlds := acc.nworlds + 1 }
    else { acc with nworlds := acc.nworlds + 1 })
    ⟨0, queries.map (fun _ => 0), 0, 0⟩

/-- Is there a cycle through negation in the ground dependency graph restricted to relevant atoms?
    (`a` depends negatively on `b` and `b` reaches `a`.) -/
def reaches (rules : List Rule) (natoms : Nat) (src tgt : Nat) : Bool :=
  getB (relevantAtoms rules natoms [src]) tgt

def hasNegCycle (P : Prog) (roots : List Nat) : Bool :=
  let Q := restrict P roots
  Q.rules.any (fun r => r.neg.any (fun b => reaches Q.rules P.natoms b r.head))

/-- Number of non-zero-weight worlds in which a ROOT atom (a query instance or an evidence atom) itself is undefined
    in the well-founded model (C02: these programs must be rejected even by a goal-directed grounder). -/
def undefRootWorlds (P : Prog) (queries : List Nat) (evidence : List (Nat × Bool)) : Nat :=
  let roots := queries ++ evidence.map (·.1)
  let Q := restrict P roots
  (worlds Q.groups).foldl (fun (acc : Nat) (w : World) =>
    if w.weight == (0 : Rat) then acc else
    let chosen := w.chosen.foldl (fun a c => a.setIfInBounds c true) (Array.replicate P.nchoices false)
    let (t, u) := wfm Q.rules chosen P.natoms
    if roots.any (fun a => getB t a != getB u a) then acc + 1 else acc) 0

/-- Cycle through negation anywhere in the full ground dependency graph (not only in the part relevant to the roots). -/
def hasNegCycleFull (P : Prog) : Bool :=
  P.rules.any (fun r => r.neg.any (fun b => reaches P.rules P.natoms b r.head))

end ProbLogModel.Sem
