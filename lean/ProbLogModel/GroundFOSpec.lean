/-
Specification side of the first-order grounder model: the Herbrand instantiation of a `GroundFO.Prog` as a program of
the ground model (`GroundAcyclic.Prog`), so that `Sem.wfm (toSem (inst P natoms))` (`ProbLogProofs.GroundSem.toSem`) is
the distribution-semantics value the first-order theorems are about.  Not a model of any ProbLog code.

Atoms are numbered by their names (`Prog.atomName`: `nameBase p + enc args`), `natoms` must exceed every name in use;
the choice of the instance `θ` of a probabilistic clause is `ident + enc θ` (the identifier the engine model gives the
choice atom).
-/
import ProbLogModel.GroundFO
import ProbLogModel.GroundAcyclic
import ProbLogModel.Sem
import ProbLogModel.Clark
namespace ProbLogModel.GroundFO
open ProbLogModel.Formula (lookup)

/-- all lists of length `n` over `0..nc-1` (first position slowest) -/
def tuples (nc : Nat) : Nat → List (List Const)
  | 0 => [[]]
  | n + 1 => (List.range nc).flatMap (fun c => (tuples nc n).map (fun t => c :: t))

/-- value of a clause term under the assignment `θ` of the clause variables -/
def Term.ground (θ : List Const) : Term → Const
  | .const c => c
  | .var i => θ.getD i 0

def Atom.groundId (P : Prog) (θ : List Const) (a : Atom) : Nat := P.atomName a.pred (a.args.map (Term.ground θ))

def instLit (P : Prog) (θ : List Const) : Lit → GroundAcyclic.Lit
  | .pos a => .pos (a.groundId P θ)
  | .neg a => .neg (a.groundId P θ)
  | .tt => .tt

/-- the ground instances of a clause of predicate `p`, each with the id of its head atom -/
def instClause (P : Prog) (p : Pred) : Clause → List (Nat × GroundAcyclic.Clause)
  | .fact args ident prob => [(P.atomName p args, .fact ident prob (P.atomName p args))]
  | .rule head n body ch =>
    (tuples P.nconsts n).map (fun θ =>
      (P.atomName p (head.map (Term.ground θ)),
       .rule (body.map (instLit P θ))
         (ch.map (fun c => ⟨c.ident + enc P.nconsts θ, c.group + enc P.nconsts θ, c.prob, c.name + enc P.nconsts θ⟩))))

def allInstances (P : Prog) : List (Nat × GroundAcyclic.Clause) :=
  P.defs.flatMap (fun d => d.2.flatMap (instClause P d.1))

/-- The Herbrand instantiation: for every atom id `< natoms` the instances whose head it is, in program order. -/
def inst (P : Prog) (natoms : Nat) : GroundAcyclic.Prog :=
  { defs := (List.range natoms).map (fun a =>
      (a, (allInstances P).filterMap (fun x => if x.1 == a then some x.2 else none))) }

/-- the ground tuple `a` is an instance of the call arguments (constants equal, repeated variables consistent) -/
def fits (args : List Val) (a : List Const) : Bool := (bindAnswer args a []).isSome

/-! ### the hypotheses of the correctness theorem, decided (`ProbLogProofs.GroundFOSem.specOKb_sound`)

`arL`: the arity of every predicate of the program; names are laid out as disjoint blocks
`[baseOf p, baseOf p + nconsts ^ arity)` below `natoms`; `rk`: rank of the ground atoms (decreasing along bodies). -/

/-- all constants of the tuple are `< nc` -/
def inR (nc : Nat) (a : List Const) : Bool := a.all (fun x => decide (x < nc))

def termInb (n : Nat) : Term → Bool
  | .const _ => true
  | .var i => decide (i < n)

def termCb (nc : Nat) : Term → Bool
  | .const c => decide (c < nc)
  | .var _ => true

def atomOKb (nc n : Nat) (ar : Pred → Option Nat) (b : Atom) : Bool :=
  (ar b.pred == some b.args.length) && b.args.all (fun t => termInb n t && termCb nc t)

def litOKb (nc n : Nat) (ar : Pred → Option Nat) : Lit → Bool
  | .pos b => atomOKb nc n ar b
  | .neg b => atomOKb nc n ar b
  | .tt => true

def hasVar (i : Nat) : Lit → Bool
  | .pos b => b.args.contains (.var i)
  | _ => false

def clauseOKb (nc : Nat) (ar : Pred → Option Nat) (p : Pred) : Clause → Bool
  | .fact args _ _ => (ar p == some args.length) && inR nc args
  | .rule head n body _ =>
    (ar p == some head.length) && head.all (fun t => termInb n t && termCb nc t) && body.all (litOKb nc n ar) &&
      (List.range n).all (fun i => body.any (hasVar i))

def layoutOKb (P : Prog) (natoms : Nat) (arL : List (Pred × Nat)) : Bool :=
  arL.all (fun x => decide (P.baseOf x.1 + P.nconsts ^ x.2 ≤ natoms) &&
    arL.all (fun y => x.1 == y.1 || decide (P.baseOf x.1 + P.nconsts ^ x.2 ≤ P.baseOf y.1) ||
      decide (P.baseOf y.1 + P.nconsts ^ y.2 ≤ P.baseOf x.1)))

def specOKb (P : Prog) (natoms : Nat) (arL : List (Pred × Nat)) (rk : Nat → Nat) : Bool :=
  GroundAcyclic.nodupB (P.defs.map (·.1)) && GroundAcyclic.wfB (inst P natoms) natoms rk &&
    P.defs.all (fun d => d.2.all (clauseOKb P.nconsts (lookup arL) d.1)) && layoutOKb P natoms arL

/-- rank of a ground atom = rank of the predicate whose block of names contains it -/
def blockRank (P : Prog) (arL : List (Pred × Nat)) (prk : List (Pred × Nat)) (a : Nat) : Nat :=
  match arL.find? (fun x => decide (P.baseOf x.1 ≤ a) && decide (a < P.baseOf x.1 + P.nconsts ^ x.2)) with
  | some x => (lookup prk x.1).getD 0
  | none => 0

end ProbLogModel.GroundFO

/-! ### executable check of the correctness statement in one world (used by `Drivers.GroundFOCheck`)

`toSemRules` is `ProbLogProofs.GroundSem.toSem` (restated here because drivers link `ProbLogModel` only; the equality is
`ProbLogProofs.C01GroundFO.toSemRules_eq`). -/
namespace ProbLogModel.GroundFO
open ProbLogModel.Formula

def posOfG : GroundAcyclic.Lit → Option Nat
  | .pos a => some a
  | _ => none

def negOfG : GroundAcyclic.Lit → Option Nat
  | .neg a => some a
  | _ => none

def ruleOfG (a : Nat) : GroundAcyclic.Clause → Sem.Rule
  | .fact _ none _ => ⟨a, [], [], none⟩
  | .fact i (some _) _ => ⟨a, [], [], some i⟩
  | .rule body ch => ⟨a, body.filterMap posOfG, body.filterMap negOfG, ch.map (·.ident)⟩

def toSemRules (P : GroundAcyclic.Prog) : List Sem.Rule := P.defs.flatMap (fun d => d.2.map (ruleOfG d.1))

/-- bottom-up value of key `k` of an acyclic store when the atom nodes take their value from `chosen` -/
def evalIn (S : Store) (chosen : Array Bool) (k : Key) : Bool :=
  Clark.dagEval S (fun j => match S.nodes[j - 1]? with
    | some (.atom (.user z) _ _ _) => Sem.getB chosen z.toNat
    | _ => false) k

/-- every reported instance fits the call and its key evaluates to the truth value `T` of the instance; every
    instance of the call that is not reported is false in `T` -/
def checkWorldWith (P : Prog) (T : Array Bool) (calls : List Call) (rss : List Results) (S : Store)
    (chosen : Array Bool) : Bool :=
  (calls.zip rss).all (fun (c, rs) =>
    rs.all (fun r => fits c.args r.1 && evalIn S chosen r.2 == Sem.getB T (P.atomName c.pred r.1)) &&
    (tuples P.nconsts c.args.length).all (fun a =>
      !fits c.args a || (rs.map (·.1)).contains a || !Sem.getB T (P.atomName c.pred a)))

def checkWorld (P : Prog) (natoms : Nat) (calls : List Call) (rss : List Results) (S : Store) (chosen : Array Bool) : Bool :=
  let w := Sem.wfm (toSemRules (inst P natoms)) chosen natoms
  -- (two-valued on the atoms asked about is part of the check)
  w.1 == w.2 && checkWorldWith P w.1 calls rss S chosen

end ProbLogModel.GroundFO
