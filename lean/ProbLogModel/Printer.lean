/-
C17: model of the term printer of problog/logic.py — `Term.__repr__` (logic.py:356-511, the non-recursive loop over a
stack of deques), `Constant.__str__` (:912), `Clause.__repr__` (:1002), `AnnotatedDisjunction.__repr__` (:1023),
`Or.__repr__` (:1090), `And.__repr__` (:1149), `Not.__repr__` (:1172), `term2str` (:87).

Two entry points, as in Python:
  * `reprTop t`  = `str(t)`: dispatch on the class of `t` (its own `__str__`/`__repr__`);
  * `reprIn t`   = what the loop of `Term.__repr__` emits for an element `current = t` popped from the stack —
    nested `Not`/`Clause`/`Var`/`Constant` objects are *not* printed by their own `__repr__` there but by the
    generic branch (`functor(args)`).
The branch order of the loop is kept: None, And, Or, list cell, operator term, generic term.
-/
import ProbLogModel.Syntax
namespace ProbLogModel.Printer
open ProbLogModel.Syntax ProbLogModel.Parser

/-- `str(value)` of a constant's functor. -/
def constStr : Const → String
  | .int v => toString v
  | .flt s => s
  | .str s => s

/-- `str(current.functor).strip("'")` (logic.py:443, 470): strip *all* leading and trailing quotes. -/
def stripQuotes (s : String) : String :=
  let cs := s.toList.dropWhile (· == '\'')
  String.ofList (cs.reverse.dropWhile (· == '\'')).reverse

/-- `"a" <= cf[0] <= "z"` (logic.py:444, 471); `none` stands for the `IndexError` of `cf[0]` on an empty string. -/
def alphaOp (cf : String) : Option Bool :=
  match cf.toList with
  | [] => Option.none
  | c :: _ => some ('a' ≤ c && c ≤ 'z')

def isOr : Tm → Bool
  | .or _ _ => true
  | _ => false

def isAndOr : Tm → Bool
  | .or _ _ => true
  | .and _ _ => true
  | _ => false

/-- `tail == Term("[]")` (logic.py:433) with Python's dispatch of `==`: `Term.__eq__` needs the exact class `Term`,
    functor `[]` and no arguments; `Var.__eq__`/`Constant.__eq__` compare the `str()` of both sides. -/
def isNil : Tm → Bool
  | .term "[]" [] _ _ => true
  | .var "[]" => true
  | .const (.str "[]") => true
  | _ => false

/-- `a.op_priority` for the parenthesisation test (logic.py:455-462): `None` unless `a` carries `priority=`. -/
def opPrio : Tm → Option Nat
  | .term _ _ (some (n, _)) _ => some n
  | _ => Option.none

/-- no parenthesis around the left operand `a` of `cur` (logic.py:455-464). -/
def noParenL (a : Tm) (curPrio : Nat) (curSpec : Spec) : Bool :=
  match opPrio a with
  | Option.none => true
  | some pa => pa < curPrio || (pa == curPrio && curSpec == .yfx)

/-- no parenthesis around the right operand (logic.py:475-484). -/
def noParenR (b : Tm) (curPrio : Nat) (curSpec : Spec) : Bool :=
  match opPrio b with
  | Option.none => true
  | some pb => pb < curPrio || (pb == curPrio && curSpec == .xfy)

def INDEX_ERROR : String := "<IndexError>"

/-- the operator between/before the operands: `" op "` for alphabetic operators, else `op` (logic.py:443-447, 470-474). -/
def opText (f : String) : String :=
  let cf := stripQuotes f
  match alphaOp cf with
  | Option.none => INDEX_ERROR
  | some true => " " ++ cf ++ " "
  | some false => cf

mutual
/-- `str(t)`. -/
def reprTop : Tm → String
  | .none => "None"
  | .const c => constStr c                                      -- Constant.__str__
  | .and a b =>                                                  -- And.__repr__
    let lhs := term2str a
    let rhs := term2str b
    let rhs := if isOr b then "(" ++ rhs ++ ")" else rhs
    let lhs := if isOr a then "(" ++ lhs ++ ")" else lhs
    lhs ++ ", " ++ rhs
  | .or a b => term2str a ++ "; " ++ term2str b                  -- Or.__repr__
  | .not f c =>                                                  -- Not.__repr__
    let s := reprTop c
    let s := if isAndOr c then "(" ++ s ++ ")" else s
    if f == "not" then "not " ++ s else f ++ s
  | .clause h b =>                                               -- Clause.__repr__
    let isDirective := match h with
      | .none => false
      | .var n => n == "_directive"
      | .term f _ _ _ => f == "_directive"
      | .agg f _ => f == "_directive"
      | .and _ _ => false
      | .or _ _ => false
      | .not f _ => f == "_directive"
      | .clause _ _ => false
      | .ad _ _ => false
      | .const (.str s) => s == "_directive"
      | .const _ => false
    if isDirective then ":- " ++ reprTop b else reprTop h ++ " :- " ++ reprTop b
  | .ad hs b =>                                                  -- AnnotatedDisjunction.__repr__
    match b with
    | .none => joinTop "; " hs
    | b => joinTop "; " hs ++ " :- " ++ reprTop b
  | t => reprIn t                                                -- Term.__repr__ (Term, Var, AggTerm)
termination_by t => (sizeOf t, 1)

/-- `term2str` (logic.py:87): `None` is `_`. -/
def term2str : Tm → String
  | .none => "_"
  | t => reprTop t
termination_by t => (sizeOf t, 2)

/-- `sep.join(map(str, ts))` -/
def joinTop (sep : String) : List Tm → String
  | [] => ""
  | [t] => reprTop t
  | t :: ts => reprTop t ++ sep ++ joinTop sep ts
termination_by ts => (sizeOf ts, 0)

/-- The text emitted by the loop of `Term.__repr__` for one stack element. -/
def reprIn : Tm → String
  | .none => "_"
  | .and a b => "(" ++ andElem a ++ andTail b ++ ")"             -- logic.py:381-409
  | .or a b => reprIn a ++ orTail b                              -- logic.py:410-421
  | .term "." [a, b] _ _ => "[" ++ reprIn a ++ listTail b ++ "]"   -- logic.py:422-439
  | .term f (a :: b :: _) (some (n, s)) _ =>
    if s.isBin then                                              -- logic.py:451-490
      let l := if noParenL a n s then reprIn a else "(" ++ reprIn a ++ ")"
      let r := if noParenR b n s then reprIn b else "(" ++ reprIn b ++ ")"
      l ++ opText f ++ r
    else opText f ++ reprIn a                                    -- logic.py:442-450
  | .term f [a] (some (_, s)) _ => if s.isBin then INDEX_ERROR else opText f ++ reprIn a
  | .term f [] (some (_, s)) _ => if s.isBin then INDEX_ERROR else opText f ++ INDEX_ERROR
  | .term f args Option.none p =>                                -- logic.py:491-504
    (match p with
     | Option.none => ""
     | some q => reprTop q ++ "::") ++ f ++ argList args
  | .agg "." [a, b] => "[" ++ reprIn a ++ listTail b ++ "]"
  | .agg f args => f ++ argList args
  | .var n => n
  | .const c => constStr c
  | .not f c => f ++ "(" ++ reprIn c ++ ")"
  | .clause h b => ":-(" ++ reprIn h ++ "," ++ reprIn b ++ ")"
  | .ad hs b => ":-([" ++ joinTop ", " hs ++ "]," ++ reprIn b ++ ")"   -- args[0] is a Python list: str(list)
termination_by t => (sizeOf t, 0)

/-- `(a1,a2,...)` or nothing (logic.py:496-504). -/
def argList : List Tm → String
  | [] => ""
  | a :: as => "(" ++ reprIn a ++ argRest as ++ ")"
termination_by ts => (sizeOf ts, 0)

def argRest : List Tm → String
  | [] => ""
  | a :: as => "," ++ reprIn a ++ argRest as
termination_by ts => (sizeOf ts, 0)

/-- an element of a conjunction: an `Or` is parenthesised (logic.py:384-389). -/
def andElem : Tm → String
  | .or a b => "(" ++ (reprIn a ++ orTail b) ++ ")"
  | t => reprIn t
termination_by t => (sizeOf t, 1)

/-- the `while isinstance(tail, Term) and tail.functor == "," and tail.arity == 2` walk (logic.py:391-408). -/
def andTail : Tm → String
  | .and a b => ", " ++ andElem a ++ andTail b
  | .term "," [a, b] _ _ => ", " ++ andElem a ++ andTail b
  | .agg "," [a, b] => ", " ++ andElem a ++ andTail b
  | t => ", " ++ andElem t
termination_by t => (sizeOf t, 2)

/-- the `;` walk (logic.py:413-420). -/
def orTail : Tm → String
  | .or a b => "; " ++ reprIn a ++ orTail b
  | .term ";" [a, b] _ _ => "; " ++ reprIn a ++ orTail b
  | .agg ";" [a, b] => "; " ++ reprIn a ++ orTail b
  | t => "; " ++ reprIn t
termination_by t => (sizeOf t, 1)

/-- the list walk (logic.py:428-437). -/
def listTail : Tm → String
  | .term "." [a, b] _ _ => ", " ++ reprIn a ++ listTail b
  | .agg "." [a, b] => ", " ++ reprIn a ++ listTail b
  | t => if isNil t then "" else " | " ++ reprIn t
termination_by t => (sizeOf t, 1)
end

end ProbLogModel.Printer
