/-!
# Model of the memo fields of `problog.logic.Term` and of the public `functor` setter

`Term` memoises its hash (`__hash`), signature (`__signature`), list length (`_cache_list_length`, an ingredient of the
hash) and printed form (`repr`).  Arguments are immutable; the functor has a public setter (used by program.py for
negated heads and by clausedb.py for scoped terms).  The model keeps what each memo field holds as the *value it was
computed from*: the functor (a name id) and, for the list length, the number itself.
-/
namespace ProbLogModel.TermCache

/-- `dot n` says whether name id `n` is the list functor `'.'` (the term has arity 2 in this model). -/
def isDot (n : Nat) : Bool := n == 0

structure St where
  functor : Nat
  tailLen : Nat                       -- list length of the second argument (immutable)
  cHash : Option (Nat × Nat) := none  -- (functor, list length) the hash was computed from
  cSig : Option Nat := none
  cLen : Option Nat := none
  cRepr : Option Nat := none
  tailCached : Bool := false          -- the second argument (a list cell when `tailLen > 0`) has its own length memoised
  deriving Repr, DecidableEq

def listLen (f tailLen : Nat) : Nat := if isDot f then tailLen + 1 else 0

inductive Op where
  | hash | sig | str
  | setFunctor (g : Nat)
  deriving Repr, DecidableEq

/-- `_list_length()`: memoised — except that the walk returns early, WITHOUT filling the memo field, when it meets a
    list cell whose own length is memoised (the tail, after the first `hash`). -/
def St.len (s : St) : St × Nat :=
  match s.cLen with
  | some l => (s, l)
  | none =>
    if isDot s.functor && decide (0 < s.tailLen) && s.tailCached then (s, listLen s.functor s.tailLen)
    else ({ s with cLen := some (listLen s.functor s.tailLen) }, listLen s.functor s.tailLen)

/-- One operation; the second component is what the caller observes (hash ingredients / signature / printed name). -/
def step (s : St) : Op → St × (Nat × Nat)
  | .hash =>
    match s.cHash with
    | some h => (s, h)
    | none => let (s', l) := s.len; ({ s' with cHash := some (s.functor, l), tailCached := true }, (s.functor, l))
  | .sig =>
    match s.cSig with
    | some g => (s, (g, 0))
    | none => ({ s with cSig := some s.functor }, (s.functor, 0))
  | .str =>
    match s.cRepr with
    | some g => (s, (g, 0))
    | none => ({ s with cRepr := some s.functor }, (s.functor, 0))
  | .setFunctor g => ({ s with functor := g, cHash := none, cSig := none, cLen := none, cRepr := none }, (g, 0))

/-- The setter as it was before the repair (hash and signature reset only). -/
def stepOld (s : St) : Op → St × (Nat × Nat)
  | .setFunctor g => ({ s with functor := g, cHash := none, cSig := none }, (g, 0))
  | op => step s op

/-- What a freshly built term with the same functor and arguments answers. -/
def fresh (s : St) : Op → Nat × Nat
  | .hash => (s.functor, listLen s.functor s.tailLen)
  | .sig => (s.functor, 0)
  | .str => (s.functor, 0)
  | .setFunctor g => (g, 0)

def presence (s : St) : String :=
  String.ofList [if s.cHash.isSome then '1' else '0', if s.cSig.isSome then '1' else '0',
             if s.cLen.isSome then '1' else '0', if s.cRepr.isSome then '1' else '0']

end ProbLogModel.TermCache
