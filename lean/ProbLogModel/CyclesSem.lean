/-
Specification side of the cycle-breaking half of C09 (not a model of Python code): the least-model semantics of a
(possibly cyclic) and/or store under an atom assignment, as Kleene iteration of the immediate-consequence operator,
and the inductive notion of a derivation that never re-enters a node on its own path (what `_break_cycles` unrolls).
The executable `Cycles.cutEval` is related to both in `ProbLogProofs/Properties/C09Cycles.lean`.

Core Lean only.
-/
import ProbLogModel.Cycles
namespace ProbLogModel.Cycles
open ProbLogModel.Formula

/-- Kleene stage `n` of the immediate-consequence operator, read at a key.
    Atoms have the value given by `α` (by node id) at every stage; a compound node is `false` at stage 0 and at stage
    `n+1` the conjunction / disjunction of its children at stage `n`. `none` is FALSE, `some 0` is TRUE, a negative key
    is the complement (meaningful for the least model only when it points to an atom, see `Positive`). -/
def lfpEval (S : Store) (α : Nat → Bool) : Nat → Key → Bool
  | _, none => false
  | 0, some k =>
    if k = 0 then true else
    let v : Bool :=
      match S.nodes[k.natAbs - 1]? with
      | some (.atom ..) => α k.natAbs
      | _ => false                       -- compound nodes start `false`
    if k < 0 then !v else v
  | n + 1, some k =>
    if k = 0 then true else
    let v : Bool :=
      match S.nodes[k.natAbs - 1]? with
      | none => false
      | some (.atom ..) => α k.natAbs
      | some (.conj cs _) => cs.all (fun c => lfpEval S α n c)
      | some (.disj cs _) => cs.any (fun c => lfpEval S α n c)
    if k < 0 then !v else v

/-- The least fixpoint: `|nodes| + 1` stages suffice (`C09_lfp_stable`). -/
def lfp (S : Store) (α : Nat → Bool) (k : Key) : Bool := lfpEval S α (S.nodes.length + 1) k

/-- A key that may occur where only positive dependencies are allowed: FALSE, TRUE, a positive reference, or a negative
    reference to an *atom*. -/
def posKey (S : Store) : Key → Bool
  | none => true
  | some k =>
    if 0 ≤ k then true else
    match S.nodes[k.natAbs - 1]? with
    | some (.atom ..) => true
    | _ => false

def posNode (S : Store) : Node → Bool
  | .atom .. => true
  | .conj cs _ => cs.all (posKey S)
  | .disj cs _ => cs.all (posKey S)

/-- Negative edges of compound nodes only point to atoms (a definite program over the atoms and their complements). -/
def positive (S : Store) : Bool := S.nodes.all (posNode S)

abbrev Positive (S : Store) : Prop := positive S = true
abbrev PosKey (S : Store) (k : Key) : Prop := posKey S k = true

/-- Well-formedness: every child of a compound node is FALSE, TRUE or refers to an existing node. (Not needed by the
    theorems of C09Cycles — a dangling reference evaluates to `false` on both sides — kept for the statements.) -/
def wfKey (S : Store) : Key → Bool
  | none => true
  | some k => k.natAbs ≤ S.nodes.length

def wfNode (S : Store) : Node → Bool
  | .atom .. => true
  | .conj cs _ => cs.all (wfKey S)
  | .disj cs _ => cs.all (wfKey S)

def wfStore (S : Store) : Bool := S.nodes.all (wfNode S)
abbrev WFStore (S : Store) : Prop := wfStore S = true

/-- Number of node ids `1..|nodes|` that are not in `A`: the termination measure of the depth-first unrolling. -/
def free (S : Store) (A : List Nat) : Nat :=
  ((List.range S.nodes.length).filter (fun j => !A.contains (j + 1))).length

/-- `Der S α A k`: `k` has a derivation in which no node occurs below itself and no node of `A` is used
    (`A` = the ancestors). Negative literals are only derivable on atoms. -/
inductive Der (S : Store) (α : Nat → Bool) : List Nat → Key → Prop
  | tt {A : List Nat} : Der S α A (some 0)
  | lit {A : List Nat} {k : Int} {id : Ident} {g : Option Nat} {e : Bool} {nm : Option Name} :
      k ≠ 0 → S.nodes[k.natAbs - 1]? = some (.atom id g e nm) →
      (if k < 0 then !α k.natAbs else α k.natAbs) = true → Der S α A (some k)
  | conj {A : List Nat} {k : Int} {cs : List Key} {nm : Option Name} :
      0 < k → k.natAbs ∉ A → S.nodes[k.natAbs - 1]? = some (.conj cs nm) →
      (∀ c ∈ cs, Der S α (k.natAbs :: A) c) → Der S α A (some k)
  | disj {A : List Nat} {k : Int} {cs : List Key} {nm : Option Name} {c : Key} :
      0 < k → k.natAbs ∉ A → S.nodes[k.natAbs - 1]? = some (.disj cs nm) →
      c ∈ cs → Der S α (k.natAbs :: A) c → Der S α A (some k)

/-- A valuation of keys closed under the immediate-consequence operator (a pre-fixpoint that reads atoms from `α`);
    `lfp` is the least one (`C09_lfp_least`). -/
structure Closed (S : Store) (α : Nat → Bool) (ρ : Key → Bool) : Prop where
  tt : ρ (some 0) = true
  lit : ∀ (k : Int) id g e nm, k ≠ 0 → S.nodes[k.natAbs - 1]? = some (.atom id g e nm) →
    (if k < 0 then !α k.natAbs else α k.natAbs) = true → ρ (some k) = true
  conj : ∀ (k : Int) cs nm, 0 < k → S.nodes[k.natAbs - 1]? = some (.conj cs nm) →
    (∀ c ∈ cs, ρ c = true) → ρ (some k) = true
  disj : ∀ (k : Int) cs nm, 0 < k → S.nodes[k.natAbs - 1]? = some (.disj cs nm) →
    (∃ c ∈ cs, ρ c = true) → ρ (some k) = true

/-! ### stratified negation: reduct, stable model, stratification -/

/-- Gelfond–Lifschitz reduct of a child key w.r.t. a valuation `ν` of the node ids: a negative reference to a
    *compound* node is replaced by its truth value under `ν` (FALSE if `ν` makes the node true, TRUE otherwise);
    a dangling negative reference is TRUE (as in `cutEval`/`lfpEval`); everything else is kept. -/
def reductKey (S : Store) (ν : Nat → Bool) : Key → Key
  | none => none
  | some k =>
    if k < 0 then
      match S.nodes[k.natAbs - 1]? with
      | none => some 0
      | some (.atom ..) => some k
      | some (.conj ..) => if ν k.natAbs then none else some 0
      | some (.disj ..) => if ν k.natAbs then none else some 0
    else some k

def reductNode (S : Store) (ν : Nat → Bool) : Node → Node
  | .atom i g e n => .atom i g e n
  | .conj cs n => .conj (cs.map (reductKey S ν)) n
  | .disj cs n => .disj (cs.map (reductKey S ν)) n

/-- The reduct of the store: a `Positive` store (`positive_reduct`). -/
def reduct (S : Store) (ν : Nat → Bool) : Store := { S with nodes := S.nodes.map (reductNode S ν) }

/-- `ν` is a stable model of the store under the atom assignment `α`: it is the least model of its own reduct. -/
def StableModel (S : Store) (α : Nat → Bool) (ν : Nat → Bool) : Prop :=
  ∀ j : Nat, 0 < j → ν j = lfp (reduct S ν) α (some (j : Int))

/-- The valuation of the node ids computed by the cut evaluation. -/
def cutν (S : Store) (α : Nat → Bool) (j : Nat) : Bool := cutEval S α (S.nodes.length + 1) [] (some (j : Int))

/-- Child `c` of node `i` respects the level mapping: no child is on a higher level, and a negated compound child is on
    a strictly lower one. -/
def stratKey (S : Store) (lvl : Nat → Nat) (i : Nat) : Key → Bool
  | none => true
  | some k =>
    if k = 0 then true else
    decide (lvl k.natAbs ≤ lvl i) &&
      (if k < 0 then
        match S.nodes[k.natAbs - 1]? with
        | some (.conj ..) => decide (lvl k.natAbs < lvl i)
        | some (.disj ..) => decide (lvl k.natAbs < lvl i)
        | _ => true
       else true)

/-- `lvl` is a stratification of the store (executable check). -/
def stratifiedBy (S : Store) (lvl : Nat → Nat) : Bool :=
  (List.range S.nodes.length).all (fun j =>
    match S.nodes[j]? with
    | some (.conj cs _) => cs.all (stratKey S lvl (j + 1))
    | some (.disj cs _) => cs.all (stratKey S lvl (j + 1))
    | _ => true)

abbrev Stratified (S : Store) (lvl : Nat → Nat) : Prop := stratifiedBy S lvl = true

/-- No cycle passes through a negative edge to a compound node ⇔ a stratification exists. -/
def NoNegCycle (S : Store) : Prop := ∃ lvl, Stratified S lvl

end ProbLogModel.Cycles
