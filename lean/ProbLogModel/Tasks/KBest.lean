/-
Model of the k-best evaluator (`problog/kbest.py`) and of the partial weighted CNF it gives to the MaxSAT solver
(`CNF._contents(partial=True, weighted=int, smart_constraints=True)`, cnf_formula.py:197-301; `from_partial`, :303-330).

Every variable `a` of the CNF is split in `pt(a) = 2a-1` ("possibly true") and `ct(a) = 2a` ("certainly true"); a solver
answer is a three-valued assignment: `a` is certainly true if `ct(a)`, certainly false if `¬pt(a)`, unknown otherwise.
The MaxSAT solver is not modelled: `Border.update` takes its answer as an input.
-/
import ProbLogModel.Tasks.MPE
namespace ProbLogModel.KBest
open ProbLogModel.Clark ProbLogModel.MPE

/-- `ct = lambda i: 2 * i` -/
def ct (i : Nat) : Nat := 2 * i
/-- `pt = lambda i: ct(i) - 1` -/
def pt (i : Nat) : Nat := 2 * i - 1
/-- `cpt = lambda i: -pt(-i) if i < 0 else ct(i)`: the literal "l is certainly true" -/
def cpt (l : Int) : Int := if l < 0 then -((pt l.natAbs : Nat) : Int) else ((ct l.natAbs : Nat) : Int)

/-- hard clause for an ordinary clause `head ∨ body` (cnf_formula.py:263-272): the head only needs to be possible
    (positive head) / not certain (negative head), the body literals must be certain. -/
def partialLits (head : Int) (body : List Int) : Clause :=
  (if head < 0 then [-((ct head.natAbs : Nat) : Int), -((pt head.natAbs : Nat) : Int)]
   else [((ct head.natAbs : Nat) : Int), ((pt head.natAbs : Nat) : Int)]) ++ body.map cpt

/-- a clause of Clark's completion is stored as `[head] + body` -/
def partialOfClause : Clause → Clause
  | [] => []
  | h :: body => partialLits h body

/-- accumulated output of `_contents`: current number of variables and the clauses (weight first) -/
structure PState where
  nvars : Nat
  out : List (Int × Clause)
  deriving Repr, Inhabited

inductive PErr where
  | noneHead          -- `head < 0` with head None: TypeError in Python
  deriving Repr

/-- one stored clause (cnf_formula.py:259-286) -/
def partialClause (smart : Bool) (top : Int) (st : PState) (c : RawClause) : Except PErr PState :=
  match c.head with
  | .none => .error .noneHead
  | .lit h => .ok { st with out := st.out ++ [(top, partialLits h c.body)] }
  | .bool hb =>
    if smart && !hb then
      let ind : Int := ((st.nvars + 1 : Nat) : Int)
      let per := c.body.flatMap (fun b => [(top, [-((ct b.natAbs : Nat) : Int), ind]), (top, [((pt b.natAbs : Nat) : Int), ind])])
      let v := c.body.flatMap (fun b => [((ct b.natAbs : Nat) : Int), -((pt b.natAbs : Nat) : Int)])
      .ok { nvars := st.nvars + 1, out := st.out ++ per ++ [(top, v ++ [-ind]), (top, c.body.map cpt ++ [-ind])] }
    else .ok { st with out := st.out ++ [(top, c.body.map cpt)] }

/-- per-atom clauses (cnf_formula.py:248-257): `pt ∨ ¬ct` and the soft clauses for the weights -/
def atomClauses (invert : Bool) (top : Int) (ws : List (Nat × LogW × LogW)) (hasW : Bool) (a : Nat) : List (Int × Clause) :=
  let w := lookupLW ws a
  [(top, [((pt a : Nat) : Int), -((ct a : Nat) : Int)])] ++
  (if hasW then
    (if isOneLog w.1 then [] else [(-(wt invert w.1), [-((ct a : Nat) : Int)])]) ++
    (if isOneLog w.2 then [] else [(-(wt invert w.2), [((pt a : Nat) : Int)])])
   else [])

structure PWCNF where
  nvars : Nat
  top : Option Int
  clauses : List (Int × Clause)
  deriving Repr, Inhabited

/-- `_contents(partial=True, weighted=int|False, smart_constraints=smart)` -/
def partialContents (weighted smart invert : Bool) (atomcount : Nat) (clauses : List RawClause)
    (ws : List (Nat × LogW × LogW)) : Except PErr PWCNF := do
  let top : Int := if weighted then topWeight ws else 0
  let pre := ((List.range atomcount).map (· + 1)).flatMap (atomClauses invert top ws weighted)
  let st ← clauses.foldlM (partialClause smart top) { nvars := 2 * atomcount, out := pre }
  .ok { nvars := st.nvars, top := if weighted then some top else none, clauses := st.out }

/-- `to_dimacs(partial=True, weighted=int, ...)` -/
def toDimacsP (w : PWCNF) : String :=
  match w.top with
  | some top =>
    "p wcnf " ++ toString w.nvars ++ " " ++ toString w.clauses.length ++ " " ++ toString top ++ "\n" ++
    "\n".intercalate (w.clauses.map (fun (k, cl) => " ".intercalate ((k :: cl).map toString) ++ " 0"))
  | none =>
    "p cnf " ++ toString w.nvars ++ " " ++ toString w.clauses.length ++ "\n" ++
    "\n".intercalate (w.clauses.map (fun (_, cl) => " ".intercalate (cl.map toString) ++ " 0"))

/-- `from_partial` (cnf_formula.py:303-330): certain literals of weighted atoms -/
def fromPartial (weighted : Nat → Bool) (sol : List Int) : List Int :=
  sol.filterMap (fun s =>
    if s % 2 = 1 ∧ s < 0 then
      let r := (s.natAbs + 1) / 2
      if weighted r then some (-(r : Int)) else none
    else if s % 2 = 0 ∧ 0 < s then
      let r := (s.natAbs + 1) / 2
      if weighted r then some (r : Int) else none
    else none)

/-- blocking clause for a solution: `ClauseConstraint([-x for x in solution])` added with `force=True`; its hard clause
    in the partial encoding is `map(cpt, body)` -/
def blockingRaw (s : List Int) : RawClause := ⟨.bool true, s.map (fun x => -x)⟩
def blockingLits (s : List Int) : Clause := (s.map (fun x => -x)).map cpt

/-- probability of a solution (kbest.py:238-245): product of the literal weights -/
def probOf (pw : Nat → Rat × Rat) (s : List Int) : Rat :=
  s.foldl (fun p l => p * (if l < 0 then (pw l.natAbs).2 else (pw l.natAbs).1)) 1

/-- `Border` (kbest.py:203-276): accumulated value, last improvement (`none` = complete), solutions found -/
structure Border where
  value : Rat
  improvement : Option Rat
  sols : List (List Int)
  deriving Repr, Inhabited

def Border.init : Border := ⟨0, some 1, []⟩

/-- `Border.update` given the solver's answer (`none` = UnsatisfiableError) -/
def Border.update (weighted : Nat → Bool) (pw : Nat → Rat × Rat) (bd : Border) : Option (List Int) → Border
  | none => { bd with improvement := none }
  | some raw =>
    let s := fromPartial weighted raw
    let p := probOf pw s
    { value := bd.value + p, improvement := some p, sols := s :: bd.sols }

/-- `max(lb, ub)` is `ub`: Python's `max` returns the first maximal element; `Border.__lt__/__eq__` (kbest.py:263-276) -/
def pickUpper (lb ub : Border) : Bool :=
  match ub.improvement, lb.improvement with
  | none, _ => false
  | some _, none => true
  | some u, some l => decide (l < u)

inductive KRes where
  | single (v : Rat)
  | interval (lo hi : Rat)
  deriving Repr, DecidableEq

/-- one decision of the loop: which border was updated, and the two improvements it was chosen on -/
abbrev Step := Bool × Option Rat × Option Rat

/-- `KBestEvaluator.evaluate` for a proper node (kbest.py:117-173). `oracle upper bd` is the solver's answer for the
    border's current WCNF; `fuel` bounds the number of solver calls (running out = KeyboardInterrupt).
    Returns the result and the sequence of decisions. -/
def evalLoop (weighted : Nat → Bool) (pw : Nat → Rat × Rat) (conv : Rat) (lowerOnly : Bool)
    (oracle : Bool → Border → Option (List Int)) : Nat → Border → Border → KRes × List Step
  | 0, lb, ub => (.interval lb.value (1 - ub.value), [])
  | fuel + 1, lb, ub =>
    let up := !lowerOnly && pickUpper lb ub
    let st : Step := (up, lb.improvement, ub.improvement)
    if up then
      if ub.improvement.isNone then (.interval lb.value (1 - ub.value), []) else
      let ub' := ub.update weighted pw (oracle true ub)
      if ub'.improvement.isNone then (.single (1 - ub'.value), [st])
      else if 1 - conv < ub'.value + lb.value then (.interval lb.value (1 - ub'.value), [st])
      else
        let r := evalLoop weighted pw conv lowerOnly oracle fuel lb ub'
        (r.1, st :: r.2)
    else
      if lb.improvement.isNone then (.interval lb.value (1 - ub.value), []) else
      let lb' := lb.update weighted pw (oracle false lb)
      if lb'.improvement.isNone then (.single lb'.value, [st])
      else if 1 - conv < ub.value + lb'.value then (.interval lb'.value (1 - ub.value), [st])
      else
        let r := evalLoop weighted pw conv lowerOnly oracle fuel lb' ub
        (r.1, st :: r.2)

end ProbLogModel.KBest
