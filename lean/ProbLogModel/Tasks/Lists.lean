/-!
# Model of the weighted-selection predicates of `problog/library/lists.pl` (lines 67-92)

```
select_uniform(ID, Values, Value, Rest) :- length(Values, Len), Len > 0, Weight is 1/Len,
    make_list(Len, Weight, Weights), select_weighted(ID, Weights, Values, Value, Rest).
select_weighted(ID, Weights, Values, Value, Rest) :- sum_list(Weights,Total), Total > 0,
    sw(ID, Total, Weights, Values, Value, Rest).
select_weighted(ID, WeightsValues, Value, Rest) :- unzip(WeightsValues,Weights,Values),
    select_weighted(ID, Weights, Values, Value, Rest).
P::sw_p(ID,P,_,_,_).
sw(ID,PW,[W|WT],[X|[]],X,[]).
sw(ID,PW,[W|WT],[X|XT],X,XT) :- XT \= [], W1 is W/PW, sw_p(ID,W1,WT,X,XT).
sw(ID,PW,[W|WT],[X|XT],Y,[X|RT]) :- XT \= [], W1 is W/PW, not sw_p(ID,W1,WT,X,XT), PW1 is PW-W, sw(ID,PW1,WT,XT,Y,RT).
```

The clauses are hand-translated into a function into finite distributions.  The identity of each probabilistic fact
`sw_p(ID,W1,WT,X,XT)` (all five arguments) is explicit: a *world* records the facts decided so far, a fact is decided at
most once (distribution semantics), so two calls that consult the same fact see the same truth value.
Core Lean only (the driver links this file).
-/
namespace ProbLogModel.Tasks.Lists

abbrev Val := Int

/-- A ground instance of `P::sw_p(ID,P,_,_,_)` (lists.pl:83): identified by all five arguments; probability `p`. -/
structure Key where
  id : Nat
  p : Rat
  wt : List Rat
  x : Val
  xt : List Val
  deriving DecidableEq, Repr

/-- The probabilistic facts decided so far. -/
abbrev World := List (Key × Bool)

/-- Finite distribution: outcomes with weights. -/
abbrev Dist (α : Type) := List (α × Rat)

def lookupFact (w : World) (k : Key) : Option Bool := (w.find? (fun e => e.1 == k)).map (·.2)

/-- An answer of `sw/6` / `select_weighted`: the chosen position (bookkeeping), the value, the remaining list. -/
structure Sel where
  pos : Nat
  value : Val
  rest : List Val
  deriving DecidableEq, Repr

/-- answers of the recursive call of clause 3: `Y` unchanged, `Rest = [X|RT]`, weight multiplied -/
def shift (x : Val) (q : Rat) (d : Dist (Sel × World)) : Dist (Sel × World) :=
  d.map (fun e => ((⟨e.1.1.pos + 1, e.1.1.value, x :: e.1.1.rest⟩, e.1.2), q * e.2))

/-- `sw(ID,PW,Weights,Values,Value,Rest)` (lists.pl:85-92) in world `w`.
    `none` = arithmetic error (`W1 is W/PW` with `PW = 0`); `some []` = the goal fails. -/
def sw (id : Nat) : Rat → List Rat → List Val → World → Option (Dist (Sel × World))
  | _, [], _, _ => some []                                   -- no clause has an empty weight list
  | _, _ :: _, [], _ => some []                              -- … nor an empty value list
  | _, _ :: _, [x], w => some [((⟨0, x, []⟩, w), 1)]         -- clause 1: the last element is always selected
  | pw, wgt :: wt, x :: y :: ys, w =>                        -- clauses 2 and 3 (`XT \= []`)
    if pw = 0 then none
    else
      let k : Key := ⟨id, wgt / pw, wt, x, y :: ys⟩          -- `W1 is W/PW`, fact `sw_p(ID,W1,WT,X,XT)`
      match lookupFact w k with
      | some true => some [((⟨0, x, y :: ys⟩, w), 1)]                              -- clause 2 only
      | some false => (sw id (pw - wgt) wt (y :: ys) w).map (shift x 1)            -- clause 3 only
      | none =>                                                                    -- the fact is decided now
        match sw id (pw - wgt) wt (y :: ys) ((k, false) :: w) with
        | none => none
        | some r => some (((⟨0, x, y :: ys⟩, (k, true) :: w), k.p) :: shift x (1 - k.p) r)

/-- `sum_list/2` -/
def sumList (ws : List Rat) : Rat := ws.foldl (· + ·) 0

/-- `select_weighted/5` (lists.pl:75-78): fails unless `Total > 0`. -/
def selectWeighted (id : Nat) (ws : List Rat) (xs : List Val) (w : World) : Option (Dist (Sel × World)) :=
  let total := sumList ws
  if 0 < total then sw id total ws xs w else some []

/-- `select_weighted/4` (lists.pl:79-81): a list of `(Weight, Value)` pairs. -/
def selectWeighted4 (id : Nat) (wxs : List (Rat × Val)) (w : World) : Option (Dist (Sel × World)) :=
  selectWeighted id (wxs.map (·.1)) (wxs.map (·.2)) w

/-- `select_uniform/4` (lists.pl:67-73). -/
def selectUniform (id : Nat) (xs : List Val) (w : World) : Option (Dist (Sel × World)) :=
  let len := xs.length
  if 0 < len then selectWeighted id (List.replicate len (1 / (len : Rat))) xs w else some []

/-- total weight of the outcomes satisfying `f` -/
def mass {α : Type} : Dist α → (α → Bool) → Rat
  | [], _ => 0
  | e :: d, f => (if f e.1 then e.2 else 0) + mass d f

/-- Two calls in sequence (conjunction `call1, call2`): the second runs in the world left by the first. -/
def seq2 (c1 c2 : World → Option (Dist (Sel × World))) (w : World) : Option (Dist ((Sel × Sel) × World)) :=
  match c1 w with
  | none => none
  | some d1 =>
    d1.foldr (fun e acc =>
      match acc, c2 e.1.2 with
      | some acc, some d2 => some (d2.map (fun e2 => (((e.1.1, e2.1.1), e2.1.2), e.2 * e2.2)) ++ acc)
      | _, _ => none) (some [])

end ProbLogModel.Tasks.Lists
