/-
Model of the M-step of learning from interpretations:
  problog/learning/lfi.py  `LFIProblem._update` (:843-918), `_normalize_weights` (:920-946), `_set_weight` (:260-277)
The E-step (`_evaluate_examples`: compilation and evaluation of every example) is NOT modelled: its output — per group
of identical examples the multiplicity `m`, the probability of the evidence and the conditional probabilities of the
`lfi_body(i, t(..), ..)` / `lfi_par(i, t(..), ..)` queries, in dictionary order — is the input of this model.
The logarithms (`log_likelihood`, `convergence_score`) are not computed here; the model returns the terms they are
sums of.  Python exceptions are explicit constructors of `Err`.
-/
namespace ProbLogModel.LFI

/-- `(fact.args[0], fact.args[1])`: the number of the learnable fact (a negative number for the "complement variable"
    `-1 - i` that `verify_ad` installs for a fact that is not in an AD, :222-230) and the `t(..)` term (numbered). -/
abbrev Index := Int × Nat

abbrev Assoc := List (Index × Rat)

/-- `d.get(i)` on an insertion-ordered dict (keys are unique) -/
def aget : Assoc → Index → Option Rat
  | [], _ => none
  | e :: l, i => if e.1 == i then some e.2 else aget l i

/-- `d[i] = v` on an insertion-ordered dict: an existing key keeps its position, a new key goes to the end -/
def aset : Assoc → Index → Rat → Assoc
  | [], i, v => [(i, v)]
  | e :: l, i, v => if e.1 == i then (i, v) :: l else e :: aset l i v

/-- `d[i] += v` on a `defaultdict(int)` -/
def aadd (l : Assoc) (i : Index) (v : Rat) : Assoc :=
  match aget l i with
  | some x => aset l i (x + v)
  | none => l ++ [(i, v)]

inductive Err where
  | keyError         -- `par_marg[(o_index, ..)] += value` on a missing key (:861)
  | zeroDivision     -- `float(fact_body[index]) / float(fact_par[index])` with an empty parent count (:894)
  deriving Repr, Inhabited, DecidableEq

/-- one `(fact, value)` item of a result dictionary -/
structure Entry where
  isBody : Bool          -- functor `lfi_body` (true) or `lfi_par` (false)
  idx : Nat
  key : Nat
  value : Rat
  deriving Repr, Inhabited

structure Result where
  m : Rat                -- number of identical examples
  pEvidence : Rat
  entries : List Entry
  deriving Repr, Inhabited

/-- `par_marg` bookkeeping for one `lfi_par` item (:856-866): the value is also added to (first time: stored for) every
    other atom of the same annotated disjunction (`_adatomc`). -/
def parStep (adc : Nat → List Int) (pm : Assoc) (e : Entry) : Except Err Assoc :=
  let index : Index := (Int.ofNat e.idx, e.key)
  match aget pm index with
  | some x =>
    (adc e.idx).foldlM (fun (pm : Assoc) (o : Int) =>
      match aget pm (o, e.key) with
      | some y => pure (aset pm (o, e.key) (y + e.value))
      | none => throw Err.keyError) (aset pm index (x + e.value))
  | none =>
    pure ((adc e.idx).foldl (fun (pm : Assoc) (o : Int) => aset pm (o, e.key) e.value) (aset pm index e.value))

/-- the body of the loop over `results` (:850-873) without the logarithm -/
def resultStep (adc : Nat → List Int) (acc : Assoc × Assoc) (r : Result) : Except Err (Assoc × Assoc) := do
  let fb := (r.entries.filter (·.isBody)).foldl (fun fb e => aadd fb (Int.ofNat e.idx, e.key) (e.value * r.m)) acc.1
  let pm ← (r.entries.filter (fun e => !e.isBody)).foldlM (parStep adc) []
  let fp := pm.foldl (fun fp (p : Index × Rat) => aadd fp p.1 (p.2 * r.m)) acc.2
  pure (fb, fp)

def tiny : Rat := 1 / 1000000000000000      -- `10**-15`

/-- `prob` (:889-894) -/
def ratio (b p : Rat) : Except Err Rat :=
  if b ≤ tiny then pure 0 else if p = 0 then throw Err.zeroDivision else pure (b / p)

/-- expected counts `(fact_body, fact_par)` after all results -/
def counts (adc : Nat → List Int) (results : List Result) : Except Err (Assoc × Assoc) :=
  results.foldlM (resultStep adc) ([], [])

/-- `_update` up to normalisation: the new weight of every index of `fact_body`, in `update_list` order. -/
def update (adc : Nat → List Int) (results : List Result) : Except Err Assoc := do
  let (fb, fp) ← counts adc results
  fb.mapM (fun (e : Index × Rat) => do
    let p ← ratio e.2 ((aget fp e.1).getD 0)
    pure (e.1, p))

/-- weights as a table `(fact, key) ↦ value`; `_get_weight(i, key, strict=False)` is 0.0 for a missing key -/
def wget (ws : Assoc) (i : Nat) (key : Nat) : Rat := (aget ws (Int.ofNat i, key)).getD 0

/-- `_normalize_weights` for one annotated disjunction and one key (:933-946) -/
def normalizeKey (avail : Rat) (idx : List Nat) (ws : Assoc) (key : Nat) : Assoc :=
  let w := (idx.map (fun i => wget ws i key)).foldl (· + ·) 0
  let n := if w != 0 then avail / w else avail
  idx.foldl (fun acc (i : Nat) => aset acc (Int.ofNat i, key) (wget ws i key * n)) ws

/-- `_normalize_weights` (:920-946): `adatoms` = `self._adatoms`, `keysOf i` = the keys of `get_weights(i)`. -/
def normalize (adatoms : List (Rat × List Nat)) (keysOf : Nat → List Nat) (ws : Assoc) : Assoc :=
  adatoms.foldl (fun ws (ad : Rat × List Nat) =>
    if ad.2.length == 1 then ws
    else ((ad.2.flatMap keysOf).eraseDups).foldl (fun ws key => normalizeKey ad.1 ad.2 ws key) ws) ws

/-- install the new weights (`_set_weight`, each index is set once per `_update`) -/
def install (ws : Assoc) (new : Assoc) : Assoc := new.foldl (fun ws e => aset ws e.1 e.2) ws

/-- one `_update(results)` with `normalize=True` / `False` -/
def step (adc : Nat → List Int) (adatoms : List (Rat × List Nat)) (normalizeOn : Bool) (ws : Assoc)
    (results : List Result) : Except Err Assoc := do
  let new ← update adc results
  let ws := install ws new
  let keysOf (i : Nat) : List Nat := (ws.filter (fun e => e.1.1 == Int.ofNat i)).map (·.1.2)
  pure (if normalizeOn then normalize adatoms keysOf ws else ws)

end ProbLogModel.LFI
