/-
C25: reader for the DIMACS text written by `CNF.to_dimacs()` (cnf_formula.py:88-130, plain `p cnf`; the writer is
modelled by `Clark.toDimacs`).  The reader is the usual one: the header line `p cnf <vars> <clauses>`, then one clause
per line, literals separated by blanks and terminated by `0`.
-/
import ProbLogModel.Clark
namespace ProbLogModel.Export
open ProbLogModel.Clark

/-- integer tokens of a line (tokens that are not integers, e.g. the empty token, are skipped) -/
def lineInts (ln : List Char) : List Int :=
  (ln.splitOn ' ').filterMap (fun tok => (String.ofList tok).toInt?)

/-- a clause line: the literals before the terminating `0` -/
def parseClause (ln : List Char) : Clause := (lineInts ln).takeWhile (fun k => k != 0)

/-- number of variables announced by the header `p cnf <vars> <clauses>` -/
def headerVars (hd : List Char) : Nat :=
  match (hd.splitOn ' ')[2]? with
  | some tok => ((String.ofList tok).toNat?).getD 0
  | none => 0

/-- `(number of variables, clauses)` of a DIMACS text; empty lines and comment lines (`c ...`) are skipped -/
def readDimacs (s : String) : Nat × List Clause :=
  match s.toList.splitOn '\n' with
  | [] => (0, [])
  | hd :: rest =>
    (headerVars hd, (rest.filter (fun ln => !ln.isEmpty && ln.head? != some 'c')).map parseClause)

end ProbLogModel.Export
