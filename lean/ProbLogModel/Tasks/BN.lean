/-
Model of the Bayesian-network construction of `problog bn`:
  problog/tasks/bayesnet.py  `clause_to_cpt` (:121-205), `formula_to_bn` (:207-241), `term_to_atoms` (:48-63),
                             `term_to_bool` (:66-118)
  problog/pgm/cpd.py         `PGM.add_factor` (:220-233), `OrCPT` (:1017-1060)
The input is the list of ground clauses that `LogicFormula.enum_clauses` hands to `clause_to_cpt` (the extraction of
that list from the ground formula is NOT modelled here).  Atoms are numbered by the harness (injective on names).
Python exceptions are explicit constructors of `Err`.
-/
namespace ProbLogModel.BN

/-- A clause body as printed by `get_body`: `And`/`Or`/`Not` over atom names.  `Not` is only modelled over an atom
    (`term_to_atoms` appends `term.child` unrecursed, bayesnet.py:59-60; the harness keeps compound negations out). -/
inductive Body where
  | atom (a : Nat)
  | neg (a : Nat)
  | and (l r : Body)
  | or (l r : Body)
  deriving Repr, Inhabited

/-- `term_to_atoms` (bayesnet.py:48-63): the atoms in left-to-right order, duplicates kept. -/
def Body.atoms : Body → List Nat
  | .atom a => [a]
  | .neg a => [a]
  | .and l r => l.atoms ++ r.atoms
  | .or l r => l.atoms ++ r.atoms

/-- `term_to_bool` (bayesnet.py:66-118) for a body all of whose atoms have a truth value (the `None` branches are
    unreachable from `clause_to_cpt`, which assigns every atom of `term_to_atoms`). -/
def Body.eval (tv : Nat → Bool) : Body → Bool
  | .atom a => tv a
  | .neg a => !tv a
  | .and l r => l.eval tv && r.eval tv
  | .or l r => l.eval tv || r.eval tv

/-- `dict(zip(parents, keys))[a]` (bayesnet.py:147): with duplicate parents the last position wins. -/
def lookupLast : List Nat → List Bool → Nat → Bool
  | p :: ps, k :: ks, a =>
    if ps.contains a then lookupLast ps ks a else if p == a then k else lookupLast ps ks a
  | _, _, _ => false

/-- `itertools.product([False, True], repeat=n)` (bayesnet.py:146): first position varies slowest. -/
def keys : Nat → List (List Bool)
  | 0 => [[]]
  | n + 1 => (keys n).map (false :: ·) ++ (keys n).map (true :: ·)

/-- Which branch of `clause_to_cpt` handles the clause: `Clause` (:124), `Or` (:169), `Term` (:187). -/
inductive Kind where
  | clause | orFact | termFact
  deriving Repr, Inhabited, DecidableEq

structure GClause where
  kind : Kind
  /-- head atoms with their annotation (`none`: no probability) -/
  heads : List (Nat × Option Rat)
  /-- body (only read for `Kind.clause`) -/
  body : Option Body
  deriving Repr, Inhabited

inductive Err where
  | attributeError      -- `head.probability.compute_value()` on `None` (:172, :192)
  | noBody              -- a `Clause` without body: not produced by `enum_clauses`
  deriving Repr, Inhabited, DecidableEq

/-- The CPT of a choice node `c<k>`: parents (atom ids, in order), number of values, one row per parent key. -/
structure ChoiceCpt where
  parents : List Nat
  nvals : Nat
  rows : List (List Bool × List Rat)
  deriving Repr, Inhabited

/-- The PGM: choice-node CPTs by clause number, and the `OrCPT` of every head atom in insertion order
    (`PGM.factors` is an `OrderedDict`; `add_factor` merges factors of the same variable with `+=`, cpd.py:230). -/
structure Net where
  choices : List ChoiceCpt
  ors : List (Nat × List (Nat × Nat))
  deriving Repr, Inhabited

/-- `probs_heads` (:139-143 for `Clause`: a head without annotation counts as 1.0; :172, :192 otherwise). -/
def headProbs (c : GClause) : Except Err (List Rat) :=
  match c.kind with
  | .clause => pure (c.heads.map (fun h => h.2.getD 1))
  | _ => c.heads.mapM (fun h => match h.2 with
    | some p => pure p
    | none => throw Err.attributeError)

def sumL : List Rat → Rat
  | [] => 0
  | x :: xs => x + sumL xs

/-- `probs = [1.0 - sum(probs_heads)] + probs_heads` (:144, :173, :193). -/
def probsRow (ps : List Rat) : List Rat := (1 - sumL ps) :: ps

/-- `[1.0] + [0.0] * len(heads)` (:155, :159). -/
def offRow (n : Nat) : List Rat := 1 :: List.replicate n 0

/-- The choice-node table (:145-159 / :173-176 / :193-196). -/
def choiceCpt (c : GClause) (ps : List Rat) : Except Err ChoiceCpt :=
  match c.kind, c.body with
  | .clause, some b =>
    let parents := b.atoms
    pure { parents := parents, nvals := ps.length + 1,
           rows := (keys parents.length).map (fun ks =>
             (ks, if b.eval (lookupLast parents ks) then probsRow ps else offRow ps.length)) }
  | .clause, none => throw Err.noBody
  | _, _ => pure { parents := [], nvals := ps.length + 1, rows := [([], probsRow ps)] }

/-- `pgm.add_factor(OrCPT(pgm, rv, [(rv_cn, idx + 1)]))` (:164-167): a second factor for the same head is merged by
    `OrCPT.__add__` (parentvalues concatenated; the position in the ordered dict is kept). -/
def addOr (ors : List (Nat × List (Nat × Nat))) (a : Nat) (pv : List (Nat × Nat)) : List (Nat × List (Nat × Nat)) :=
  if ors.any (fun e => e.1 == a) then ors.map (fun e => if e.1 == a then (e.1, e.2 ++ pv) else e)
  else ors ++ [(a, pv)]

/-- The head indices `enumerate(heads)`. -/
def addHeads (ors : List (Nat × List (Nat × Nat))) (k : Nat) : List Nat → Nat → List (Nat × List (Nat × Nat))
  | [], _ => ors
  | h :: hs, idx => addHeads (addOr ors h [(k, idx + 1)]) k hs (idx + 1)

/-- `clause_to_cpt(clause, number, pgm)`; the number of the clause is the number of choice nodes so far. -/
def clauseToCpt (net : Net) (c : GClause) : Except Err Net := do
  let ps ← headProbs c
  let cpt ← choiceCpt c ps
  pure { choices := net.choices ++ [cpt],
         ors := addHeads net.ors net.choices.length (c.heads.map (·.1)) 0 }

/-- `formula_to_bn` (:207-241). -/
def ofClauses (cs : List GClause) : Except Err Net :=
  cs.foldlM clauseToCpt { choices := [], ors := [] }

/-! ## The joint distribution: product of all CPT entries -/

/-- value of an atom variable in the assignment `bits` (aligned with `net.ors`); atoms without a factor are false -/
def atomVal (ors : List (Nat × List (Nat × Nat))) (bits : List Bool) (a : Nat) : Bool :=
  match ors, bits with
  | e :: es, b :: bs => if e.1 == a then b else atomVal es bs a
  | _, _ => false

/-- CPT entry `P(c = v | parents)`; a missing row or value counts 0 -/
def ChoiceCpt.entry (c : ChoiceCpt) (av : Nat → Bool) (v : Nat) : Rat :=
  match c.rows.find? (fun r => r.1 == c.parents.map av) with
  | some r => r.2.getD v 0
  | none => 0

/-- `OrCPT.to_factor` (cpd.py:1033-1047): true iff some `(parent, value)` of `parentvalues` matches. -/
def orVal (cv : List Nat) (pv : List (Nat × Nat)) : Bool :=
  pv.any (fun p => cv[p.1]? == some p.2)

def prodL : List Rat → Rat
  | [] => 1
  | x :: xs => x * prodL xs

/-- product of the choice-node entries -/
def choiceWeight (cs : List ChoiceCpt) (av : Nat → Bool) (cv : List Nat) : Rat :=
  prodL (List.zipWith (fun c v => c.entry av v) cs cv)

/-- The atom values forced by the choice values: every atom is the OR of its `(parent, value)` list. -/
def detBits (ors : List (Nat × List (Nat × Nat))) (cv : List Nat) : List Bool := ors.map (fun e => orVal cv e.2)

/-- Row of the table built by `OrCPT.to_factor` (cpd.py:1043-1046): `[0.0, 1.0]` if some parent value matches,
    else `[1.0, 0.0]`. -/
def orRow (isTrue : Bool) : List Rat := if isTrue then [0, 1] else [1, 0]

/-- entry of that row for the value `b` of the atom variable (values `[0, 1]`) -/
def orEntry (isTrue b : Bool) : Rat := (orRow isTrue).getD (if b then 1 else 0) 0

/-- product of the OrCPT entries of all atom variables -/
def orWeight (ors : List (Nat × List (Nat × Nat))) (cv : List Nat) (bits : List Bool) : Rat :=
  prodL (List.zipWith (fun b d => orEntry d b) bits (detBits ors cv))

/-- the joint probability of a full assignment (choice values `cv`, atom values `bits`) -/
def weight (net : Net) (cv : List Nat) (bits : List Bool) : Rat :=
  choiceWeight net.choices (atomVal net.ors bits) cv * orWeight net.ors cv bits

def allCv : List Nat → List (List Nat)
  | [] => [[]]
  | n :: ns => (List.range n).flatMap (fun v => (allCv ns).map (v :: ·))

/-- all full assignments restricted by `sel`, summed -/
def massWhere (net : Net) (sel : List Nat → List Bool → Bool) : Rat :=
  sumL ((allCv (net.choices.map (·.nvals))).map (fun cv =>
    sumL ((keys net.ors.length).map (fun bits => if sel cv bits then weight net cv bits else 0))))

def total (net : Net) : Rat := massWhere net (fun _ _ => true)

/-- marginal probability that atom `a` is true -/
def marginal (net : Net) (a : Nat) : Rat := massWhere net (fun _ bits => atomVal net.ors bits a)

/-- The same marginal with the atom variables eliminated: atoms are the deterministic OR of their parent values. -/
def marginalDet (net : Net) (a : Nat) : Rat :=
  sumL ((allCv (net.choices.map (·.nvals))).map (fun cv =>
    if atomVal net.ors (detBits net.ors cv) a
    then choiceWeight net.choices (atomVal net.ors (detBits net.ors cv)) cv else 0))

end ProbLogModel.BN
