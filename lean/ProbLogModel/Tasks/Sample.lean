/-!
# Model of `problog/tasks/sample.py`: `SampledFormula.add_atom`, `compute_probability`, the rejection loop

Sampling is a function of a stream of uniforms `u₁, u₂, … ∈ [0,1)` (the successive values of `random.random()`),
here a `List Rat` consumed from the head.  Probabilities are exact rationals (the harness passes the exact value of
the Python floats); Python's float rounding in `p / r` and `r - p` is outside the model.
Core Lean only (the driver links this file).
-/
namespace ProbLogModel.Tasks.Sample

/-- Identifier of an atom: a simple fact (`group is None`) or choice `idx` of the annotated disjunction `origin`
    (`origin = identifier[:-1]`, sample.py:232). -/
inductive Ident where
  | fact (id : Nat)
  | choice (origin : Nat) (idx : Nat)
  deriving DecidableEq, Repr

structure SState where
  /-- `self.facts`: identifier ↦ TRUE / FALSE -/
  facts : List (Ident × Bool) := []
  /-- `self.groups`: origin ↦ remaining probability mass; `none` ≙ Python `None` (a choice was made) -/
  groups : List (Nat × Option Rat) := []
  /-- `self.probability` -/
  prob : Rat := 1
  deriving Repr

def lookupFact (s : SState) (i : Ident) : Option Bool := (s.facts.find? (fun e => e.1 == i)).map (·.2)

/-- `self.groups[origin]` if present -/
def lookupGroup (s : SState) (o : Nat) : Option (Option Rat) := (s.groups.find? (fun e => e.1 == o)).map (·.2)

/-- `self.groups[origin] = v` (dictionary update: keys are unique) -/
def setGroup : List (Nat × Option Rat) → Nat → Option Rat → List (Nat × Option Rat)
  | [], o, v => [(o, v)]
  | e :: g, o, v => if e.1 == o then (o, v) :: g else e :: setGroup g o v

/-- The guard `r < 1e-8` (sample.py:241). -/
def guard : Rat := 1 / 100000000

inductive Res where
  /-- the value of the atom, the new state, the rest of the stream -/
  | ok (value : Bool) (s : SState) (us : List Rat)
  /-- the stream of uniforms is exhausted (harness error, not a behaviour of the code) -/
  | noMoreUniforms
  deriving Repr

/-- `add_atom` for a simple fact with a numeric probability (sample.py:210-229). -/
def addFact (s : SState) (id : Nat) (p : Rat) (us : List Rat) : Res :=
  match lookupFact s (.fact id) with
  | some v => .ok v s us                                        -- `return self.facts[identifier]`
  | none =>
    match us with
    | [] => .noMoreUniforms
    | u :: us' =>
      let value := decide (u < p)                                -- `value = p < prob` (p = random.random())
      let prob' := if value then s.prob * p else s.prob * (1 - p)
      .ok value { s with facts := s.facts ++ [(.fact id, value)], prob := prob' } us'

/-- `r = self.groups[origin]` if `origin in self.groups` else `1.0` (sample.py:236-239); `none` ≙ Python `None`. -/
def remaining (s : SState) (origin : Nat) : Option Rat :=
  match lookupGroup s origin with
  | some r => r
  | none => some 1

/-- sample.py:241-245: `if r is None or r < 1e-8: value = False` (no draw) `else: value = random.random() <= p / r`.
    `none` = the stream of uniforms is exhausted. -/
def drawChoice (r : Option Rat) (p : Rat) (us : List Rat) : Option (Bool × List Rat) :=
  match r with
  | none => some (false, us)
  | some r =>
    if r < guard then some (false, us)
    else match us with
      | [] => none
      | u :: us' => some (decide (u ≤ p / r), us')

/-- sample.py:246-256, 261: the state after the choice got `value`. -/
def afterChoice (s : SState) (origin idx : Nat) (p : Rat) (r : Option Rat) (value : Bool) : SState :=
  { facts := s.facts ++ [(.choice origin idx, value)],
    groups :=
      if value then setGroup s.groups origin none              -- other choices in the group are not allowed
      else match r with
        | some r => setGroup s.groups origin (some (r - p))    -- adjust the remaining probability
        | none => s.groups,
    prob := if value then s.prob * p else s.prob }

/-- `add_atom` for choice `idx` of the annotated disjunction `origin` (sample.py:231-264). -/
def addChoice (s : SState) (origin idx : Nat) (p : Rat) (us : List Rat) : Res :=
  match lookupFact s (.choice origin idx) with
  | some v => .ok v s us
  | none =>
    match drawChoice (remaining s origin) p us with
    | none => .noMoreUniforms
    | some (value, us') => .ok value (afterChoice s origin idx p (remaining s origin) value) us'

/-- `add_evidence_atom` (proposed fix `repo_patches/C22_propagate_evidence_ad.diff`): the value of an atom that is
    determined by the evidence is fixed without sampling; for a false choice of an annotated disjunction the remaining
    mass of the group is reduced by its probability, so that the other choices are drawn given that it is false.
    (`self.facts[identifier] = …` overwrites: the new entry is put in front.) -/
def addEvidence (s : SState) (i : Ident) (value : Bool) (p : Rat) : SState :=
  match i with
  | .fact _ => { s with facts := (i, value) :: s.facts }
  | .choice origin _ =>
    { s with
      facts := (i, value) :: s.facts,
      groups :=
        if value then setGroup s.groups origin none
        else match remaining s origin with
          | some r => setGroup s.groups origin (some (r - p))
          | none => s.groups }

/-- `compute_probability` (sample.py:266-270): multiply by the remaining mass of every group without a choice. -/
def computeProbability (s : SState) : SState :=
  { s with prob := s.groups.foldl (fun acc e => match e.2 with | some p => acc * p | none => acc) s.prob,
           groups := [] }

/-! ## One annotated disjunction, sampled head by head on a fresh group -/

/-- Sample the heads `ps` (choice indices `i, i+1, …`) of group `origin` in order; returns the index of the head that was
    chosen (if any), the state and the rest of the stream. -/
def sampleHeads (origin : Nat) : (ps : List Rat) → (i : Nat) → SState → List Rat → Option (Option Nat × SState × List Rat)
  | [], _, s, us => some (none, s, us)
  | p :: ps, i, s, us =>
    match addChoice s origin i p us with
    | .noMoreUniforms => none
    | .ok v s' us' =>
      match sampleHeads origin ps (i + 1) s' us' with
      | none => none
      | some (c, s'', us'') => some (if v then some i else c, s'', us'')

/-! ## Rejection on evidence (sample.py:537-555): candidates are drawn until one satisfies the evidence -/

/-- Finite distribution. -/
abbrev Dist (α : Type) := List (α × Rat)

def mass {α : Type} : Dist α → (α → Bool) → Rat
  | [], _ => 0
  | e :: d, f => (if f e.1 then e.2 else 0) + mass d f

/-- Law of the sample returned by at most `n` rounds of "draw a world from `D`, accept it if `ev` holds";
    `none` = all `n` candidates were rejected. -/
def rejection {α : Type} (D : Dist α) (ev : α → Bool) : Nat → Dist (Option α)
  | 0 => [(none, 1)]
  | n + 1 =>
    (D.filter (fun e => ev e.1)).map (fun e => (some e.1, e.2)) ++
      (rejection D ev n).map (fun e => (e.1, mass D (fun a => !ev a) * e.2))

/-- The rejection loop as a function of the stream of candidate worlds: the first one that satisfies the evidence. -/
def firstAccepted {α : Type} (ev : α → Bool) : List α → Option α
  | [] => none
  | a :: as => if ev a then some a else firstAccepted ev as

end ProbLogModel.Tasks.Sample
