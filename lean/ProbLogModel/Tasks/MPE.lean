/-
Model of the two MPE modes of `problog/tasks/mpe.py`.

* semiring mode: `SemiringMPEState` (mpe.py:305-342: value = (probability, set of literals), plus = max, times =
  product + union) evaluated by `FormulaEvaluatorNSP` (evaluator.py:616-700) on the `LogicNNF` that `mpe_semiring`
  (mpe.py:79-128) builds.  The evaluator memoises per node (`_computed_weights`); memoisation does not change values,
  so the model evaluates the unfolded tree (`unfold`).
* MaxSAT mode: the weighted, non-partial branch of `CNF._contents` (cnf_formula.py:197-301, `weighted=int`):
  `wt`, `w_min = -10000`, multiplier `10000`, top weight `w_max`, and `mpe_maxsat`'s read-back of the probability
  (mpe.py:193-221).

Sets of literals are lists (set semantics: the driver renders them sorted and duplicate free).
-/
import ProbLogModel.Clark
namespace ProbLogModel.MPE
open ProbLogModel.Clark

/-! ### `SemiringMPEState` -/

/-- a semiring value `(probability, set of literals)` -/
structure Val where
  p : Rat
  lab : List Int
  deriving Repr, Inhabited, DecidableEq

/-- `zero()` mpe.py:309 -/
def zero : Val := ⟨0, []⟩
/-- `one()` mpe.py:312 -/
def one : Val := ⟨1, []⟩

/-- `plus` mpe.py:315-321: the larger probability wins; on a tie the first argument's set. -/
def plus (a b : Val) : Val :=
  if b.p < a.p then a else if a.p < b.p then b else ⟨a.p, a.lab⟩

/-- `times` mpe.py:323-324 -/
def times (a b : Val) : Val := ⟨a.p * b.p, a.lab ++ b.lab⟩

/-- `plus` of `SemiringMinPEState` (mpe.py:349-360) -/
def plusMin (a b : Val) : Val :=
  if a.p = 0 then b else if b.p = 0 then a else if b.p < a.p then b else if a.p < b.p then a else ⟨a.p, a.lab⟩

/-! ### the NNF and `FormulaEvaluatorNSP` -/

/-- Unfolded `LogicNNF`: `lit l` is the (possibly negated) atom `|l|`; keys `0` / `None` are `tt` / `ff`. -/
inductive NNF where
  | tt
  | ff
  | lit (l : Int)
  | and (cs : List NNF)
  | or (cs : List NNF)
  deriving Repr, Inhabited

/-- fact weights after `propagate()`: atom ↦ (positive value, negative value) -/
abbrev Weights := Nat → Val × Val

/-- result of `get_weight`: the value and the set of atoms involved -/
structure Res where
  val : Val
  used : List Nat
  deriving Repr, Inhabited

/-- set union on duplicate-free lists -/
def unionU (a b : List Nat) : List Nat := a ++ b.filter (fun x => !a.contains x)

/-- union of a list of atom sets, accumulated from the left as the evaluator's loops do -/
def unionAll (us : List (List Nat)) : List Nat := us.foldl unionU []

/-- `all_used - cu` -/
def notUsed (all cu : List Nat) : List Nat := all.filter (fun x => !cu.contains x)

/-- `for nu in not_used: cp = times(cp, plus(get_weight(nu), get_weight(-nu)))` (evaluator.py:656-660, 690-694) -/
def smooth (pl : Val → Val → Val) (W : Weights) (cp : Val) (nu : List Nat) : Val :=
  nu.foldl (fun cp v => times cp (pl (W v).1 (W v).2)) cp

/-- conj branch of `compute_weight` (evaluator.py:676-682) -/
def andRes (rs : List Res) : Res :=
  rs.foldl (fun acc r => ⟨times acc.val r.val, unionU acc.used r.used⟩) ⟨one, []⟩

def allUsed (rs : List Res) : List Nat := unionAll (rs.map (·.used))

/-- disj branch of `compute_weight` (evaluator.py:683-696) -/
def orRes (pl : Val → Val → Val) (W : Weights) (rs : List Res) : Res :=
  let U := allUsed rs
  ⟨rs.foldl (fun p r => pl p (smooth pl W r.val (notUsed U r.used))) zero, U⟩

mutual
/-- `get_weight` / `compute_weight` of `FormulaEvaluatorNSP` on the unfolded formula -/
def NNF.eval (pl : Val → Val → Val) (W : Weights) : NNF → Res
  | .tt => ⟨one, []⟩
  | .ff => ⟨zero, []⟩
  | .lit l => ⟨if l < 0 then (W l.natAbs).2 else (W l.natAbs).1, [l.natAbs]⟩
  | .and cs => andRes (evalL pl W cs)
  | .or cs => orRes pl W (evalL pl W cs)
def evalL (pl : Val → Val → Val) (W : Weights) : List NNF → List Res
  | [] => []
  | c :: cs => c.eval pl W :: evalL pl W cs
end

/-- `FormulaEvaluatorNSP.evaluate` (evaluator.py:652-662): atoms with a fact weight that the query does not use are
    smoothed in; `result` of the MPE semirings is the identity. -/
def evalTop (pl : Val → Val → Val) (W : Weights) (allAtoms : List Nat) (φ : NNF) : Val :=
  let r := φ.eval pl W
  smooth pl W r.val (notUsed allAtoms r.used)

/-! ### semantics of the NNF (specification side) -/

mutual
def NNF.sat (m : Nat → Bool) : NNF → Bool
  | .tt => true
  | .ff => false
  | .lit l => if l < 0 then !(m l.natAbs) else m l.natAbs
  | .and cs => satAll m cs
  | .or cs => satAny m cs
def satAll (m : Nat → Bool) : List NNF → Bool
  | [] => true
  | c :: cs => c.sat m && satAll m cs
def satAny (m : Nat → Bool) : List NNF → Bool
  | [] => false
  | c :: cs => c.sat m || satAny m cs
end

mutual
/-- atoms of a formula (duplicate free) -/
def NNF.vars : NNF → List Nat
  | .tt => []
  | .ff => []
  | .lit l => [l.natAbs]
  | .and cs => unionAll (varsL cs)
  | .or cs => unionAll (varsL cs)
def varsL : List NNF → List (List Nat)
  | [] => []
  | c :: cs => c.vars :: varsL cs
end

def disjointU (a b : List Nat) : Bool := a.all (fun x => !b.contains x)

def pairDisjL : List (List Nat) → Bool
  | [] => true
  | u :: us => us.all (disjointU u) && pairDisjL us

mutual
/-- decomposable: the children of every conjunction mention pairwise disjoint sets of atoms -/
def NNF.dec : NNF → Bool
  | .tt => true
  | .ff => true
  | .lit _ => true
  | .and cs => decL cs && pairDisjL (varsL cs)
  | .or cs => decL cs
def decL : List NNF → Bool
  | [] => true
  | c :: cs => c.dec && decL cs
end

/-! ### unfolding a node array (children refer to earlier nodes) -/

inductive DNode where
  | atom
  | conj (cs : List (Option Int))
  | disj (cs : List (Option Int))
  deriving Repr, Inhabited

inductive UErr where
  | negCompound (k : Int)      -- `semiring.negate` is not defined for the MPE semirings (OperationNotSupported)
  | badRef (k : Int)
  | noWeight (v : Nat)
  deriving Repr

mutual
def unfoldKey (nodes : Array DNode) : Nat → Option Int → Except UErr NNF
  | _, none => .ok .ff
  | 0, some k => .error (.badRef k)
  | fuel + 1, some k =>
    if k = 0 then .ok .tt else
    match nodes[k.natAbs - 1]? with
    | none => .error (.badRef k)
    | some .atom => .ok (.lit k)
    | some (.conj cs) => if k < 0 then .error (.negCompound k) else (unfoldKeys nodes fuel cs).map NNF.and
    | some (.disj cs) => if k < 0 then .error (.negCompound k) else (unfoldKeys nodes fuel cs).map NNF.or
def unfoldKeys (nodes : Array DNode) : Nat → List (Option Int) → Except UErr (List NNF)
  | _, [] => .ok []
  | fuel, c :: cs => do
    let a ← unfoldKey nodes fuel c
    let r ← unfoldKeys nodes fuel cs
    .ok (a :: r)
end

def lookupW (ws : List (Nat × Val × Val)) : Weights := fun v =>
  match ws.find? (fun e => e.1 == v) with
  | some e => e.2
  | none => (one, one)

/-- `kc.evaluate(semiring)[query]` for the node array, the fact weights (in `extract_weights` order) and the query key.
    An atom without fact weight cannot occur (`extract_weights` covers every atom); the model reports it. -/
def runSemiring (pl : Val → Val → Val) (nodes : Array DNode) (ws : List (Nat × Val × Val)) (q : Option Int) :
    Except UErr Val := do
  let φ ← unfoldKey nodes (nodes.size + 1) q
  match φ.vars.find? (fun v => !(ws.any (fun e => e.1 == v))) with
  | some v => .error (.noWeight v)
  | none => .ok (evalTop pl (lookupW ws) (ws.map (·.1)) φ)

/-! ### weighted CNF (`CNF._contents`, non-partial, `weighted=int`) -/

/-- head of an entry of `CNF._clauses`: an integer literal, `None`, or a boolean (constraint clauses carry `force`) -/
inductive Head where
  | lit (k : Int)
  | none
  | bool (b : Bool)
  deriving Repr, Inhabited, DecidableEq

structure RawClause where
  head : Head
  body : List Int
  deriving Repr, Inhabited

/-- log-space weight; `none` = `-inf` -/
abbrev LogW := Option Rat

def wMin : Rat := -10000
def wMult : Rat := 10000

/-- Python `int(x)`: truncation towards zero -/
def truncInt (q : Rat) : Int := if 0 ≤ q then q.floor else -((-q).floor)

/-- `max(w_min, w)` -/
def clampW : LogW → Rat
  | none => wMin
  | some q => if q < wMin then wMin else q

/-- `wt1` (cnf_formula.py:216-218): `int(max(w_min, w) * w_mult)` -/
def wt1 (w : LogW) : Int := truncInt (clampW w * wMult)

def negW : LogW → LogW
  | none => none      -- not reached for probabilities (would be +inf)
  | some q => some (-q)

/-- `wt` with `invert_weights` (cnf_formula.py:228-231) -/
def wt (invert : Bool) (w : LogW) : Int := if invert then wt1 (negW w) else wt1 w

/-- `SemiringLogProbability.is_one` (evaluator.py:246) -/
def isOneLog : LogW → Bool
  | none => false
  | some q => decide ((-1 : Rat) / 1000000000000 < q) && decide (q < (1 : Rat) / 1000000000000)

/-- `w_max` (cnf_formula.py:236-239) -/
def topWeight (ws : List (Nat × LogW × LogW)) : Int :=
  truncInt (-(ws.foldl (fun s e => s + (clampW e.2.1 + clampW e.2.2)) (0 : Rat)) * wMult) + 1

def lookupLW (ws : List (Nat × LogW × LogW)) (a : Nat) : LogW × LogW :=
  match ws.find? (fun e => e.1 == a) with
  | some e => e.2
  | none => (some 0, some 0)

/-- soft clauses of atom `a` (cnf_formula.py:288-294): weight first, then the literal -/
def softOf (invert : Bool) (ws : List (Nat × LogW × LogW)) (a : Nat) : List (Int × Clause) :=
  let w := lookupLW ws a
  (if isOneLog w.1 then [] else [(-(wt invert w.1), [-(a : Int)])]) ++
  (if isOneLog w.2 then [] else [(-(wt invert w.2), [(a : Int)])])

/-- the literals of a stored clause as `_contents` emits them (cnf_formula.py:295-300): a `None`/`False` head is dropped;
    a `True` head would be emitted as the literal `True` — never produced by the callers modelled here -/
def rawLits (c : RawClause) : Option Clause :=
  match c.head with
  | .none => some c.body
  | .bool false => some c.body
  | .bool true => none
  | .lit k => some (k :: c.body)

structure WCNF where
  atomcount : Nat
  top : Int
  soft : List (Int × Clause)
  hard : List Clause
  deriving Repr, Inhabited

/-- `_contents(weighted=int)`; `none` if a clause has head `True`. -/
def contents (invert : Bool) (atomcount : Nat) (clauses : List RawClause) (ws : List (Nat × LogW × LogW)) :
    Option WCNF := do
  let hard ← clauses.mapM rawLits
  some { atomcount := atomcount, top := topWeight ws,
         soft := ((List.range atomcount).map (· + 1)).flatMap (softOf invert ws), hard := hard }

/-- `to_dimacs(weighted=int)` (cnf_formula.py:88-130, without names) -/
def toDimacsW (w : WCNF) : String :=
  "p wcnf " ++ toString w.atomcount ++ " " ++ toString (w.soft.length + w.hard.length) ++ " " ++ toString w.top ++ "\n" ++
  "\n".intercalate ((w.soft.map (fun (k, cl) => " ".intercalate ((k :: cl).map toString) ++ " 0")) ++
                    (w.hard.map (fun cl => " ".intercalate ((w.top :: cl).map toString) ++ " 0")))

/-- cost of an assignment: total weight of the falsified soft clauses -/
def cost (v : Nat → Bool) (soft : List (Int × Clause)) : Int :=
  soft.foldl (fun s (k, cl) => if satClause v cl then s else s + k) 0

/-- the quantised objective `Σ_a wt(weight of a's literal under v)` -/
def quantObj (invert : Bool) (ws : List (Nat × LogW × LogW)) (atomcount : Nat) (v : Nat → Bool) : Int :=
  ((List.range atomcount).map (· + 1)).foldl
    (fun s a => s + (if v a then wt invert (lookupLW ws a).1 else wt invert (lookupLW ws a).2)) 0

/-- read-back of the probability in `mpe_maxsat` (mpe.py:212-221): product over the atoms of the DAG of the weight of the
    literal in the solver's answer (`result` = list of literals; atoms the answer does not mention contribute nothing). -/
def readBack (atoms : List Nat) (pw : Nat → Rat × Rat) (result : List Int) : Rat :=
  atoms.foldl (fun (p : Rat) (i : Nat) =>
    if result.contains (Int.ofNat i) then p * (pw i).1
    else if result.contains (-(Int.ofNat i)) then p * (pw i).2 else p) 1

end ProbLogModel.MPE
