/-!
# Model of `problog/tasks/dtproblog.py` (searches, `evaluate`) and of `problog/tasks/map.py` (utility construction)

The searches are functions of a *utility oracle* `eu : List Bool → Rat` (strategy ↦ value returned by
`evaluate(formula, strategy, utilities)`); a strategy is the list of the values of the decisions in the order of the
Python list `decisions`.  Loops are mirrored as written: initial best, strict `>`, iteration order, the flipAt loop with
`last_update`, the evaluation counter `stats["eval"]`.  Core Lean only (no Mathlib): the driver links this file.
-/
namespace ProbLogModel.Tasks.DT

/-! ## `num2bits` (dtproblog.py:260-265) -/

/-- `bits[nbits - i] = bool(n % 2); n >>= 1` for `i = 1 … nbits`: big-endian, the last position is `n % 2`. -/
def num2bits : Nat → Nat → List Bool
  | _, 0 => []
  | n, k + 1 => num2bits (n / 2) k ++ [n % 2 == 1]

/-! ## `search_exhaustive` (dtproblog.py:165-193) -/

structure ExState where
  /-- `(best_choice, best_score)`; `none` ≙ Python `None, None` -/
  best : Option (List Bool × Rat) := none
  /-- `stats["eval"]` -/
  evals : Nat := 0
  deriving Repr, DecidableEq

/-- One iteration of `for i in range(0, 1 << len(decisions))` (dtproblog.py:172-192).
    `adm choices` ≙ all `c.check(...)` succeed (constraint filter, :177-183). -/
def exStep (n : Nat) (adm : List Bool → Bool) (eu : List Bool → Rat) (st : ExState) (i : Nat) : ExState :=
  let choices := num2bits i n
  if !adm choices then st          -- `continue`
  else
    let score := eu choices
    match st.best with
    | none => { best := some (choices, score), evals := st.evals + 1 }                  -- `best_score is None`
    | some (_, bs) =>
      if bs < score then { best := some (choices, score), evals := st.evals + 1 }      -- `score > best_score`
      else { st with evals := st.evals + 1 }

inductive ExResult where
  /-- `decision_ids, decision_names = zip(*decisions)` with no decisions: `ValueError` (dtproblog.py:170) -/
  | valueError
  | ok (st : ExState)
  deriving Repr, DecidableEq

def searchExhaustive (n : Nat) (adm : List Bool → Bool) (eu : List Bool → Rat) : ExResult :=
  if n = 0 then .valueError
  else .ok ((List.range (2 ^ n)).foldl (exStep n adm eu) {})

/-! ## `search_local` (dtproblog.py:196-257) -/

/-- `choices[key] = 1 - choices[key]` for the decision at position `d`. -/
def flipAt : List Bool → Nat → List Bool
  | [], _ => []
  | b :: bs, 0 => (!b) :: bs
  | b :: bs, d + 1 => b :: flipAt bs d

structure LState where
  choices : List Bool
  /-- `best_score` -/
  best : Rat
  /-- `last_update` (position of the decision key; keys are pairwise distinct) -/
  last : Option Nat
  /-- `stats["eval"]` -/
  evals : Nat
  deriving Repr, DecidableEq

/-- Initial strategy (dtproblog.py:216-220): decision `key` is 1 iff `key in utilities and float(utilities[key]) > 0`;
    `us` lists, per decision, that utility (0 when the key has none). -/
def initChoices (us : List Rat) : List Bool := us.map (fun u => decide (0 < u))

/-- The `for ident, key in decisions` loop (dtproblog.py:233-252) over positions `j, j+1, …, j+cnt-1`.
    Returns the state and whether the loop was left by `break` (`stop = True`). -/
def pass (eu : List Bool → Rat) : (cnt j : Nat) → LState → LState × Bool
  | 0, _, st => (st, false)
  | cnt + 1, j, st =>
    if st.last = some j then (st, true)                              -- `if last_update == key: stop = True; break`
    else
      let c' := flipAt st.choices j                                    -- flipAt
      let fs := eu c'                                                -- `flip_score`
      if fs ≤ st.best then                                           -- not better: undo the flipAt
        pass eu cnt (j + 1) { st with evals := st.evals + 1 }
      else
        pass eu cnt (j + 1) { choices := c', best := fs, last := some j, evals := st.evals + 1 }

/-- The `while not stop` loop (dtproblog.py:228-255) with an explicit bound on the number of passes;
    `none` = bound exhausted (proved impossible for `fuel = 2 ^ n`, see `C21_local_terminates`). -/
def localLoop (eu : List Bool → Rat) (n : Nat) : Nat → LState → Option LState
  | 0, _ => none
  | fuel + 1, st =>
    let (st', brk) := pass eu n 0 st
    if brk then some st'
    else if st'.last.isNone then some st'                            -- `if last_update is None: stop = True`
    else localLoop eu n fuel st'

inductive LocResult where
  /-- `ProbLogError("Local search does not support constraints")` (dtproblog.py:208-210) -/
  | problogError
  | outOfFuel
  | ok (st : LState)
  deriving Repr, DecidableEq

/-- `search_local`; `us` = utilities of the decision keys, `constraintsTrue` ≙ every constraint `is_true()`. -/
def searchLocal (us : List Rat) (constraintsTrue : Bool) (eu : List Bool → Rat) : LocResult :=
  if !constraintsTrue then .problogError
  else
    let c0 := initChoices us
    let st0 : LState := { choices := c0, best := eu c0, last := none, evals := 1 }
    match localLoop eu us.length (2 ^ us.length) st0 with
    | none => .outOfFuel
    | some st => .ok st

/-! ## `evaluate` (dtproblog.py:146-162, with the proposed fixes `repo_patches/C21_*.diff`)

Literals are non-zero integers (`-k` is the negation of atom `k`, as `Term.__neg__`); `result` is the dictionary
returned by `formula.evaluate` (query literal ↦ probability) in iteration order, `utilities` the dictionary built
from `utility/2`. -/

def lookup (d : List (Int × Rat)) (k : Int) : Option Rat := (d.find? (·.1 == k)).map (·.2)

/-- `utilities.get(k, 0.0)` -/
def getU (utilities : List (Int × Rat)) (k : Int) : Rat := (lookup utilities k).getD 0

/-- The body of `for r in result` (dtproblog.py:149-154):
    `score += vpos * utilities.get(r, 0)`; `if -r not in result: score += vneg * utilities.get(-r, 0)`. -/
def evalTerm (result utilities : List (Int × Rat)) (rp : Int × Rat) : Rat :=
  rp.2 * getU utilities rp.1 +
    (if (lookup result (-rp.1)).isSome then 0 else (1 - rp.2) * getU utilities (-rp.1))

def evaluate (result utilities : List (Int × Rat)) : Rat :=
  result.foldl (fun score rp => score + evalTerm result utilities rp) 0

/-- The unpatched loop body (both lines unconditional) – kept for the refutation theorem and the replay of its witness. -/
def evalTermUnpatched (utilities : List (Int × Rat)) (rp : Int × Rat) : Rat :=
  rp.2 * getU utilities rp.1 + (1 - rp.2) * getU utilities (-rp.1)

def evaluateUnpatched (result utilities : List (Int × Rat)) : Rat :=
  result.foldl (fun score rp => score + evalTermUnpatched utilities rp) 0

/-! ## MAP (map.py:55-69): query facts become decisions with utilities `{q: P(q|e), -q: 1 - P(q|e)}` -/

/-- `utilities.append((qn, p)); utilities.append((-qn, 1 - p))` for the query facts `1 … n` (map.py:66-69). -/
def mapUtilities : (firstId : Nat) → List Rat → List (Int × Rat)
  | _, [] => []
  | k, p :: ps => ((k : Int), p) :: (-(k : Int), 1 - p) :: mapUtilities (k + 1) ps

/-- `formula.evaluate(weights=assignment)` restricted to the query facts: a decided fact has probability 1 or 0. -/
def mapResult : (firstId : Nat) → List Bool → List (Int × Rat)
  | _, [] => []
  | k, b :: bs => ((k : Int), if b then 1 else 0) :: mapResult (k + 1) bs

/-- The score map.py's search assigns to an assignment `v` of the query facts with posterior marginals `ps`. -/
def mapScore (ps : List Rat) (v : List Bool) : Rat := evaluate (mapResult 1 v) (mapUtilities 1 ps)

/-- The objective in closed form: Σ_q (if v_q then p_q else 1 - p_q). -/
def mapObjective : List Rat → List Bool → Rat
  | p :: ps, b :: bs => (if b then p else 1 - p) + mapObjective ps bs
  | _, _ => 0

end ProbLogModel.Tasks.DT
