/-
Hand-written prelude for the GENERATED semiring definitions (`ProbLogModel/Generated/Semirings.lean`, emitted by
`harness/py2lean` from problog/evaluator.py and problog/tasks/mpe.py).  Core Lean only (the driver links it).

Contents: the Python exception classes that the translated code can raise, the primitives whose Python versions
raise (`/`, `math.log`, `math.log1p`), the abstract number interface `LogNum` over which the log-probability
semiring is generated (instantiated with `Float` in the driver and with a real-valued type in the proofs), the
record of abstract methods of the base class `Semiring`, and list-backed sets for the MPE semirings.
-/
namespace ProbLogModel.SemiringPrelude

/-- Exceptions that translated code raises (class name only; messages and locations are dropped). -/
inductive PyErr where
  | InvalidValue
  | OperationNotSupported
  | NotImplementedError
  | ZeroDivisionError
  | ValueError
  | Other (name : String)
  deriving Repr, DecidableEq, Inhabited

def PyErr.name : PyErr → String
  | .InvalidValue => "InvalidValue"
  | .OperationNotSupported => "OperationNotSupported"
  | .NotImplementedError => "NotImplementedError"
  | .ZeroDivisionError => "ZeroDivisionError"
  | .ValueError => "ValueError"
  | .Other n => n

abbrev PyRes (α : Type) := Except PyErr α

/-- Python `a / b` on numbers: raises ZeroDivisionError (Lean's `x / 0 = 0` must not leak into the model). -/
def pyDivRat (a b : Rat) : PyRes Rat := if b == 0 then throw PyErr.ZeroDivisionError else pure (a / b)

/-- Numbers of the log-probability semiring: Python floats including `±inf`.  `exp`, `log`, `log1p` are the raw
    functions; the Python-level `math.log` / `math.log1p` (which raise `ValueError` outside their domain) are
    `pyLog` / `pyLog1p` below. -/
class LogNum (α : Type) extends Add α, Sub α, Neg α, BEq α, LT α, LE α where
  ofRat : Rat → α
  inf : α
  ninf : α
  exp : α → α
  log : α → α
  log1p : α → α
  decLt : ∀ a b : α, Decidable (a < b)
  decLe : ∀ a b : α, Decidable (a ≤ b)

instance {α : Type} [LogNum α] (a b : α) : Decidable (a < b) := LogNum.decLt a b
instance {α : Type} [LogNum α] (a b : α) : Decidable (a ≤ b) := LogNum.decLe a b

/-- `math.log(x)`: ValueError ("math domain error") unless `x > 0`. -/
def pyLog {α : Type} [LogNum α] (x : α) : PyRes α :=
  if decide (LogNum.ofRat 0 < x) then pure (LogNum.log x) else throw PyErr.ValueError

/-- `math.log1p(x)`: ValueError unless `x > -1`. -/
def pyLog1p {α : Type} [LogNum α] (x : α) : PyRes α :=
  if decide (LogNum.ofRat (-1) < x) then pure (LogNum.log1p x) else throw PyErr.ValueError

/-- The abstract methods of the base class `Semiring` (bodies `raise NotImplementedError()`), as parameters of the
    generic translation of the base-class defaults. -/
structure Abs (α : Type) where
  one : α
  zero : α
  plus : α → α → α
  times : α → α → α

/-- Python `set` of ints, as a duplicate-free list (compared as sets by the harness). -/
abbrev PySet := List Int
def PySet.empty : PySet := []
def PySet.single (k : Int) : PySet := [k]
def PySet.union (a b : PySet) : PySet := a ++ b.filter (fun x => !a.contains x)

/-- `getattr(x, "arity", 0) > 0` on an external value that the string backend carries as its text `str(x)`: the text of a
    compound term contains an operator, a bracket, a comma or a blank; the text of a constant or an atom does not (a
    leading sign and the sign of an exponent are part of a numeral).  Modelled, not derived: the correspondence check
    of C12 runs `value` on real compound and atomic labels. -/
def PyStr.compoundAux : Char → List Char → Bool
  | _, [] => false
  | prev, c :: cs =>
    (c == '(' || c == '+' || c == '*' || c == '/' || c == ' ' || c == ',' || c == '^')
      || (c == '-' && !(prev == 'e' || prev == 'E' || prev == '\x00')) || PyStr.compoundAux c cs
def PyStr.isCompound (s : String) : Bool := PyStr.compoundAux '\x00' s.toList

/-! ### `Float` instance (used by the compiled driver for the grid cross-check of the translation) -/

/-- `log1p` with the classical correction `log(u)·x/(u−1)`, `u = 1+x` (accurate to a few ulp; compared with
    tolerance against `math.log1p`). -/
def floatLog1p (x : Float) : Float :=
  let u := 1.0 + x
  if u == 1.0 then x else if u - 1.0 == x then Float.log u else Float.log u * x / (u - 1.0)

def floatOfRat (q : Rat) : Float := Float.ofInt q.num / Float.ofNat q.den

instance : LogNum Float where
  ofRat := floatOfRat
  inf := 1.0 / 0.0
  ninf := -1.0 / 0.0
  exp := Float.exp
  log := Float.log
  log1p := floatLog1p
  decLt := fun a b => inferInstanceAs (Decidable (a < b))
  decLe := fun a b => inferInstanceAs (Decidable (a ≤ b))

end ProbLogModel.SemiringPrelude
