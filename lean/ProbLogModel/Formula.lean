/-
Model of `problog/formula.py` — `BaseFormula` keys/names/weights and the `LogicFormula` builder
(`_add`, `add_atom`, `add_and`, `add_or`, `add_disjunct`, `negate`, `add_name`, `_add_compound`, lines 37-420, 422-893)
together with `ConstraintAD.add/_update_logic/as_clauses` of `problog/constraint.py` (without evidence propagation,
which is modelled in `Propagate.lean`).

Keys are exactly Python's: `none` = FALSE (None), `some 0` = TRUE, `some (±i)` = node i / its negation.
Atom identifiers and node names are abstracted to small inductive types; the harness maps the Python values onto them
injectively.
-/
namespace ProbLogModel.Formula

abbrev Key := Option Int

/-- Atom identifiers: whatever the caller passes (mapped to an integer by the harness), or the synthetic
    `"%s_extra" % (group,)` identifier of an AD's extra choice. -/
inductive Ident where
  | user (n : Int)
  | extra (g : Nat)
  deriving DecidableEq, Repr, Inhabited

/-- Node names (Terms in Python): a user name, its negation (`-name`), or the `choice(g,e,null,…)` name of an extra node. -/
inductive Name where
  | pos (n : Nat)
  | neg (n : Nat)
  | extra (g : Nat)
  | negExtra (g : Nat)
  deriving DecidableEq, Repr, Inhabited

def Name.negate : Name → Name
  | .pos n => .neg n
  | .neg n => .pos n       -- not reachable through add_name (names passed in are never negated terms here)
  | .extra g => .negExtra g
  | .negExtra g => .extra g

/-- Stored weight of an atom: `True` (neutral), a probability, `None` (certainly true), `False`. -/
inductive Weight where
  | neutral
  | prob (q : Rat)
  | tt
  | ff
  deriving DecidableEq, Repr, Inhabited

inductive Node where
  | atom (ident : Ident) (group : Option Nat) (isExtra : Bool) (name : Option Name)
  | conj (children : List Key) (name : Option Name)
  | disj (children : List Key) (name : Option Name)
  deriving DecidableEq, Repr, Inhabited

def Node.name : Node → Option Name
  | .atom _ _ _ n => n
  | .conj _ n => n
  | .disj _ n => n

def Node.setName : Node → Option Name → Node
  | .atom i g e _, n => .atom i g e n
  | .conj c _, n => .conj c n
  | .disj c _, n => .disj c n

structure Opts where
  autoCompact : Bool := true
  avoidNameClash : Bool := false
  keepOrder : Bool := false
  keepAll : Bool := false
  maxArity : Nat := 0
  keepDuplicates : Bool := false
  deriving DecidableEq, Repr, Inhabited

inductive Label where
  | query | evPos | evNeg | evMaybe | named | other (n : Nat)
  deriving DecidableEq, Repr, Inhabited

/-- `ConstraintAD`: group, member nodes (insertion order; Python keeps a set), extra node. -/
structure ADC where
  group : Nat
  nodes : List Nat
  extra : Option Nat
  deriving DecidableEq, Repr, Inhabited

structure Store where
  opts : Opts := {}
  nodes : List Node := []
  idxAtom : List (Ident × Nat) := []
  idxConj : List (List Key × Nat) := []
  idxDisj : List (List Key × Nat) := []
  weights : List (Nat × Weight) := []
  names : List (Label × Name × Key) := []      -- `_names[label][name] = key`, insertion order, overwrite in place
  ads : List ADC := []                          -- `_constraints_me`, in creation order
  atomcount : Nat := 0
  deriving Repr, Inhabited

inductive Err where
  | assertion    -- `assert content`
  | valueError   -- add_disjunct on FALSE / non-disj
  | badKey       -- a key that does not point to a node (Python: IndexError / AssertionError in get_node)
  deriving DecidableEq, Repr

/-! ### keys -/

def TRUE : Key := some 0
def FALSE : Key := none

def isTrue (k : Key) : Bool := k == some 0
def isFalse (k : Key) : Bool := k == none
def isProbabilistic (k : Key) : Bool := !isTrue k && !isFalse k

/-- `BaseFormula.negate`. -/
def negate : Key → Key
  | none => some 0
  | some 0 => none
  | some k => some (-k)

def Store.getNode? (S : Store) (k : Int) : Option Node := S.nodes[k.natAbs - 1]?

/-! ### assoc helpers -/

def lookup {α β} [BEq α] : List (α × β) → α → Option β
  | [], _ => none
  | (a, b) :: r, x => if a == x then some b else lookup r x

def assocSet {α β} [BEq α] : List (α × β) → α → β → List (α × β)
  | [], x, v => [(x, v)]
  | (a, b) :: r, x, v => if a == x then (a, v) :: r else (a, b) :: assocSet r x v

/-- `OrderedSet(content)` → tuple: first occurrences. -/
def dedup : List Key → List Key
  | [] => []
  | x :: xs => x :: (dedup xs).filter (· != x)

/-- `len(set(content)) > len(set(map(abs, content)))` : some literal occurs with both signs. -/
def hasOpp (l : List Key) : Bool :=
  l.any (fun x => match x with
    | some k => k != 0 && l.contains (some (-k))
    | none => false)

/-! ### names -/

def setNames (ns : List (Label × Name × Key)) (l : Label) (n : Name) (k : Key) : List (Label × Name × Key) :=
  match ns with
  | [] => [(l, n, k)]
  | (l', n', k') :: r => if l' == l && n' == n then (l', n', k) :: r else (l', n', k') :: setNames r l n k

/-- `_update(key, value)` : replace node `key` (1-based). -/
def Store.update (S : Store) (k : Nat) (v : Node) : Store := { S with nodes := S.nodes.set (k - 1) v }

/-- `LogicFormula.add_name(name, key, label, keep_name)`. -/
def Store.addName (S : Store) (n : Name) (k : Key) (l : Label) (keepName : Bool := false) : Store :=
  let S1 :=
    if !keepName && isProbabilistic k then
      match k with
      | some i =>
        match S.getNode? i with
        | some nd => S.update i.natAbs (nd.setName (some (if i < 0 then n.negate else n)))
        | none => S
      | none => S
    else S
  { S1 with names := setNames S1.names l n k }

/-! ### `_add` -/

/-- `_add(node, reuse)` for an atom. Returns the (1-based) index and whether a node was appended. -/
def Store.addAtomNode (S : Store) (ident : Ident) (nd : Node) : Store × Nat :=
  match lookup S.idxAtom ident with
  | some i => (S, i)
  | none =>
    let i := S.nodes.length + 1
    ({ S with nodes := S.nodes ++ [nd], idxAtom := S.idxAtom ++ [(ident, i)] }, i)

def Store.addConjNode (S : Store) (cs : List Key) (nm : Option Name) (reuse : Bool) : Store × Nat :=
  if reuse then
    match lookup S.idxConj cs with
    | some i => (S, i)
    | none =>
      let i := S.nodes.length + 1
      ({ S with nodes := S.nodes ++ [.conj cs nm], idxConj := S.idxConj ++ [(cs, i)] }, i)
  else
    ({ S with nodes := S.nodes ++ [.conj cs nm] }, S.nodes.length + 1)

def Store.addDisjNode (S : Store) (cs : List Key) (nm : Option Name) (reuse : Bool) : Store × Nat :=
  if reuse then
    match lookup S.idxDisj cs with
    | some i => (S, i)
    | none =>
      let i := S.nodes.length + 1
      ({ S with nodes := S.nodes ++ [.disj cs nm], idxDisj := S.idxDisj ++ [(cs, i)] }, i)
  else
    ({ S with nodes := S.nodes ++ [.disj cs nm] }, S.nodes.length + 1)

/-! ### `_add_compound` -/

inductive Kind where
  | conj | disj
  deriving DecidableEq, Repr

/-- t / f of `_add_compound`: (FALSE, TRUE) for AND, (TRUE, FALSE) for OR. -/
def Kind.t : Kind → Key
  | .conj => none
  | .disj => some 0
def Kind.f : Kind → Key
  | .conj => some 0
  | .disj => none

/-- What happens with a single remaining child (lines 853-871). `none` = fall through to node creation
    (name clash), `some (S', k)` = return k. -/
def singleChild (S : Store) (c : Key) (name : Option Name) : Option (Store × Key) × Bool :=
  let nameOld : Option Name := match c with
    | some i => (S.getNode? i).bind Node.name
    | none => none
  if S.opts.avoidNameClash then
    if name.isNone || nameOld.isNone || name == nameOld then
      match name with
      | some n => (some (S.addName n c .named, c), false)
      | none => (some (S, c), false)
    else (none, true)
  else
    match name with
    | some n => if nameOld.isNone then (some (S.addName n c .named, c), false) else (some (S, c), false)
    | none => (some (S, c), false)

def addCompound (S : Store) (kind : Kind) (content : List Key) (readonly : Bool := true)
    (name : Option Name := none) (placeholder : Bool := false) (compact : Option Bool := none) :
    Except Err (Store × Key) :=
  if !placeholder && content.isEmpty then .error .assertion
  else
    let doCompact := match compact with
      | some b => b
      | none => S.opts.autoCompact
    let finish (S : Store) (content : List Key) (nameClash : Bool) : Except Err (Store × Key) :=
      match kind with
      | .conj =>
        let (S', i) := S.addConjNode content name (S.opts.autoCompact && !S.opts.keepAll)
        .ok (S', some (i : Int))
      | .disj =>
        if readonly then
          let (S', i) := S.addDisjNode content name (S.opts.autoCompact && !nameClash && !S.opts.keepAll)
          .ok (S', some (i : Int))
        else
          let (S', i) := S.addDisjNode content name false
          .ok (S', some (i : Int))
    if doCompact then
      if content.contains kind.t then .ok (S, kind.t)
      else
        let c1 := content.filter (· != kind.f)
        let c2 := if S.opts.keepDuplicates then c1 else dedup c1
        if c2.isEmpty && !placeholder then .ok (S, kind.f)
        else if hasOpp c2 then .ok (S, kind.t)
        else
          match readonly, c2 with
          | true, [c] =>
            match singleChild S c name with
            | (some r, _) => .ok r
            | (none, clash) => finish S c2 clash
          | _, _ => finish S c2 false
    else finish S content false

def Store.addAnd (S : Store) (cs : List Key) (name : Option Name := none) (compact : Option Bool := none) :=
  addCompound S .conj cs true name false compact

def Store.addOr (S : Store) (cs : List Key) (readonly : Bool := true) (name : Option Name := none)
    (placeholder : Bool := false) (compact : Option Bool := none) :=
  addCompound S .disj cs (readonly && !placeholder) name placeholder compact

/-! ### atoms and AD constraints -/

/-- How `add_atom` classifies the probability argument (lines 650-667): `None`, `False`, a value the
    propagating semiring calls zero / one, the neutral weight `True`, or an ordinary weight. -/
inductive PClass where
  | pNone | pFalse | zero | one | normal
  deriving DecidableEq, Repr

def findAD (ads : List ADC) (g : Nat) : Option ADC := ads.find? (·.group == g)
def setAD (ads : List ADC) (c : ADC) : List ADC :=
  if ads.any (·.group == c.group) then ads.map (fun a => if a.group == c.group then c else a) else ads ++ [c]

/-- `add_atom` for the synthetic extra node of group `g` (called from `ConstraintAD._update_logic`). -/
def Store.addExtra (S : Store) (g : Nat) : Store × Nat :=
  let nd := Node.atom (.extra g) (some g) true (some (.extra g))
  let lenBefore := S.nodes.length
  let (S1, i) := S.addAtomNode (.extra g) nd
  let S2 := { S1 with weights := assocSet S1.weights i .neutral }
  let S3 := S2.addName (.extra g) (some (i : Int)) .named
  if S3.nodes.length != lenBefore then
    let S4 := { S3 with atomcount := S3.atomcount + 1 }
    -- `_add_constraint_me` → `constraint.add(extra)` : is_extra → extra_node = node
    let c := (findAD S4.ads g).getD ⟨g, [], none⟩
    ({ S4 with ads := setAD S4.ads { c with extra := some i } }, i)
  else (S3, i)

/-- `ConstraintAD.add(node, formula, cr_extra)` without evidence values. -/
def Store.constraintAdd (S : Store) (g : Nat) (node : Nat) (isExtra : Bool) (crExtra : Bool) : Store :=
  let c := (findAD S.ads g).getD ⟨g, [], none⟩
  if c.nodes.contains node then { S with ads := setAD S.ads c }
  else
    let c1 : ADC := if isExtra then { c with extra := some node } else { c with nodes := c.nodes ++ [node] }
    let S1 := { S with ads := setAD S.ads c1 }
    if crExtra && c1.nodes.length > 1 && c1.extra.isNone then
      let (S2, e) := S1.addExtra g
      -- `self.extra_node = formula.add_atom(...)`
      let c2 := (findAD S2.ads g).getD c1
      { S2 with ads := setAD S2.ads { c2 with extra := some e } }
    else S1

/-- `add_atom(identifier, probability, group, name, cr_extra, is_extra)`. `w` is the weight that is stored. -/
def Store.addAtom (S : Store) (ident : Ident) (pc : PClass) (w : Weight) (group : Option Nat := none)
    (name : Option Name := none) (crExtra : Bool := true) (isExtra : Bool := false) : Store × Key :=
  match pc, S.opts.keepAll with
  | .pNone, false => (S, TRUE)
  | .pFalse, false => (S, FALSE)
  | .zero, _ => (S, FALSE)
  | .one, _ => (S, TRUE)
  | _, _ =>
    let nd := Node.atom ident group isExtra name
    let lenBefore := S.nodes.length
    let (S1, i) := S.addAtomNode ident nd
    let S2 := { S1 with weights := assocSet S1.weights i w }
    let S3 := match name with
      | some n => S2.addName n (some (i : Int)) .named
      | none => S2
    if S3.nodes.length != lenBefore then
      let S4 := { S3 with atomcount := S3.atomcount + 1 }
      match group with
      | none => (S4, some (i : Int))
      | some g => (S4.constraintAdd g i isExtra crExtra, some (i : Int))
    else (S3, some (i : Int))

/-! ### `add_disjunct` -/

/-- Returns the new store and the value the Python returns (`key`, or the `None` that `_update` returns —
    after the repair `key`). -/
def Store.addDisjunct (S : Store) (key : Key) (component : Key) : Except Err (Store × Key) :=
  if isTrue key then .ok (S, key)
  else if isFalse key then .error .valueError
  else
    match key with
    | none => .error .valueError
    | some k =>
      if k ≤ 0 then .error .badKey else
      match S.getNode? k with
      | some (.disj children nm) =>
        match component with
        | none => .ok (S, key)
        | some 0 => .ok (S.update k.natAbs (.disj [some 0] nm), key)
        | some c =>
          if children.contains (some c) && !S.opts.keepDuplicates then .ok (S, key)
          else if 0 < S.opts.maxArity && S.opts.maxArity == children.length then
            match S.addOr children with
            | .ok (S1, child) => .ok (S1.update k.natAbs (.disj [child, some c] nm), key)
            | .error e => .error e
          else .ok (S.update k.natAbs (.disj (children ++ [some c]) nm), key)
      | some _ => .error .valueError
      | none => .error .badKey

/-! ### semantics -/

/-- Value of a key under a valuation of node ids (1-based). -/
def keyVal (ρ : Nat → Bool) : Key → Bool
  | none => false
  | some k => if k = 0 then true else if k < 0 then !(ρ k.natAbs) else ρ k.natAbs

/-- `ρ` is consistent with the store: every compound node's value is the AND / OR of its children. -/
def Consistent (S : Store) (ρ : Nat → Bool) : Prop :=
  ∀ i, (∀ cs nm, S.nodes[i]? = some (.conj cs nm) → ρ (i + 1) = cs.all (keyVal ρ)) ∧
       (∀ cs nm, S.nodes[i]? = some (.disj cs nm) → ρ (i + 1) = cs.any (keyVal ρ))

end ProbLogModel.Formula
