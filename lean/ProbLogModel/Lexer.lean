/-
C17: a *reference* lexer for the alphabet the term printer can emit (plus `%` comments and `/* */`): it follows the
dispatch of `PrologParser._tokenize` / `next_token` (parser.py:889-1006) for ASCII input, takes the symbolic tokens
from the generated table (`Generated.symTable`, in the match order of the `_token_*` methods) and the word operators
from `Generated.wordTable`. It is hand-written, not a translation of the 45 `_token_*` methods; the harness compares
it with the real tokenizer on every printed string.
-/
import ProbLogModel.Parser
namespace ProbLogModel.Lexer
open ProbLogModel.Parser ProbLogModel.Generated

def isLower (c : Char) : Bool := 'a' ≤ c && c ≤ 'z'
def isUpper (c : Char) : Bool := 'A' ≤ c && c ≤ 'Z'
def isDigit (c : Char) : Bool := '0' ≤ c && c ≤ '9'
def isHex (c : Char) : Bool := isDigit c || ('a' ≤ c && c ≤ 'f') || ('A' ≤ c && c ≤ 'F')
def isIdent (c : Char) : Bool := c == '_' || isLower c || isUpper c || isDigit c
/-- `is_whitespace`: `c <= " "`. -/
def isWhite (c : Char) : Bool := c.toNat ≤ 32

/-- `_next_paren_open` applied to the text *after* the position it is given. -/
def nextParenOpen : List Char → Bool
  | c :: _ => c == '(' || c == '['
  | [] => false

/-- Scan a quoted item after its opening quote `q`: the closing quote is the first `q` not preceded by a backslash
    (parser.py:224-228, 247-251). Returns (body including the closing quote, rest). -/
def scanQuote (q : Char) : Char → List Char → List Char → Option (List Char × List Char)
  | _, [], _ => none
  | prev, c :: cs, acc =>
    if c == q && prev != '\\' then some ((c :: acc).reverse, cs) else scanQuote q c cs (c :: acc)

def mkTok (s : String) (special : Option Special := none) (functor : Bool := false) : Tok :=
  { str := s, atom := true, functor := functor, binop := none, unop := none, special := special, aggregate := false }

/-- `RE_FLOAT.match(s, pos)` for a position holding a digit, or a dot followed by a digit. -/
def scanNumber (cs : List Char) : List Char × List Char :=
  match cs with
  | '0' :: 'x' :: h :: r =>
    if isHex h then
      let ds := (h :: r).takeWhile isHex
      ('0' :: 'x' :: ds, (h :: r).dropWhile isHex)
    else decimal cs
  | _ => decimal cs
where
  decimal (cs : List Char) : List Char × List Char :=
    let d1 := cs.takeWhile isDigit
    let r1 := cs.dropWhile isDigit
    let (m, r2) := match r1 with
      | '.' :: d :: r => if isDigit d then (d1 ++ '.' :: (d :: r).takeWhile isDigit, (d :: r).dropWhile isDigit) else (d1, r1)
      | _ => (d1, r1)
    let expo (sign : List Char) (r : List Char) : Option (List Char × List Char) :=
      match r with
      | d :: _ => if isDigit d then some (sign ++ r.takeWhile isDigit, r.dropWhile isDigit) else none
      | [] => none
    match r2 with
    | e :: r =>
      if e == 'e' || e == 'E' then
        let res := match r with
          | '-' :: r' => expo ['-'] r'
          | '+' :: r' => expo ['+'] r'
          | _ => expo [] r
        match res with
        | some (x, r3) => (m ++ e :: x, r3)
        | none => (m, r2)
      else (m, r2)
    | [] => (m, r2)

def numberTok (txt : List Char) : Tok :=
  let s := String.ofList txt
  match txt with
  | '0' :: 'x' :: _ => mkTok s (some .hexInteger)
  | _ => if txt.any (fun c => c == '.' || c == 'e' || c == 'E') then mkTok s (some .float) else mkTok s (some .integer)

def isPrefix : List Char → List Char → Bool
  | [], _ => true
  | _ :: _, [] => false
  | a :: as, b :: bs => a == b && isPrefix as bs

def findSym (cs : List Char) : Option SymEntry :=
  symTable.find? (fun e => isPrefix e.lexeme.toList cs)

def skipLine : List Char → List Char
  | [] => []
  | '\n' :: r => r
  | _ :: r => skipLine r

def skipBlock : List Char → Option (List Char)
  | '*' :: '/' :: r => some r
  | _ :: r => skipBlock r
  | [] => none

/-- One `next_token` step: `none` token = skipped text. -/
def nextToken (cs : List Char) : R (Option Tok × List Char) :=
  match cs with
  | [] => throw (.internal "empty")
  | c :: r =>
    if c.toNat < 33 then pure (none, r)
    else if isDigit c then
      let (txt, rest) := scanNumber cs
      pure (some (numberTok txt), rest)
    else if c == '.' then
      match r with
      | [] => pure (some (mkTok "." (some .end_)), r)
      | d :: _ =>
        if isWhite d || d == '%' || d == '/' then pure (some (mkTok "." (some .end_)), r)
        else if isDigit d then
          let (txt, rest) := scanNumber cs
          pure (some (numberTok txt), rest)
        else if d == '(' then pure (some (mkTok "." none true), r)
        else throw (.parse "Unexpected character")
    else if isLower c then
      let w := c :: r.takeWhile isIdent
      let rest := r.dropWhile isIdent
      let s := String.ofList w
      let f := nextParenOpen rest
      match wordTable.find? (fun e => e.1 == s) with
      | some (_, atom, bop, uop) =>
        pure (some { str := s, atom := atom, functor := atom && f, binop := bop, unop := uop, special := none, aggregate := false }, rest)
      | none => pure (some (mkTok s none f), rest)
    else if isUpper c || c == '_' then
      let w := c :: r.takeWhile isIdent
      pure (some (mkTok (String.ofList w) (some .variable)), r.dropWhile isIdent)
    else if c == '\'' then
      match scanQuote '\'' c r [] with
      | none => throw (.parse "Unmatched character")
      | some (body, rest) => pure (some (mkTok (String.ofList (c :: body)) none (nextParenOpen rest)), rest)
    else if c == '"' then
      match scanQuote '"' c r [] with
      | none => throw (.parse "Unmatched character")
      | some (body, rest) => pure (some (mkTok (String.ofList (c :: body)) (some .string)), rest)
    else if c == '%' then pure (none, skipLine r)
    else if c.toNat ≥ 127 then throw (.unsupported "non-ASCII character")
    else
      match findSym cs with
      | some (.tok lex t ft) =>
        let t := if ft && t.atom then { t with functor := nextParenOpen r } else t
        pure (some t, cs.drop lex.length)
      | some (.comment _) =>
        match skipBlock r with
        | some rest => pure (none, rest)
        | none => throw (.parse "Unmatched character")
      | some (.error _) => throw (.parse "Unexpected character")
      | none => throw (.parse "Unexpected character")

def tokenizeN : Nat → List Char → R (List Tok)
  | 0, _ => throw (.internal "fuel")
  | _ + 1, [] => pure []
  | fuel + 1, cs => do
    let (t, rest) ← nextToken cs
    let ts ← tokenizeN fuel rest
    pure (match t with | some t => t :: ts | none => ts)

/-- `_tokenize` (parser.py:996-1006). -/
def tokenize (s : String) : R (List Tok) :=
  let cs := s.toList
  let cs := match cs with
    | '#' :: '!' :: r => skipLine r
    | _ => cs
  tokenizeN (cs.length + 1) cs

/-- `_extract_statements` (parser.py:1008-1020). -/
def statements : List Tok → List Tok → R (List (List Tok))
  | [], [] => pure []
  | [], _ => throw (.parse "Incomplete statement")
  | t :: rest, cur =>
    if t.special == some .end_ then
      if cur.isEmpty then throw (.parse "Empty statement found")
      else do
        let ss ← statements rest []
        pure (cur.reverse :: ss)
    else statements rest (t :: cur)

/-- `parseString` without the program-level `build_program` pass: the statements in order. -/
def parseString (s : String) : R (List Syntax.Tm) := do
  let toks ← tokenize s
  let sts ← statements toks []
  sts.mapM collapse

end ProbLogModel.Lexer
