import ProbLogModel.Sem
/-!
The specification lifted to first-order (function-free) programs: the generated programs of `harness/spine.py`
(`gen_program`: a dict with `consts`, `preds`, `stmts`, `queries`, `evidence`) as a datatype, and their Herbrand
instantiation `ground : FOProgram → Sem.Prog` with the meaning of `spine.reference` / `spine.query_instances`.
Like `Sem` this file is *not* a model of any ProbLog code; it is (part of) the reference the properties C01–C08 speak
about.  Core Lean only.

Correspondence with `spine.reference` (checked on every program by `semcheck.spec_batch`, op `GROUNDFO`):
* rules are emitted statement by statement, per assignment of the statement's variables (`itertools.product` order),
  per head, per alternative body of `expand_or` — the same order as `reference`;
* choice ids are numbered consecutively in the order of the groups (`sem_line` numbers them the same way);
* a fact / probabilistic fact is the special case "rule with empty body" (for the ground facts the generator emits this
  is exactly `reference`; a non-ground fact is instantiated like any other clause, which `reference` does not do: the
  serialiser `spine.sem_line_fo` refuses such programs);
* atoms are numbered by their position in the Herbrand base of the declared signature (`preds` × `consts`), which does
  not depend on the statements (`sem_line` numbers them in order of first occurrence; `Sem.run` is only ever compared
  through its results, which do not depend on the numbering as long as it is injective).
-/
namespace ProbLogModel.SemFO
open ProbLogModel

inductive Term where
  | var (v : String)
  | const (c : String)
  deriving Repr, Inhabited, DecidableEq

structure Atom where
  pred : String
  args : List Term
  deriving Repr, Inhabited, DecidableEq

/-- a ground atom: predicate name and constant names -/
structure GAtom where
  pred : String
  args : List String
  deriving Repr, Inhabited, DecidableEq

/-- body literals: `a`, `\+a`, `(a ; b)` -/
inductive Lit where
  | pos (a : Atom)
  | neg (a : Atom)
  | or (a b : Atom)
  deriving Repr, Inhabited, DecidableEq

inductive Stmt where
  | fact (a : Atom)
  | pf (p : Rat) (a : Atom)
  | rule (h : Atom) (body : List Lit)
  | prule (p : Rat) (h : Atom) (body : List Lit)
  | ad (heads : List (Rat × Atom)) (body : List Lit)
  deriving Repr, Inhabited

structure FOProgram where
  consts : List String
  /-- the signature: predicate name and arity (`P["preds"]` of the generator, levels dropped) -/
  preds : List (String × Nat)
  stmts : List Stmt
  /-- query atoms; a variable argument (`_`) stands for every constant, each argument position independently -/
  queries : List Atom
  evidence : List (Atom × Bool)
  deriving Repr, Inhabited

/-! ### generic list helpers -/

/-- first occurrences, in order -/
def dedup {α : Type} [DecidableEq α] : List α → List α
  | [] => []
  | a :: l => a :: (dedup l).filter (fun b => !decide (b = a))

/-- `itertools.product(*slots)`: first slot slowest -/
def product {α : Type} : List (List α) → List (List α)
  | [] => [[]]
  | s :: ss => s.flatMap (fun x => (product ss).map (fun t => x :: t))

/-- `itertools.product(cs, repeat=n)` -/
def tuples {α : Type} (cs : List α) (n : Nat) : List (List α) := product (List.replicate n cs)

/-! ### statements -/

/-- probability (a dummy `1` for deterministic clauses) and atom of every head -/
def Stmt.heads : Stmt → List (Rat × Atom)
  | .fact a => [(1, a)]
  | .pf p a => [(p, a)]
  | .rule h _ => [(1, h)]
  | .prule p h _ => [(p, h)]
  | .ad hs _ => hs

def Stmt.isProb : Stmt → Bool
  | .fact _ => false
  | .rule _ _ => false
  | _ => true

def Stmt.body : Stmt → List Lit
  | .fact _ => []
  | .pf _ _ => []
  | .rule _ b => b
  | .prule _ _ b => b
  | .ad _ b => b

/-- `spine.lit_atoms` -/
def Lit.atoms : Lit → List Atom
  | .pos a => [a]
  | .neg a => [a]
  | .or a b => [a, b]

def Term.vars : Term → List String
  | .var v => [v]
  | .const _ => []

def Atom.vars (a : Atom) : List String := a.args.flatMap Term.vars

def Stmt.atoms (s : Stmt) : List Atom := s.heads.map (·.2) ++ s.body.flatMap Lit.atoms

/-- `spine.vars_of`: the variables of the heads, then of the body, in order of first occurrence -/
def Stmt.vars (s : Stmt) : List String := dedup (s.atoms.flatMap Atom.vars)

/-- `th.get(x, x)` -/
def Term.subst (θ : List (String × String)) : Term → String
  | .var v => (θ.lookup v).getD v
  | .const c => c

/-- `spine.subst` -/
def Atom.subst (θ : List (String × String)) (a : Atom) : GAtom := ⟨a.pred, a.args.map (Term.subst θ)⟩

/-- `spine.expand_or`: every way of choosing one disjunct of every `or` literal; `(true, a)` = `a`, `(false, a)` = `\+a` -/
def expandOr : List Lit → List (List (Bool × Atom))
  | [] => [[]]
  | .pos a :: ls => (expandOr ls).map (fun r => (true, a) :: r)
  | .neg a :: ls => (expandOr ls).map (fun r => (false, a) :: r)
  | .or a b :: ls => (expandOr ls).map (fun r => (true, a) :: r) ++ (expandOr ls).map (fun r => (true, b) :: r)

/-! ### symbolic ground program (atoms not yet numbered) -/

structure SRule where
  head : GAtom
  body : List (Bool × GAtom)
  choice : Option Nat
  deriving Repr, Inhabited, DecidableEq

/-- the choice id of head `hi` of the `k`-th instance of a statement whose ids start at `c0` -/
def cidOf (s : Stmt) (c0 k hi : Nat) : Nat := c0 + k * s.heads.length + hi

/-- the ground rules of the `k`-th instance (assignment `vals` to `s.vars`) of statement `s` -/
def groundInst (s : Stmt) (c0 k : Nat) (vals : List String) : List SRule :=
  let θ := s.vars.zip vals
  s.heads.zipIdx.flatMap (fun (ph, hi) =>
    (expandOr s.body).map (fun alt =>
      { head := ph.2.subst θ
        body := alt.map (fun (b, a) => (b, a.subst θ))
        choice := if s.isProb then some (cidOf s c0 k hi) else none }))

/-- the choice group of the `k`-th instance: one alternative per head -/
def groupInst (s : Stmt) (c0 k : Nat) : Sem.Group :=
  ⟨s.heads.zipIdx.map (fun (ph, hi) => (ph.1, cidOf s c0 k hi))⟩

/-- all assignments of constants to the variables of `s`, numbered -/
def Stmt.insts (cs : List String) (s : Stmt) : List (List String × Nat) := (tuples cs s.vars.length).zipIdx

/-- number of choice ids a statement uses -/
def Stmt.nchoices (cs : List String) (s : Stmt) : Nat :=
  if s.isProb then (s.insts cs).length * s.heads.length else 0

def groundStmt (cs : List String) (c0 : Nat) (s : Stmt) : List SRule × List Sem.Group :=
  ((s.insts cs).flatMap (fun (vals, k) => groundInst s c0 k vals),
   if s.isProb then (s.insts cs).map (fun (_, k) => groupInst s c0 k) else [])

/-- statements in order; `c0` = first unused choice id -/
def groundStmts (cs : List String) : Nat → List Stmt → List SRule × List Sem.Group
  | _, [] => ([], [])
  | c0, s :: ss =>
    let a := groundStmt cs c0 s
    let b := groundStmts cs (c0 + s.nchoices cs) ss
    (a.1 ++ b.1, a.2 ++ b.2)

def totalChoices (cs : List String) (ss : List Stmt) : Nat := (ss.map (Stmt.nchoices cs)).sum

def groundSym (P : FOProgram) : List SRule × List Sem.Group := groundStmts P.consts 0 P.stmts

/-! ### numbering of the atoms: position in the Herbrand base of the signature -/

def herbrand (P : FOProgram) : List GAtom :=
  P.preds.flatMap (fun (p, ar) => (tuples P.consts ar).map (GAtom.mk p))

/-- position in the table `H` (`H.length` if absent) -/
def idIn (H : List GAtom) (a : GAtom) : Nat := H.idxOf a

/-- atoms outside the Herbrand base get the out-of-range id `natoms` (never true, never set): see `wellFormed` -/
def atomId (P : FOProgram) (a : GAtom) : Nat := idIn (herbrand P) a

def SRule.toRule (aid : GAtom → Nat) (r : SRule) : Sem.Rule :=
  { head := aid r.head
    pos := (r.body.filter (fun l => l.1)).map (fun l => aid l.2)
    neg := (r.body.filter (fun l => !l.1)).map (fun l => aid l.2)
    choice := r.choice }

/-- The Herbrand instantiation (`idIn H` is `atomId P`; the table is built once). -/
def ground (P : FOProgram) : Sem.Prog :=
  let H := herbrand P
  let g := groundSym P
  { natoms := H.length
    nchoices := totalChoices P.consts P.stmts
    rules := g.1.map (SRule.toRule (idIn H))
    groups := g.2 }

/-! ### queries and evidence -/

/-- the instances of one query atom: a variable slot ranges over all constants -/
def queryInst (cs : List String) (q : Atom) : List GAtom :=
  (product (q.args.map (fun t => match t with
    | .var _ => cs
    | .const c => [c]))).map (GAtom.mk q.pred)

/-- `spine.query_instances` -/
def queryInstances (P : FOProgram) : List GAtom := dedup (P.queries.flatMap (queryInst P.consts))

def queryIds (P : FOProgram) : List Nat :=
  let H := herbrand P
  (queryInstances P).map (idIn H)

def evidenceIds (P : FOProgram) : List (Nat × Bool) :=
  let H := herbrand P
  P.evidence.map (fun (a, v) => (idIn H (a.subst []), v))

/-- every ground atom the program mentions belongs to the Herbrand base of the declared signature
    (so that `atomId` is injective on them) -/
def wellFormed (P : FOProgram) : Bool :=
  let H := herbrand P
  (groundSym P).1.all (fun r => H.contains r.head && r.body.all (fun l => H.contains l.2)) &&
    (queryInstances P).all H.contains && P.evidence.all (fun (a, _) => H.contains (a.subst []))

/-- The distribution semantics of a first-order program: `Sem.run` of its Herbrand instantiation. -/
def run (P : FOProgram) : Sem.Result := Sem.run (ground P) (queryIds P) (evidenceIds P)

end ProbLogModel.SemFO
