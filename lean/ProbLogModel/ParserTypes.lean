/-
Types shared by the generated operator table (`Generated/OpTable.lean`) and the parser model (`Parser.lean`).
Mirrors `class Token` of problog/parser.py:70-133.
-/
namespace ProbLogModel.Parser

/-- Operator type strings of parser.py (`"xfx"`, `"xfy"`, `"yfx"`, `"fy"`, `"fx"`). -/
inductive Spec where
  | xfx | xfy | yfx | fy | fx
  deriving DecidableEq, Repr, Inhabited

/-- `len(spec) == 3` (parser.py:1125). -/
def Spec.isBin : Spec → Bool
  | .xfx | .xfy | .yfx => true
  | _ => false

/-- `spec[0]` of a binary spec: is the left argument position an `x`? -/
def Spec.leftX : Spec → Bool
  | .xfx | .xfy => true
  | _ => false

/-- `spec[2]` of a binary spec: is the right argument position an `x`? -/
def Spec.rightX : Spec → Bool
  | .xfx | .yfx => true
  | _ => false

/-- `spec[1]` of a unary spec: is the argument position an `x`? -/
def Spec.argX : Spec → Bool
  | .fx => true
  | _ => false

def Spec.name : Spec → String
  | .xfx => "xfx" | .xfy => "xfy" | .yfx => "yfx" | .fy => "fy" | .fx => "fx"

/-- The third component of an operator tuple: which factory method builds the node. -/
inductive Builder where
  | binop | conjunction | disjunction | probabilistic | clause | unop | not_ | directive
  deriving DecidableEq, Repr, Inhabited

def Builder.name : Builder → String
  | .binop => "binop" | .conjunction => "conjunction" | .disjunction => "disjunction"
  | .probabilistic => "probabilistic" | .clause => "clause" | .unop => "unop" | .not_ => "not_"
  | .directive => "directive"

/-- `(priority, spec, builder)` -/
structure OpDef where
  prio : Nat
  spec : Spec
  builder : Builder
  deriving DecidableEq, Repr, Inhabited

inductive Special where
  | parenOpen | parenClose | end_ | comma | brackOpen | brackClose | variable | float | integer | pipe
  | string | arglist | sharpOpen | sharpClose | hexInteger
  deriving DecidableEq, Repr, Inhabited

def Special.name : Special → String
  | .parenOpen => "parenOpen" | .parenClose => "parenClose" | .end_ => "end_" | .comma => "comma"
  | .brackOpen => "brackOpen" | .brackClose => "brackClose" | .variable => "variable" | .float => "float"
  | .integer => "integer" | .pipe => "pipe" | .string => "string" | .arglist => "arglist"
  | .sharpOpen => "sharpOpen" | .sharpClose => "sharpClose" | .hexInteger => "hexInteger"

/-- A raw token as produced by the tokenizer (parser.py:70-99). `arglist` and `is_comma_list` start as `False`
    and are per-token labelling state, kept in `Item`. -/
structure Tok where
  str : String
  atom : Bool
  functor : Bool
  binop : Option OpDef
  unop : Option OpDef
  special : Option Special
  aggregate : Bool
  deriving DecidableEq, Repr, Inhabited

/-- `Token.priority` (parser.py:104-111). -/
def Tok.priority (t : Tok) : Nat :=
  match t.binop with
  | some b => b.prio
  | none => match t.unop with
    | some u => u.prio
    | none => 0

/-- `Token.count_options` (parser.py:113-123). -/
def Tok.countOptions (t : Tok) : Nat :=
  (if t.atom then 1 else 0) + (if t.binop.isSome then 1 else 0) + (if t.unop.isSome then 1 else 0)
    + (if t.functor then 1 else 0)

/-- One row of a table-driven `_token_*` method: the lexeme tested with `s[pos:pos+k] == lexeme` (or the dispatch
    character in the final `else`), the token constructed and whether `functor=self._next_paren_open(s, pos)` is
    passed; `error` = `raise UnexpectedCharacter`; `comment` = `/*` block comment. -/
inductive SymEntry where
  | tok (lexeme : String) (t : Tok) (functorTest : Bool)
  | error (lexeme : String)
  | comment (lexeme : String)
  deriving Repr, Inhabited

def SymEntry.lexeme : SymEntry → String
  | .tok l _ _ => l
  | .error l => l
  | .comment l => l

end ProbLogModel.Parser
