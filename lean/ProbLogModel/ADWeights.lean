import ProbLogModel.SemiringPrelude
import ProbLogModel.Generated.Semirings
/-
Hand-written model of the weight-extraction path that rejects invalid probability annotations (C30):

  problog/formula.py:113   BaseFormula.extract_weights   (the "remaining program weights" loop and the constraints loop)
  problog/constraint.py:199 ConstraintAD.update_weights

The semiring methods it calls are the GENERATED ones (ProbLogModel.Generated.Semirings), packaged in `SROps`.
Atoms of the ground program are numbered 0..n-1 in the order of `formula.get_weights()`; an AD constraint is the list
of its grounded head atoms (`self.nodes`) and its extra node.
Core Lean only.
-/
namespace ProbLogModel.ADWeights
open ProbLogModel.SemiringPrelude ProbLogModel.Generated

/-- The semiring methods used by weight extraction (`C` internal values, `E` external values). -/
structure SROps (C E : Type) where
  one : C
  pos_value : E → Int → PyRes C
  neg_value : E → Int → PyRes C
  ad_negate : C → C → C
  ad_complement : List C → Int → PyRes C
  in_domain : C → Bool

def probOps : SROps Rat Rat where
  one := SemiringProbability.one
  pos_value := SemiringProbability.pos_value
  neg_value := SemiringProbability.neg_value
  ad_negate := SemiringProbability.ad_negate
  ad_complement := fun ws k => pure (SemiringProbability.ad_complement ws k)
  in_domain := SemiringProbability.in_domain

def logOps (α : Type) [LogNum α] : SROps α α where
  one := SemiringLogProbability.one
  pos_value := SemiringLogProbability.pos_value
  neg_value := SemiringLogProbability.neg_value
  ad_negate := SemiringLogProbability.ad_negate
  ad_complement := SemiringLogProbability.ad_complement
  in_domain := SemiringLogProbability.in_domain

/-- `weights.get(n, (semiring.one(), semiring.one()))` (constraint.py:203). -/
def getW {C E : Type} (S : SROps C E) (weights : List (C × C)) (n : Nat) : C × C :=
  match weights[n]? with
  | some w => w
  | none => (S.one, S.one)

/-- constraint.py:199-230 `ConstraintAD.update_weights`.
    `nodes` = grounded heads of this AD (`self.nodes`), `extra` = `self.extra_node`.
    * `is_nontrivial()` is `len(self.nodes) > 1` (constraint.py:91 `is_true`): with fewer than two grounded heads
      nothing is checked;
    * the `try … except InvalidValue: raise InvalidValue` re-raises the same class, so it is the plain sequence below;
      any other exception of `ad_complement` propagates unchanged. -/
def updateAD {C E : Type} (S : SROps C E) (weights : List (C × C)) (nodes : List Nat) (extra : Nat) :
    PyRes (List (C × C)) :=
  if nodes.length ≤ 1 then pure weights
  else do
    -- for n in self.nodes: pos, neg = weights.get(n, …); weights[n] = (pos, ad_negate(pos, neg)); ws.append(pos)
    let ws := nodes.map (fun n => (getW S weights n).1)
    let weights := nodes.foldl (fun w n => let pn := getW S w n; w.set n (pn.1, S.ad_negate pn.1 pn.2)) weights
    let complement ← S.ad_complement ws 0
    if !(S.in_domain complement) then throw PyErr.InvalidValue
    else pure (weights.set extra (complement, S.ad_negate complement S.one))

/-- formula.py:175-195: every atom's external weight goes through `pos_value` / `neg_value` (InvalidValue for an
    annotation outside the semiring's domain), then every constraint updates the weights. -/
def extractWeights {C E : Type} (S : SROps C E) (ext : List E) (ads : List (List Nat × Nat)) : PyRes (List (C × C)) := do
  let base ← ext.mapM (fun w => do
    let p ← S.pos_value w 0
    let n ← S.neg_value w 0
    pure (p, n))
  ads.foldlM (fun w ad => updateAD S w ad.1 ad.2) base

end ProbLogModel.ADWeights
