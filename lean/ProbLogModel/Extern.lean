import ProbLogModel.PyPl
/-!
Model of the wrapper that `problog_export` / `problog_export_nondet` / `problog_export_raw` put around a Python
function (problog/extern.py) — property C28, "an exported function is seen from ProbLog as returning exactly its Python
result".

What is modelled, as written in the Python:

* `_extract_callmode` (extern.py:79-95): the accepted call modes are enumerated for `i in range(0, 1 << n)`; in mode `i`
  output `j` carries its type's mode character when bit `n - j - 1` of `i` is set, else `'v'`;
* `check_mode` (engine_builtin.py:609-636): the index of the FIRST accepted mode all of whose characters accept the
  arguments, `CallModeError` when there is none;
* the loop of `_wrapped_function` (extern.py:153-163): result `i` is converted with `_convert_output`; when bit
  `n - i - 1` of the mode index is set it is unified with the call's argument (`unify_value`), a `UnifyError` makes the
  call fail (`return []`).

Abstractions: an argument of the call is either an unbound variable or a *ground* term, so `unify_value(r, t, {})`
succeeds iff `r = t` (structural equality of `Pl`; the harness keeps numerically equal int/float pairs such as `2` and
`2.0`, which `Constant.__eq__` identifies, out of the inputs).  Input arguments are not part of the decision and are left
out (they are ground and passed through unchanged: `args[:len(self.input_arguments)]`).
-/
namespace ProbLogModel.Extern
open ProbLogModel.PyPl

/-- Type specifiers of an exported argument. -/
inductive Ty where
  | int | float | str | list | term
  deriving DecidableEq, Repr

/-- An argument of the call as `check_mode` and `unify_value` see it. -/
inductive Arg where
  | unbound
  | bound (t : Pl)
  deriving DecidableEq, Repr

def Arg.isBound : Arg → Bool
  | .unbound => false
  | .bound _ => true

/-- `_is_fixed_list`: a `'.'/2` chain that ends in `[]`. -/
def isFixedList : Pl → Bool
  | .app2 f _ b => f == "." && isFixedList b
  | .atom f => f == "[]"
  | _ => false

/-- The test of the type's mode character (`_type_to_callmode`, `mode_types`) on a ground term:
    `i` integer, `f` float, `s` string or atom, `L` fixed list, `*` any. -/
def typeOk : Ty → Pl → Bool
  | .int, .cint _ => true
  | .float, .cflt _ => true
  | .str, .cstr _ => true
  | .str, .atom _ => true
  | .list, t => isFixedList t
  | .term, _ => true
  | _, _ => false

/-- One character of a call mode against one argument. `bit` = the mode index has this output's bit set, i.e. the
    character is the type's own character; otherwise it is `'v'` (`_is_var`).  `'*'` (type `term`) accepts everything,
    an unbound variable included. -/
def argMatches (ty : Ty) (bit : Bool) : Arg → Bool
  | .unbound => !bit || ty == .term
  | .bound t => bit && typeOk ty t

/-- Mode `i` accepts the output arguments. The bit of output `j` is `n - j - 1` = the number of outputs after it. -/
def modeMatches : List (Ty × Arg) → Nat → Bool
  | [], _ => true
  | (ty, a) :: rest, i => argMatches ty (i.testBit rest.length) a && modeMatches rest i

/-- `check_mode(args, list(self._extract_callmode()), …)`; `none` = `CallModeError`. -/
def checkMode (targs : List (Ty × Arg)) : Option Nat :=
  (List.range (2 ^ targs.length)).find? (modeMatches targs)

/-- The loop over the converted results; `none` = `UnifyError` (the call fails). `testBit` of the mode index at
    `n - i - 1` (current code of all three decorators after repo_patches/C28_raw_bound_bit.diff). -/
def wrapLoop (bound : Nat) : List (Ty × Arg) → List Pl → Option (List Pl)
  | (_, a) :: rest, r :: rs =>
    if bound.testBit rest.length then
      match a with
      | .bound t => if r = t then (wrapLoop bound rest rs).map (r :: ·) else none
      | .unbound => (wrapLoop bound rest rs).map (r :: ·)       -- unify_value with a variable returns `r`
    else (wrapLoop bound rest rs).map (r :: ·)
  | _, _ => some []

/-- The same loop with the bit order of `problog_export_raw` before the fix: `bound & (1 << i)` (`i` counted from the
    first argument).  `k` = index of the head of the list. -/
def wrapLoopRev (bound : Nat) (k : Nat) : List (Ty × Arg) → List Pl → Option (List Pl)
  | (_, a) :: rest, r :: rs =>
    if bound.testBit k then
      match a with
      | .bound t => if r = t then (wrapLoopRev bound (k + 1) rest rs).map (r :: ·) else none
      | .unbound => (wrapLoopRev bound (k + 1) rest rs).map (r :: ·)
    else (wrapLoopRev bound (k + 1) rest rs).map (r :: ·)
  | _, _ => some []

/-- What ProbLog sees of one call. -/
inductive Outcome where
  | modeError                       -- CallModeError
  | fail                            -- no answer
  | ok (outs : List Pl)             -- one answer with these output arguments
  deriving DecidableEq, Repr

/-- `_wrapped_function` of `problog_export` on the converted results `rs`. -/
def exportCall (targs : List (Ty × Arg)) (rs : List Pl) : Outcome :=
  match checkMode targs with
  | none => .modeError
  | some b =>
    match wrapLoop b targs rs with
    | none => .fail
    | some xs => .ok xs

/-- The variant with the reversed bit test. -/
def exportCallRev (targs : List (Ty × Arg)) (rs : List Pl) : Outcome :=
  match checkMode targs with
  | none => .modeError
  | some b =>
    match wrapLoopRev b 0 targs rs with
    | none => .fail
    | some xs => .ok xs

/-- `problog_export_nondet` / `problog_export_raw`: every result tuple goes through the same loop, the failing ones are
    dropped; `none` = `CallModeError`. -/
def exportCallNondet (targs : List (Ty × Arg)) (rss : List (List Pl)) : Option (List (List Pl)) :=
  match checkMode targs with
  | none => none
  | some b => some (rss.filterMap (wrapLoop b targs))

/-- The specification: every bound output equals the corresponding converted result. -/
def allMatch : List (Ty × Arg) → List Pl → Bool
  | (_, .bound t) :: rest, r :: rs => decide (r = t) && allMatch rest rs
  | (_, .unbound) :: rest, _ :: rs => allMatch rest rs
  | _, _ => true

/-- Every bound argument passes its type's mode test (otherwise the call raises CallModeError). -/
def wellTyped : List (Ty × Arg) → Bool
  | [] => true
  | (ty, .bound t) :: rest => typeOk ty t && wellTyped rest
  | (_, .unbound) :: rest => wellTyped rest

/-- `_convert_output` (extern.py:97-120) on the Python values of the model; `none` = a Python value that does not have
    the declared type (outside the model: `Constant('x')` for an `int` output etc.). -/
def convertOutput : Ty → PyVal → Option Pl
  | .int, .int i => some (.cint i)                  -- Constant(a)
  | .float, .flt q => some (.cflt (round15 q))      -- Constant(a) rounds to 15 decimals
  | .str, .str s => some (.atom s)                  -- Term(a)
  | .list, .list xs => some (list2term xs)
  | .term, .term t => some t
  | .term, .str s => some (.atom s)                 -- `if not isinstance(a, Term): return Term(a)`
  | _, _ => none

end ProbLogModel.Extern
