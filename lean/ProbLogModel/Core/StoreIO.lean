/-
Serialisation of `Formula.Store` for the line protocol (I/O glue, not part of any theorem).
Format: (store (opts ac anc ko ka maxarity kd) (nodes N*) (weights (i W)*) (names (label name key)*) (ads (g (n*) e)*))
-/
import ProbLogModel.Core.Proto
import ProbLogModel.Formula
namespace ProbLogModel.StoreIO
open ProbLogModel.Proto ProbLogModel.Formula

def pKey (s : String) : Option Key := if s == "N" then some none else s.toInt?.map some
def rKey : Key → String
  | none => "N"
  | some k => toString k
def pBool (s : String) : Bool := s == "t" || s == "true"
def rB (b : Bool) : String := if b then "t" else "f"
def rName : Option Name → String
  | none => "-"
  | some (.pos n) => "n" ++ toString n
  | some (.neg n) => "~n" ++ toString n
  | some (.extra g) => "x" ++ toString g
  | some (.negExtra g) => "~x" ++ toString g
def pName (s : String) : Option (Option Name) :=
  if s == "-" then some none
  else if s.startsWith "~n" then (s.drop 2).toNat?.map (fun n => some (.neg n))
  else if s.startsWith "~x" then (s.drop 2).toNat?.map (fun n => some (.negExtra n))
  else if s.startsWith "n" then (s.drop 1).toNat?.map (fun n => some (.pos n))
  else if s.startsWith "x" then (s.drop 1).toNat?.map (fun n => some (.extra n))
  else none
def rIdent : Ident → String
  | .user n => toString n
  | .extra g => "x" ++ toString g
def pIdent (s : String) : Option Ident :=
  if s.startsWith "x" then (s.drop 1).toNat?.map Ident.extra else s.toInt?.map Ident.user
def rKeys (l : List Key) : String := renderList (l.map rKey)
def pKeys : SExp → Option (List Key)
  | .list xs => xs.mapM (fun x => match x with | .atom s => pKey s | _ => none)
  | _ => none
def rNode : Node → String
  | .atom i g e n => renderList ["atom", rIdent i, (match g with | none => "-" | some g => toString g), rB e, rName n]
  | .conj c n => renderList ["conj", rKeys c, rName n]
  | .disj c n => renderList ["disj", rKeys c, rName n]
def pNode : SExp → Option Node
  | .list [.atom "atom", .atom i, .atom g, .atom e, .atom n] => do
    let i ← pIdent i
    let g ← (if g == "-" then some none else g.toNat?.map some)
    let n ← pName n
    some (.atom i g (pBool e) n)
  | .list [.atom "conj", ks, .atom n] => do
    let ks ← pKeys ks
    let n ← pName n
    some (.conj ks n)
  | .list [.atom "disj", ks, .atom n] => do
    let ks ← pKeys ks
    let n ← pName n
    some (.disj ks n)
  | _ => none
def rWeight : Weight → String
  | .neutral => "T" | .prob q => renderRat q | .tt => "None" | .ff => "False"
def pWeight (s : String) : Option Weight :=
  if s == "T" then some .neutral else if s == "None" then some .tt else if s == "False" then some .ff
  else (parseRat s).map Weight.prob
def rLabel : Label → String
  | .query => "query" | .evPos => "ev+" | .evNeg => "ev-" | .evMaybe => "ev?" | .named => "named" | .other n => "l" ++ toString n
def pLabel (s : String) : Label :=
  if s == "query" then .query else if s == "ev+" then .evPos else if s == "ev-" then .evNeg
  else if s == "ev?" then .evMaybe else if s == "named" then .named else .other ((s.drop 1).toNat?.getD 0)

def rOpts (o : Opts) : String :=
  renderList ["opts", rB o.autoCompact, rB o.avoidNameClash, rB o.keepOrder, rB o.keepAll, toString o.maxArity, rB o.keepDuplicates]

def rStore (S : Store) : String :=
  renderList ["store", rOpts S.opts,
    renderList ("nodes" :: S.nodes.map rNode),
    renderList ("weights" :: S.weights.map (fun (i, w) => renderList [toString i, rWeight w])),
    renderList ("names" :: S.names.map (fun (l, n, k) => renderList [rLabel l, rName (some n), rKey k])),
    renderList ("ads" :: S.ads.map (fun c => renderList [toString c.group, renderList (c.nodes.map toString),
      (match c.extra with | none => "-" | some e => toString e)]))]

def pStore : SExp → Option Store
  | .list [.atom "store", .list (.atom "opts" :: os), .list (.atom "nodes" :: ns), .list (.atom "weights" :: ws),
           .list (.atom "names" :: nms), .list (.atom "ads" :: ads)] => do
    let o : Opts ← match os.map SExp.render with
      | [ac, anc, ko, ka, ma, kd] => some { autoCompact := pBool ac, avoidNameClash := pBool anc, keepOrder := pBool ko,
                                            keepAll := pBool ka, maxArity := ma.toNat?.getD 0, keepDuplicates := pBool kd }
      | _ => none
    let nodes ← ns.mapM pNode
    let weights ← ws.mapM (fun e => match e with
      | .list [.atom i, .atom w] => do some ((← i.toNat?), (← pWeight w))
      | _ => none)
    let names ← nms.mapM (fun e => match e with
      | .list [.atom l, .atom n, .atom k] => do
        let n ← pName n
        let n ← n
        some (pLabel l, n, (← pKey k))
      | _ => none)
    let ads ← ads.mapM (fun e => match e with
      | .list [.atom g, .list ms, .atom ex] => do
        let ms ← ms.mapM (fun m => match m with | .atom s => s.toNat? | _ => none)
        some ({ group := (← g.toNat?), nodes := ms, extra := (if ex == "-" then none else ex.toNat?) } : ADC)
      | _ => none)
    some { opts := o, nodes := nodes, weights := weights, names := names, ads := ads }
  | _ => none

end ProbLogModel.StoreIO
