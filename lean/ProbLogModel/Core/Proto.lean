/-
Line protocol shared by all drivers: one operation per line, arguments as S-expressions.
Not part of any theorem; trusted as I/O glue (see DESIGN.md §8).
-/
namespace ProbLogModel.Proto

inductive SExp where
  | atom (s : String)
  | list (xs : List SExp)
  deriving Repr, Inhabited, BEq

partial def SExp.render : SExp → String
  | .atom s => s
  | .list xs => "(" ++ " ".intercalate (xs.map SExp.render) ++ ")"

instance : ToString SExp := ⟨SExp.render⟩

/-- Tokens: "(" , ")" , or a maximal run of non-space non-paren characters.
    A token starting with `"` extends to the matching closing `"` (backslash escapes). -/
partial def tokenize (cs : List Char) (cur : List Char) (acc : Array String) : Array String :=
  let flush (acc : Array String) := if cur.isEmpty then acc else acc.push (String.ofList cur.reverse)
  match cs with
  | [] => flush acc
  | c :: rest =>
    if c == '(' || c == ')' then tokenize rest [] ((flush acc).push (String.singleton c))
    else if c == ' ' || c == '\t' || c == '\n' || c == '\r' then tokenize rest [] (flush acc)
    else if c == '"' && cur.isEmpty then
      let rec str (cs : List Char) (cur : List Char) : List Char × List Char :=
        match cs with
        | [] => (cur, [])
        | '\\' :: d :: rest => str rest (d :: '\\' :: cur)
        | '"' :: rest => ('"' :: cur, rest)
        | d :: rest => str rest (d :: cur)
      let (tok, rest') := str rest ['"']
      tokenize rest' [] (acc.push (String.ofList tok.reverse))
    else tokenize rest (c :: cur) acc

partial def parseToks (toks : List String) : Option (SExp × List String) :=
  match toks with
  | [] => none
  | "(" :: rest =>
    let rec go (toks : List String) (acc : Array SExp) : Option (SExp × List String) :=
      match toks with
      | [] => none
      | ")" :: rest => some (.list acc.toList, rest)
      | _ => match parseToks toks with
        | some (e, rest) => go rest (acc.push e)
        | none => none
    go rest #[]
  | ")" :: _ => none
  | t :: rest => some (.atom t, rest)

/-- Parse a whole line into the list of top-level S-expressions. -/
partial def parseLine (s : String) : Option (List SExp) :=
  let toks := (tokenize s.toList [] #[]).toList
  let rec go (toks : List String) (acc : Array SExp) : Option (List SExp) :=
    match toks with
    | [] => some acc.toList
    | _ => match parseToks toks with
      | some (e, rest) => go rest (acc.push e)
      | none => none
  go toks #[]

def SExp.int? : SExp → Option Int
  | .atom s => s.toInt?
  | _ => none

def SExp.nat? : SExp → Option Nat
  | .atom s => s.toNat?
  | _ => none

def SExp.str? : SExp → Option String
  | .atom s => some s
  | _ => none

def SExp.items? : SExp → Option (List SExp)
  | .list xs => some xs
  | _ => none

/-- Rationals are written `n/d` or `n`. -/
def parseRat (s : String) : Option Rat :=
  match s.splitOn "/" with
  | [n] => n.toInt?.map (fun (i : Int) => (i : Rat))
  | [n, d] => match n.toInt?, d.toNat? with
    | some n, some d => if d == 0 then none else some ((n : Rat) / (d : Rat))
    | _, _ => none
  | _ => none

def SExp.rat? : SExp → Option Rat
  | .atom s => parseRat s
  | _ => none

def renderRat (q : Rat) : String :=
  if q.den == 1 then toString q.num else toString q.num ++ "/" ++ toString q.den

def renderList (xs : List String) : String := "(" ++ " ".intercalate xs ++ ")"

/-- Strip surrounding double quotes of a string token and undo backslash escapes. -/
def unquote (s : String) : String :=
  let cs := s.toList
  match cs with
  | '"' :: rest =>
    let body := rest.dropLast
    let rec go : List Char → List Char
      | [] => []
      | '\\' :: 'n' :: r => '\n' :: go r
      | '\\' :: d :: r => d :: go r
      | d :: r => d :: go r
    String.ofList (go body)
  | _ => s

def quote (s : String) : String :=
  let rec go : List Char → List Char
    | [] => []
    | '"' :: r => '\\' :: '"' :: go r
    | '\\' :: r => '\\' :: '\\' :: go r
    | '\n' :: r => '\\' :: 'n' :: go r
    | d :: r => d :: go r
  "\"" ++ String.ofList (go s.toList) ++ "\""

/-- Generic driver loop: `step` maps a state and one input line to a new state and one output line. -/
partial def loop {σ : Type} (h : IO.FS.Stream) (out : IO.FS.Stream) (step : σ → String → σ × String) (s : σ) : IO Unit := do
  let line ← h.getLine
  if line.isEmpty then return ()
  let (s', o) := step s line
  out.putStrLn o
  loop h out step s'

def runDriver {σ : Type} (init : σ) (step : σ → String → σ × String) : IO Unit := do
  let i ← IO.getStdin
  let o ← IO.getStdout
  loop i o step init
  o.flush

end ProbLogModel.Proto
