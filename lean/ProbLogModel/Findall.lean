/-!
# Model of the world-splitting of findall/3 and all/3 (property C19)

Mirrors `problog/engine_builtin.py`:

* `_select_sublist`          (engine_builtin.py:1351-1406)
* the loop of `_builtin_all` (engine_builtin.py:1463-1479)
* the loop of `_builtin_findall_base` (engine_builtin.py:1563-1579)

and, from `problog/formula.py`, `LogicFormula.TRUE = 0`, `LogicFormula.FALSE = None`,
`LogicFormula.negate` (formula.py:373-388) and the two ways `add_and` can return `FALSE`
(formula.py:826-850, `_add_compound` with `t = FALSE`, `f = TRUE`).

Core Lean only (no Mathlib / Batteries): the driver `Drivers.C19` links this module.
-/
namespace ProbLogModel.Findall

/-- Result terms are uninterpreted by the world-splitting. -/
abbrev Term := String

/-- A node key of a `LogicFormula`: `TRUE` (= the Python int `0`), `FALSE` (= `None`) or a signed node id.

    The Python value `0` has two spellings here, `tt` and `lit 0`; every definition below treats them alike
    (exactly as `key == self.TRUE` does), so no well-formedness hypothesis is needed in the theorems. -/
inductive Node where
  | tt
  | ff
  | lit (i : Int)
  deriving DecidableEq, Repr, Inhabited

namespace Node

/-- `key == target.TRUE` (TRUE = 0). -/
def isTrue : Node → Bool
  | tt => true
  | ff => false
  | lit i => i == 0

/-- `key == target.FALSE` (FALSE = None). -/
def isFalse : Node → Bool
  | ff => true
  | _ => false

/-- `key in (target.TRUE, target.FALSE)` — engine_builtin.py:1370 (negated there). -/
def isDet (n : Node) : Bool := n.isTrue || n.isFalse

/-- `LogicFormula.negate` — formula.py:383-388. -/
def negate : Node → Node
  | tt => ff                                  -- formula.py:383-384 `key == self.TRUE`
  | ff => tt                                  -- formula.py:385-386 `key == self.FALSE`
  | lit i => if i == 0 then ff else lit (-i)  -- formula.py:383-384 (0 is TRUE) / :387-388 `-key`

/-- Truth value of a node key under a valuation of the (positive) node ids. -/
def eval (v : Int → Bool) : Node → Bool
  | tt => true
  | ff => false
  | lit i => if i == 0 then true else if i > 0 then v i else !(v (-i))

end Node

/-- An element of the list handed to `_select_sublist`: `(result term, node)`. -/
abbrev Elem := Term × Node

/-- The loop computing `choice_bits` — engine_builtin.py:1367-1372.
    `x` is the next free bit; returns the array and the final `x`. -/
def choiceBits : List Elem → Nat → List (Option Nat) × Nat
  | [], x => ([], x)
  | e :: rest, x =>
    if !e.2.isDet then                          -- :1370 `lst[i][1] not in (TRUE, FALSE)`
      let r := choiceBits rest (x + 1)          -- :1371-1372 `choice_bits[i] = x; x += 1`
      (some x :: r.1, r.2)
    else
      let r := choiceBits rest x                -- stays `None`
      (none :: r.1, r.2)

/-- `n & 1 << b` as a Python truth value (`<<` binds tighter than `&`). -/
def bitSet (n b : Nat) : Bool := (n &&& (1 <<< b)) != 0

/-- Filter condition of `sublist` — engine_builtin.py:1383-1384. -/
def keepCond (n : Nat) (e : Elem × Option Nat) : Bool :=
  match e.2 with
  | none => e.1.2.isTrue          -- `choice_bits[i] is None and lst[i][1] == target.TRUE`
  | some b => bitSet n b          -- `choice_bits[i] is not None and n & 1 << choice_bits[i]`

/-- Filter condition of `sublist_no` — engine_builtin.py:1392-1393. -/
def dropCond (n : Nat) (e : Elem × Option Nat) : Bool :=
  match e.2 with
  | none => e.1.2.isFalse         -- `choice_bits[i] is None and lst[i][1] == target.FALSE`
  | some b => !bitSet n b         -- `choice_bits[i] is not None and not n & 1 << choice_bits[i]`

/-- One iteration of the `while n >= 0` loop — engine_builtin.py:1378-1401: the yielded `(terms, nodes)`. -/
def pairFor (lst : List Elem) (bits : List (Option Nat)) (n : Nat) : List Term × List Node :=
  let z := lst.zip bits                                            -- index loop over `range(0, ln)`
  let sublist := (z.filter (keepCond n)).map (·.1)                 -- :1380-1385
  let sublistNo := (z.filter (dropCond n)).map (fun e => e.1.2.negate)  -- :1388-1395
  -- :1396-1400 `terms, nodes = zip(*sublist)` (or `(), ()`); :1401 `nodes + sublist_no + (0,)`, 0 = TRUE
  (sublist.map (·.1), sublist.map (·.2) ++ sublistNo ++ [Node.tt])

/-- `n, n-1, …, 0` — the values taken by `n` in `while n >= 0: …; n -= 1` (:1378, :1402). -/
def countdown : Nat → List Nat
  | 0 => [0]
  | n + 1 => (n + 1) :: countdown n

/-- `_select_sublist(lst, target)` — all yielded pairs in generation order. -/
def selectSublist (lst : List Elem) : List (List Term × List Node) :=
  let cb := choiceBits lst 0
  (countdown ((1 <<< cb.2) - 1)).map (pairFor lst cb.1)            -- :1376 `n = (1 << x) - 1`

/-! ## Callers (at the level of the `(list, condition)` pairs) -/

/-- `_builtin_findall_base`: every pair of `_select_sublist(new_results, target)` is processed
    (engine_builtin.py:1564); `lst` is `new_results` after the sort of :1561. -/
def findallPairs (lst : List Elem) : List (List Term × List Node) := selectSublist lst

/-- `_builtin_all`: `if not l and not allow_none: continue` (engine_builtin.py:1463-1465). -/
def allPairs (allowNone : Bool) (lst : List Elem) : List (List Term × List Node) :=
  (selectSublist lst).filter (fun p => !(p.1.isEmpty && !allowNone))

/-- The condition of a pair holds in the world described by `v`. -/
def condHolds (v : Int → Bool) (p : List Term × List Node) : Bool := p.2.all (Node.eval v)

/-- The list findall/3 must produce in the world `v`: the elements whose node is true, in list order. -/
def trueSublist (v : Int → Bool) (lst : List Elem) : List Term :=
  (lst.filter (fun e => e.2.eval v)).map (·.1)

/-- Two keys are opposite literals (`x` and `-x`, `x ≠ 0`). -/
def opposite : Node → Node → Bool
  | .lit i, .lit j => i != 0 && i == -j
  | _, _ => false

/-- Abstract view of when `target.add_and(n)` is `None` for a compacting formula
    (formula.py:828 `if t in content: return t` with `t = FALSE`; formula.py:849 "contains opposites").
    The callers drop such a pair (`if node is not None:` engine_builtin.py:1467, :1566). -/
def conjIsFalse (nodes : List Node) : Bool :=
  nodes.any Node.isFalse || nodes.any (fun a => nodes.any (fun b => opposite a b))

/-- The pairs that survive `if node is not None`. -/
def keptPairs (ps : List (List Term × List Node)) : List (List Term × List Node) :=
  ps.filter (fun p => !conjIsFalse p.2)

end ProbLogModel.Findall
