/-!
# PyNum — the fragment of Python's numeric tower used by `problog/logic.py: _arithmetic_functions`

Hand-written support file for the generated `ProbLogModel/Generated/ArithTable.lean` (see
`harness/py2lean_arith/`).  A Python number is an `int` (unbounded, Lean `Int`) or a `float`.

**Abstraction of floats**: a float is modelled by the exact rational it denotes (`Rat`, core Lean); float
operations are the exact rational operations (no rounding, no `inf`/`nan`, no exponent range).  The harness
only compares the model with the implementation on inputs where every intermediate float is exactly
representable (the driver reports this), so the abstraction is checked where it is used.  All theorems of C16
about *integer* arguments are independent of this abstraction.

Python exceptions are explicit results (`PyErr`); every operation returns `PyRes`.
-/
namespace ProbLogModel.PyNum

/-- The Python exceptions the arithmetic table can raise. `unsupported` = outside the model (for example a
    non-integral float exponent, which goes through libm). -/
inductive PyErr where
  | zeroDivision   -- ZeroDivisionError
  | value          -- ValueError           (negative shift count)
  | overflow       -- OverflowError
  | type           -- TypeError            (bit operation on a float)
  | unsupported    -- not modelled
  deriving DecidableEq, Repr, Inhabited

inductive PyNum where
  | int (i : Int)
  | flt (q : Rat)
  deriving DecidableEq, Repr, Inhabited

abbrev PyRes := Except PyErr PyNum

namespace PyNum

/-- The rational denoted by a number (Python compares int and float by exact value). -/
def toRat : PyNum → Rat
  | int i => (i : Rat)
  | flt q => q

/-! ## comparisons (`< <= > >= == !=`); int/int is decided on `Int` directly -/
def lt : PyNum → PyNum → Bool
  | int a, int b => decide (a < b)
  | a, b => decide (a.toRat < b.toRat)
def le : PyNum → PyNum → Bool
  | int a, int b => decide (a ≤ b)
  | a, b => decide (a.toRat ≤ b.toRat)
def gt (a b : PyNum) : Bool := lt b a
def ge (a b : PyNum) : Bool := le b a
def eq : PyNum → PyNum → Bool
  | int a, int b => decide (a = b)
  | a, b => decide (a.toRat = b.toRat)
def ne (a b : PyNum) : Bool := !(eq a b)

/-! ## `+ - *`: int op int is an int, anything else a float -/
def add : PyNum → PyNum → PyRes
  | int a, int b => .ok (int (a + b))
  | a, b => .ok (flt (a.toRat + b.toRat))
def sub : PyNum → PyNum → PyRes
  | int a, int b => .ok (int (a - b))
  | a, b => .ok (flt (a.toRat - b.toRat))
def mul : PyNum → PyNum → PyRes
  | int a, int b => .ok (int (a * b))
  | a, b => .ok (flt (a.toRat * b.toRat))

/-- `a / b`: true division, always a float; `ZeroDivisionError` on a zero divisor. -/
def truediv (a b : PyNum) : PyRes :=
  if b.toRat = 0 then .error .zeroDivision else .ok (flt (a.toRat / b.toRat))

/-- `a // b`: floor division (int for ints, else the float `floor(a/b)`). -/
def floordiv : PyNum → PyNum → PyRes
  | int a, int b => if b = 0 then .error .zeroDivision else .ok (int (Int.fdiv a b))
  | a, b => if b.toRat = 0 then .error .zeroDivision else .ok (flt ((a.toRat / b.toRat).floor : Int))

/-- `a % b`: result has the sign of the divisor. -/
def mod : PyNum → PyNum → PyRes
  | int a, int b => if b = 0 then .error .zeroDivision else .ok (int (Int.fmod a b))
  | a, b =>
    if b.toRat = 0 then .error .zeroDivision
    else .ok (flt (a.toRat - b.toRat * (((a.toRat / b.toRat).floor : Int) : Rat)))

/-- integer-valued float? -/
def ratIsInt (q : Rat) : Bool := q.den == 1

/-- `a ** b`. int ** non-negative int is an int; int ** negative int is a float (`0 ** -1` raises
    ZeroDivisionError); with a float involved only integral exponents are modelled. -/
def pow : PyNum → PyNum → PyRes
  | int a, int b =>
    if 0 ≤ b then .ok (int (a ^ b.toNat))
    else if a = 0 then .error .zeroDivision
    else .ok (flt (1 / ((a : Rat) ^ (-b).toNat)))
  | a, b =>
    let x := a.toRat
    let y := b.toRat
    if ratIsInt y then
      let e := y.num
      if 0 ≤ e then .ok (flt (x ^ e.toNat))
      else if x = 0 then .error .zeroDivision
      else .ok (flt (1 / (x ^ (-e).toNat)))
    else .error .unsupported

/-! ## bit operations on two's-complement integers of unbounded width (`~x = -x-1`) -/
def landInt : Int → Int → Int
  | .ofNat m, .ofNat n => ((m &&& n : Nat) : Int)
  | .ofNat m, .negSucc n => ((m ^^^ (m &&& n) : Nat) : Int)          -- m & ~n
  | .negSucc m, .ofNat n => ((n ^^^ (n &&& m) : Nat) : Int)          -- ~m & n
  | .negSucc m, .negSucc n => .negSucc (m ||| n)                     -- ~m & ~n = ~(m | n)
def lorInt : Int → Int → Int
  | .ofNat m, .ofNat n => ((m ||| n : Nat) : Int)
  | .ofNat m, .negSucc n => .negSucc (n ^^^ (n &&& m))               -- m | ~n = ~(n & ~m)
  | .negSucc m, .ofNat n => .negSucc (m ^^^ (m &&& n))
  | .negSucc m, .negSucc n => .negSucc (m &&& n)                     -- ~m | ~n = ~(m & n)
def xorInt : Int → Int → Int
  | .ofNat m, .ofNat n => ((m ^^^ n : Nat) : Int)
  | .ofNat m, .negSucc n => .negSucc (m ^^^ n)                       -- m ^ ~n = ~(m ^ n)
  | .negSucc m, .ofNat n => .negSucc (m ^^^ n)
  | .negSucc m, .negSucc n => ((m ^^^ n : Nat) : Int)                -- ~m ^ ~n = m ^ n

def band : PyNum → PyNum → PyRes
  | int a, int b => .ok (int (landInt a b))
  | _, _ => .error .type
def bor : PyNum → PyNum → PyRes
  | int a, int b => .ok (int (lorInt a b))
  | _, _ => .error .type
def bxor : PyNum → PyNum → PyRes
  | int a, int b => .ok (int (xorInt a b))
  | _, _ => .error .type
def invert : PyNum → PyRes
  | int a => .ok (int (-a - 1))
  | _ => .error .type
/-- `a << b`: ValueError on a negative count. -/
def shl : PyNum → PyNum → PyRes
  | int a, int b => if b < 0 then .error .value else .ok (int (a * 2 ^ b.toNat))
  | _, _ => .error .type
/-- `a >> b`: arithmetic shift (`Int.shiftRight`), ValueError on a negative count. -/
def shr : PyNum → PyNum → PyRes
  | int a, int b => if b < 0 then .error .value else .ok (int (a >>> b.toNat))
  | _, _ => .error .type

def neg : PyNum → PyRes
  | int a => .ok (int (-a))
  | flt q => .ok (flt (-q))
def pos (a : PyNum) : PyRes := .ok a

/-- truncation toward zero of a rational -/
def ratTrunc (q : Rat) : Int := Int.tdiv q.num q.den

/-- `int(x)`: truncation toward zero. -/
def toInt : PyNum → PyRes
  | int a => .ok (int a)
  | flt q => .ok (int (ratTrunc q))
/-- `float(x)` -/
def toFloat (a : PyNum) : PyRes := .ok (flt a.toRat)
/-- `type(x)(v)` for numeric `x`: `int(v)` or `float(v)`. -/
def castLike : PyNum → PyNum → PyRes
  | int _, v => toInt v
  | flt _, v => toFloat v
/-- `abs(x)` keeps the type. -/
def abs : PyNum → PyRes
  | int a => .ok (int (a.natAbs : Int))
  | flt q => .ok (flt (if q < 0 then -q else q))
/-- `min(a, b)`: the first minimal argument. -/
def min (a b : PyNum) : PyRes := .ok (if lt b a then b else a)
/-- `max(a, b)`: the first maximal argument. -/
def max (a b : PyNum) : PyRes := .ok (if gt b a then b else a)
/-- `math.floor`, `math.ceil`, `math.trunc`: ints. -/
def floor : PyNum → PyRes
  | int a => .ok (int a)
  | flt q => .ok (int q.floor)
def ceil : PyNum → PyRes
  | int a => .ok (int a)
  | flt q => .ok (int q.ceil)
def trunc : PyNum → PyRes
  | int a => .ok (int a)
  | flt q => .ok (int (ratTrunc q))
/-- round half to even of a rational -/
def ratRoundEven (q : Rat) : Int :=
  let f := q.floor
  let d := q - (f : Rat)
  if d < 1 / 2 then f else if 1 / 2 < d then f + 1 else if f % 2 = 0 then f else f + 1
/-- `round(x)` (one argument): int, half to even. -/
def round : PyNum → PyRes
  | int a => .ok (int a)
  | flt q => .ok (int (ratRoundEven q))

/-! ## exact representability as an IEEE double (driver bookkeeping only; no theorem uses it) -/
def stripTwosAux : Nat → Nat → Nat
  | 0, n => n
  | fuel + 1, n => if n != 0 && n % 2 == 0 then stripTwosAux fuel (n / 2) else n
def stripTwos (n : Nat) : Nat := stripTwosAux n n
def isPow2 (n : Nat) : Bool := n != 0 && (n &&& (n - 1)) == 0
/-- `q` is a double (53-bit significand, normal exponent range, conservatively). -/
def ratIsDouble (q : Rat) : Bool :=
  isPow2 q.den && stripTwos q.num.natAbs < 2 ^ 53 && q.den ≤ 2 ^ 1000 && q.num.natAbs < 2 ^ 1000
def isDouble : PyNum → Bool
  | int _ => true
  | flt q => ratIsDouble q

end PyNum
end ProbLogModel.PyNum
