/-!
# IsoArith — specification of Prolog's evaluable functors on integers (and the float→integer roundings)

Written from ISO/IEC 13211-1:1995 §9 (+ Cor.2:2012 for `div`, `^`, `min`, `max`, `xor`, `truncate` …) and the
SWI-Prolog 7+ / YAP 6 manuals ("Arithmetic Functions" / "Arithmetic"), **not** from ProbLog's code.
ProbLog's docs (`docs/source/prolog.rst`) name YAP as the reference and list the supported functors.

Conventions: integer results are `Int`; `none` is `evaluation_error(zero_divisor)`.  Points on which the two
reference systems differ (or which ISO leaves implementation-defined and they differ) are given *both* readings
here and the property accepts either:

* `//` — ISO 9.1.3: rounding is the flag `integer_rounding_function`; SWI and YAP: `toward_zero`. One reading.
* `/` on two integers — ISO / YAP / SWI(iso=true): the float quotient; SWI(iso=false, default): the integer
  quotient when the division is exact. Two readings (`divFloat`, `divSwi`).
* `integer/1` — SWI: round to nearest, halves away from zero; YAP ("the integer between X and 0 closest to X"):
  truncation. Two readings.
* `round/1` — ISO `floor(x + 1/2)`; SWI (C `llround`): halves away from zero; YAP (C `rint`): halves to even.
  Readings `roundAway`, `roundEven` (ISO's own formula is a third: `roundIso`).
* `**` on two integers — ISO: float; SWI 7 (prefer_rationals=false): integer for a non-negative exponent. The
  value is the same; only the type differs.  `^` on integers: integer (negative exponent: type error in ISO,
  implementation-specific otherwise — not specified here).
* shifts by a negative count and bit operations on negative numbers are implementation defined in ISO; SWI and
  YAP use two's complement and an arithmetic `>>`; negative counts are not specified here.
* `rem` — ISO: sign of the dividend. ProbLog documents "`rem` (currently same as `mod`)": accepted deviation.
-/
namespace ProbLogModel.Iso

/-- `⌊a / b⌋` -/
def floorDiv (a b : Int) : Int := Int.fdiv a b
/-- `truncate(a / b)` (toward zero) -/
def truncDiv (a b : Int) : Int := Int.tdiv a b

/-- `X // Y` (9.1.3 intdiv with `toward_zero`) -/
def intdiv (a b : Int) : Option Int := if b = 0 then none else some (truncDiv a b)
/-- `X div Y` (Cor.2 9.1.3): `⌊x/y⌋` -/
def div (a b : Int) : Option Int := if b = 0 then none else some (floorDiv a b)
/-- `X mod Y` (9.1.3): `x − ⌊x/y⌋·y`, sign of the divisor -/
def mod (a b : Int) : Option Int := if b = 0 then none else some (a - floorDiv a b * b)
/-- `X rem Y` (9.1.3): `x − truncate(x/y)·y`, sign of the dividend -/
def rem (a b : Int) : Option Int := if b = 0 then none else some (a - truncDiv a b * b)

def add (a b : Int) : Int := a + b
def sub (a b : Int) : Int := a - b
def mul (a b : Int) : Int := a * b
def neg (a : Int) : Int := -a
/-- `abs/1` -/
def abs (a : Int) : Int := if a < 0 then -a else a
/-- `sign/1` on an integer: −1, 0, 1 (on a float the result is the float −1.0, 0.0, 1.0: the type is kept) -/
def sign (a : Int) : Int := Int.sign a
def min (a b : Int) : Int := if a ≤ b then a else b
def max (a b : Int) : Int := if a ≤ b then b else a
/-- `X ^ Y`, `X ** Y` with integer arguments and `Y ≥ 0` -/
def pow (a : Int) (n : Nat) : Int := a ^ n

/-- bit `i` of the (infinite) two's-complement representation of `a`: `⌊a / 2^i⌋` is odd -/
def bit (a : Int) (i : Nat) : Bool := decide (floorDiv a (2 ^ i) % 2 = 1)
/-- `X >> N`, `N ≥ 0`: arithmetic shift, `⌊x / 2^n⌋` -/
def shr (a : Int) (n : Nat) : Int := floorDiv a (2 ^ n)
/-- `X << N`, `N ≥ 0` -/
def shl (a : Int) (n : Nat) : Int := a * 2 ^ n
/-- `\ X`: two's complement -/
def bitnot (a : Int) : Int := -a - 1

/-! ## float → integer -/
/-- `truncate/1`: toward zero -/
def truncate (q : Rat) : Int := if 0 ≤ q then q.floor else q.ceil
def floor (q : Rat) : Int := q.floor
def ceiling (q : Rat) : Int := q.ceil
/-- nearest integer, halves away from zero (SWI `round/1`, `integer/1`) -/
def roundAway (q : Rat) : Int := if 0 ≤ q then (q + 1 / 2).floor else (q - 1 / 2).ceil
/-- ISO 9.1.6.1: `round(x) = ⌊x + 1/2⌋` -/
def roundIso (q : Rat) : Int := (q + 1 / 2).floor
/-- nearest integer, halves to even (YAP `round/1` via C `rint`) -/
def roundEven (q : Rat) : Int :=
  let f := q.floor
  if q - (f : Rat) < 1 / 2 then f
  else if 1 / 2 < q - (f : Rat) then f + 1
  else if f % 2 = 0 then f else f + 1
/-- `sign/1` on a float keeps the type -/
def signF (q : Rat) : Rat := if 0 < q then 1 else if q < 0 then -1 else 0
/-- `float_integer_part/1`: a float -/
def floatIntegerPart (q : Rat) : Rat := (truncate q : Int)
/-- `float_fractional_part/1` -/
def floatFractionalPart (q : Rat) : Rat := q - (truncate q : Int)

/-- `X / Y` on integers, reading 1 (ISO, YAP, SWI iso=true): float quotient -/
def divFloat (a b : Int) : Option Rat := if b = 0 then none else some ((a : Rat) / (b : Rat))
/-- `X / Y` on integers, reading 2 (SWI default): the integer when exact -/
def divSwi (a b : Int) : Option (Int ⊕ Rat) :=
  if b = 0 then none else if a % b = 0 then some (.inl (a / b)) else some (.inr ((a : Rat) / (b : Rat)))

end ProbLogModel.Iso
