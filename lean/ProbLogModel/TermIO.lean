import ProbLogModel.Core.Proto
import ProbLogModel.Term
/-!
Text form of `Term` for the driver line protocol (I/O glue, not part of any theorem):
`(v n)` variable, `(i n)` integer, `(f n/d)` float as exact rational, `(s "text")` string,
`(a "functor" t1 … tn)` atom / compound term (functor exactly as ProbLog stores it).
-/
namespace ProbLogModel.TermIO
open ProbLogModel ProbLogModel.Proto

partial def toTerm : SExp → Option Term
  | .list [.atom "v", .atom n] => n.toInt?.map Term.var
  | .list [.atom "i", .atom n] => n.toInt?.map Term.int
  | .list [.atom "f", .atom q] => (parseRat q).map Term.float
  | .list [.atom "s", .atom s] => some (Term.str (unquote s))
  | .list (.atom "a" :: .atom f :: args) =>
    let rec go : List SExp → Option (List Term)
      | [] => some []
      | x :: xs => match toTerm x, go xs with
        | some t, some ts => some (t :: ts)
        | _, _ => none
    (go args).map (Term.app (unquote f))
  | _ => none

partial def render : Term → String
  | .var n => "(v " ++ toString n ++ ")"
  | .int n => "(i " ++ toString n ++ ")"
  | .float q => "(f " ++ renderRat q ++ ")"
  | .str s => "(s " ++ quote s ++ ")"
  | .app f as => "(a " ++ " ".intercalate (quote f :: as.map render) ++ ")"

def toTerms : List SExp → Option (List Term)
  | [] => some []
  | x :: xs => match toTerm x, toTerms xs with
    | some t, some ts => some (t :: ts)
    | _, _ => none

end ProbLogModel.TermIO
