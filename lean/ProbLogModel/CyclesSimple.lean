/-
`breakSimple`: the depth-first translation of `problog/cycles.py` `_break_cycles` (lines 98-190) WITHOUT the
`translation` reuse table (every visit of a node recomputes it), without the evidence table (`ev = none`,
`is_evidence = False`), threading only the target store. Same branches in the same order as `Cycles.breakNode`:
TRUE child, ancestor hit (FALSE regardless of the sign), atom (`target.add_atom`), compound (children left to right
under `ancestors + [nodeid]`, then `target.add_and` / `target.add_or`), final `negate` for a negative reference.
Structurally recursive on the fuel (so it reduces in the kernel); the child loop is the list functional
`childrenWith`.

Also the side conditions used by the theorems of `ProbLogProofs/Properties/C09Unroll.lean` (all decidable or stated
over plain data): `SrcOK`, `DetOK`, `Carries`, `pullback`.

Core Lean only.
-/
import ProbLogModel.CyclesSem
namespace ProbLogModel.Cycles
open ProbLogModel.Formula

/-- The list comprehension over `node.children`, for a given translation `f` of one child: left to right, threading
    the target; `None` child = TypeError, child 0 (TRUE) returned as is (cycles.py: `if nodeid == 0: return nodeid`). -/
def childrenWith (f : Store → Int → Except CErr (Store × Key)) :
    Store → List Key → Except CErr (Store × List Key)
  | T, [] => .ok (T, [])
  | _, none :: _ => .error (.badNode 0)
  | T, some c :: rest =>
    if c = 0 then
      match childrenWith f T rest with
      | .error e => .error e
      | .ok (T', ks) => .ok (T', some 0 :: ks)
    else
      match f T c with
      | .error e => .error e
      | .ok (T1, k) =>
        match childrenWith f T1 rest with
        | .error e => .error e
        | .ok (T2, ks) => .ok (T2, k :: ks)

/-- `if negative_node: return target.negate(newnode) else: return newnode`. -/
def sgn (node : Int) (k : Key) : Key := if node < 0 then negate k else k

/-- `target.add_and(children, name)` / `target.add_or(children, name)` on the translated children. -/
def finishCompound (kind : Kind) (node : Int) (name : Option Name) (r : Except CErr (Store × List Key)) :
    Except CErr (Store × Key) :=
  match r with
  | .error e => .error e
  | .ok (T1, keys) =>
    match (match kind with
      | .conj => T1.addAnd keys name
      | .disj => T1.addOr keys true name) with
    | .error e => .error (.builder e)
    | .ok (T', k) => .ok (T', sgn node k)

/-- `_break_cycles` without the translation table. -/
def breakSimpleNode (src : Store) : Nat → Store → Int → List Nat → Except CErr (Store × Key)
  | 0, _, _, _ => .error .fuel
  | fuel + 1, T, node, anc =>
    if node = 0 then .ok (T, some 0)                         -- TRUE
    else if anc.contains node.natAbs then .ok (T, none)      -- cyclic node: node is False (regardless of the sign)
    else
      match src.nodes[node.natAbs - 1]? with
      | none => .error (.badNode node)
      | some (.atom ident group isExtra name) =>
        let w := (lookup src.weights node.natAbs).getD .neutral
        let r := T.addAtom ident (weightClass w) w group name true isExtra
        .ok (r.1, sgn node r.2)
      | some (.conj children name) =>
        finishCompound .conj node name
          (childrenWith (fun T c => breakSimpleNode src fuel T c (anc ++ [node.natAbs])) T children)
      | some (.disj children name) =>
        finishCompound .disj node name
          (childrenWith (fun T c => breakSimpleNode src fuel T c (anc ++ [node.natAbs])) T children)

/-- Translate a list of roots (queries / evidence nodes) one after the other into the same target, each with an empty
    ancestor list (the loop of `break_cycles` without the table). -/
def breakSimple (src : Store) (fuel : Nat) (T : Store) (roots : List Key) : Except CErr (Store × List Key) :=
  childrenWith (fun T c => breakSimpleNode src fuel T c []) T roots

/-! ### a structurally recursive copy of `breakNode`

`Cycles.breakNode / breakCompound / breakChildren` are mutually recursive and compiled by well-founded recursion, so
they do not reduce in the kernel (`decide` cannot evaluate them).  `breakNodeS` is the same code with the child loop as
a list functional; `ProbLogProofs.Unroll.breakNode_eq_S` proves `breakNode = breakNodeS`, which makes concrete
witnesses about `breakNode` checkable by `decide`. -/

/-- `breakChildren` with the recursive call abstracted. -/
def childrenR (f : BC → Int → Except CErr Res) :
    BC → List Key → List Key → List Nat → List Nat → Except CErr (BC × List Key × List Nat × List Nat)
  | st, [], acc, cb, content => .ok (st, acc, cb, content)
  | _, none :: _, _, _, _ => .error (.badNode 0)
  | st, some c :: rest, acc, cb, content =>
    if c = 0 then childrenR f st rest (acc ++ [some 0]) cb content
    else
      match f st c with
      | .error e => .error e
      | .ok r => childrenR f r.st rest (acc ++ [r.key]) (union cb r.cb) (union content r.content)

/-- `breakCompound` after the child loop. -/
def compoundR (nodeid : Nat) (negative : Bool) (kind : Kind) (name : Option Name)
    (rc : Except CErr (BC × List Key × List Nat × List Nat)) : Except CErr Res :=
  match rc with
  | .error e => .error e
  | .ok (st1, keys, ccb, ccontent) =>
    let newname : Option Name := match name with
      | some nm => if ccb.isEmpty then some nm else some (cbName nm (transGet st1.trans nodeid).length)
      | none => none
    let r := match kind with
      | .conj => st1.target.addAnd keys newname
      | .disj => st1.target.addOr keys true newname
    match r with
    | .error e => .error (.builder e)
    | .ok (t', k) =>
      let own : List Nat := if isProbabilistic k then [nodeid] else []
      let st' : BC := ⟨t', transAppend st1.trans nodeid ⟨k, ccb, diff ccontent ccb⟩⟩
      .ok ⟨st', if negative then negate k else k, ccb, union own ccontent⟩

def breakNodeS (src : Store) (ev : Option (List (Nat × Key))) :
    Nat → BC → Int → List Nat → Bool → Except CErr Res
  | 0, _, _, _, _ => .error .fuel
  | fuel + 1, st, node, ancestors, isEv =>
    let negative := node < 0
    let nodeid := node.natAbs
    let ret (k : Key) : Key := if negative then negate k else k
    let evv := evValue ev nodeid
    if !isEv && !isProbabilistic evv then
      .ok ⟨st, ret evv, [], []⟩
    else if ancestors.contains nodeid then
      .ok ⟨st, none, [nodeid], []⟩
    else
      let ancset := ancestors ++ [nodeid]
      match (transGet st.trans nodeid).find? (fun e => subset e.cb ancset && disjoint ancset e.cn) with
      | some e => .ok ⟨st, ret e.newnode, e.cb, e.cn⟩
      | none =>
        match src.nodes[nodeid - 1]? with
        | none => .error (.badNode node)
        | some (.atom ident group isExtra name) =>
          let w := (lookup src.weights nodeid).getD .neutral
          let (t', k) := st.target.addAtom ident (weightClass w) w group name true isExtra
          let st' : BC := ⟨t', transAppend st.trans nodeid ⟨k, [], []⟩⟩
          .ok ⟨st', ret k, [], []⟩
        | some (.conj children name) =>
          compoundR nodeid negative .conj name
            (childrenR (fun st c => breakNodeS src ev fuel st c ancset isEv) st children [] [] [])
        | some (.disj children name) =>
          compoundR nodeid negative .disj name
            (childrenR (fun st c => breakNodeS src ev fuel st c ancset isEv) st children [] [] [])

/-! ### side conditions -/

/-- 1-based index of the first atom node with identifier `id`. -/
def findAtomFrom (id : Ident) : List Node → Nat → Option Nat
  | [], _ => none
  | .atom id' _ _ _ :: r, i => if id' = id then some i else findAtomFrom id r (i + 1)
  | _ :: r, i => findAtomFrom id r (i + 1)

def findAtom (S : Store) (id : Ident) : Option Nat := findAtomFrom id S.nodes 1

/-- Source atoms have pairwise distinct identifiers: every atom node is the first one with its identifier. -/
def atomsDistinct (S : Store) : Bool :=
  (List.range S.nodes.length).all (fun i =>
    match S.nodes[i]? with
    | some (.atom id _ _ _) => findAtom S id == some (i + 1)
    | _ => true)

/-- A child is TRUE (0) or refers to an existing node (not `None`). -/
def okKey (S : Store) : Key → Bool
  | none => false
  | some k => decide (k.natAbs ≤ S.nodes.length)

def okNode (S : Store) : Node → Bool
  | .atom .. => true
  | .conj cs _ => !cs.isEmpty && cs.all (okKey S)
  | .disj cs _ => !cs.isEmpty && cs.all (okKey S)

/-- What the translation needs from the source: compound nodes have at least one child, children are TRUE or refer
    to existing nodes, and atoms have pairwise distinct identifiers. -/
def srcOK (S : Store) : Bool := S.nodes.all (okNode S) && atomsDistinct S

abbrev SrcOK (S : Store) : Prop := srcOK S = true

/-- The atom assignment respects deterministic weights: an atom stored with weight `None` (certainly true) is true,
    one with weight `False` is false. (`add_atom` folds those to TRUE / FALSE unless `keep_all`.) -/
def DetOK (src : Store) (α : Nat → Bool) : Prop :=
  ∀ i id g e nm, src.nodes[i]? = some (.atom id g e nm) →
    ((lookup src.weights (i + 1)).getD .neutral = .tt → α (i + 1) = true) ∧
    ((lookup src.weights (i + 1)).getD .neutral = .ff → α (i + 1) = false)

/-- The valuation `ρ` of the target's node ids gives every target atom the value `α` gives the source atom with the
    same identifier (atoms are identified through the target's atom table). -/
def Carries (src T : Store) (α ρ : Nat → Bool) : Prop :=
  ∀ i id g e nm j, src.nodes[i]? = some (.atom id g e nm) → lookup T.idxAtom id = some j → ρ j = α (i + 1)

/-- The atom assignment of the target induced by an assignment `α` of the source (atoms of the target that have no
    source atom - the synthetic extra choices of annotated disjunctions - are `false`). -/
def pullback (src T : Store) (α : Nat → Bool) : Nat → Bool := fun j =>
  match T.nodes[j - 1]? with
  | some (.atom id _ _ _) =>
    match findAtom src id with
    | some i => α i
    | none => false
  | _ => false

end ProbLogModel.Cycles
