/-
Big-step model of the default (buffered, tabled) grounding engine on FUNCTION-FREE programs WITH VARIABLES and without
recursion (the predicate dependency graph is acyclic): the first-order extension of `GroundAcyclic.lean`
(`problog/engine_stack.py`, `eval_nodes.py`, `engine.py`, `engine_unify.py`, `clausedb.py`), on the builder model
`Formula.lean`.

Fragment: ground (probabilistic) facts; rules, probabilistic rules and annotated disjunctions with variables whose head
variables and negated literals are bound by positive body literals (so every answer is ground); ground and non-ground
queries / evidence; repeated variables in calls, constants in heads.

What is mirrored beyond the ground model (file:line of /repo/problog):

* goals: `(functor, context)` with the unbound variables renamed in order of first occurrence
  (`DefineCache._reindex_vars`, engine_stack.py:1405-1407) = `Goal` with canonical variables `v 0, v 1, ...`.
* `DefineCache` (engine_stack.py:1394-1487): `__ground[(functor, args)] = node` and `__non_ground[goal] = ResultSet`;
  `__getitem__`: a ground goal is answered from `__ground` only, a non-ground goal from `__non_ground` only (same
  pattern up to renaming); `__setitem__` for a non-ground goal whose results are all ground also writes every
  `__ground[(functor, result)]` (overwriting).  A goal without matching clause is not tabled.
* `eval_define` (engine_stack.py:741-767): `define.children.find(context)` (`ClauseIndex.find`, clausedb.py:1033-1071) =
  the clauses whose head has, at every ground call argument, that constant or a non-ground term, in clause order; the
  hook permutes this batch (`Sched`, per goal).  `EvalDefine` buffers `ResultSet[result] += [node]` (one entry per
  distinct answer, in order of first arrival, eval_nodes.py:22-80); `flushBuffer` (eval_nodes.py:553-599):
  `add_or(nodes, readonly=True)` per answer in that order; `complete` stores the table entries and sends the results
  with a non-FALSE node (`results_to_actions`, eval_nodes.py:95-160).
* `eval_fact` / `eval_clause` (engine_stack.py:612-638, 853-906): `unify_call_head` (engine_unify.py:294-352) = the
  most general unifier of the call and the head (constants in heads and repeated call variables bind clause
  variables: `u :- t(X,X)` against `t(Y,a)` evaluates the body with `Y = a`); clause variables that stay unbound are
  fresh variables.
* `eval_call` (engine_stack.py:786-839): the call arguments are the literal's arguments under the clause context
  (`substitute_call_args`); every answer is unified back into the context (`unify_call_return`,
  engine_unify.py:386-434: an answer that does not unify is dropped).
* `EvalAnd` (eval_nodes.py:796-874) with the LIFO message stack: for every result of the first conjunct, in order, the
  rest of the conjunction is evaluated; `add_and((first, second))` is called as soon as a result of the rest arrives,
  i.e. BEFORE the next result of the rest is computed (continuation-passing `evalItems`).
* `EvalNot` on a ground goal as in the ground model.  A NON-GROUND negated call does not raise in the engine (it
  computes "no instance is true" with an `add_or` over a Python `set`, whose order is not modelled): `Err.flounder`.
* `eval_choice` (engine_stack.py:911-952): identifier `(group, context, choice)`, group `(group, context)`, name
  `choice(group, choice, head, *context)` where `context` are the values of ALL variables of the statement;
  a non-ground context raises `NonGroundProbabilisticClause` (`Err.nonGroundChoice`).
  The auxiliary body predicate of an AD statement `_problog_ad_body_N(group, heads, V0..Vn-1)` is modelled as a
  predicate of arity `n` (the first two arguments are determined by the others).
* `ClauseDBEngine.ground` (engine.py:314-360): one `add_name(term(args), node, label)` per answer with a non-FALSE
  node, in answer order; `add_name(term, FALSE, label)` (the query term itself, possibly non-ground) if there is none.

Numbering (harness = model): constants `0..nconsts-1`; a ground atom `p(args)` has the name `nameBase p + enc args`
(`enc` = the number with digits `args` in base `nconsts`); a choice of statement-choice `c` under the context `ctx`
has identifier `c.ident + enc ctx`, group `c.group + enc ctx`, name `c.name + enc ctx`.
-/
import ProbLogModel.Formula
import ProbLogModel.GroundAcyclic
namespace ProbLogModel.GroundFO
open ProbLogModel.Formula
open ProbLogModel.GroundAcyclic (permute liftB)

abbrev Const := Nat
abbrev Pred := Nat

/-- clause syntax: constant or clause variable (index `< nvars`) -/
inductive Term where
  | const (c : Const)
  | var (i : Nat)
  deriving DecidableEq, Repr, Inhabited

/-- run-time value: constant or unbound variable (identity = number) -/
inductive Val where
  | c (c : Const)
  | v (id : Nat)
  deriving DecidableEq, Repr, Inhabited

structure Atom where
  pred : Pred
  args : List Term
  deriving DecidableEq, Repr, Inhabited

inductive Lit where
  | pos (a : Atom)
  | neg (a : Atom)
  | tt
  deriving DecidableEq, Repr, Inhabited

structure Choice where
  ident : Nat
  group : Nat
  prob : Rat
  name : Nat
  deriving DecidableEq, Repr, Inhabited

inductive Clause where
  | fact (args : List Const) (ident : Nat) (prob : Option Rat)
  | rule (head : List Term) (nvars : Nat) (body : List Lit) (choice : Option Choice)
  deriving DecidableEq, Repr, Inhabited

structure Prog where
  nconsts : Nat
  /-- per predicate: its clauses in ClauseDB order -/
  defs : List (Pred × List Clause)
  /-- per predicate: first name id of its ground atoms -/
  nameBase : List (Pred × Nat)
  deriving Repr, Inhabited

def Prog.clausesOf (P : Prog) (p : Pred) : List Clause := (lookup P.defs p).getD []
def Prog.baseOf (P : Prog) (p : Pred) : Nat := (lookup P.nameBase p).getD 0

def enc (nc : Nat) (args : List Const) : Nat := args.foldl (fun acc c => acc * nc + c) 0

def Prog.atomName (P : Prog) (p : Pred) (args : List Const) : Nat := P.baseOf p + enc P.nconsts args

/-- a goal: predicate and arguments with the unbound variables numbered in order of first occurrence -/
structure Goal where
  pred : Pred
  args : List Val
  deriving DecidableEq, Repr, Inhabited

inductive Err where
  | fuel
  | builder (e : Formula.Err)
  | emptyBody
  | flounder            -- negated call with an unbound variable (not modelled)
  | nonGroundChoice     -- NonGroundProbabilisticClause
  | nonGroundAnswer     -- an answer with an unbound variable (program not range restricted: outside the fragment)
  deriving DecidableEq, Repr

def liftF {α} (r : Except Formula.Err α) : Except Err α :=
  match r with
  | .ok a => .ok a
  | .error e => .error (.builder e)

/-- results of a goal: answers (ground argument tuples) with their nodes, in `ResultSet` order -/
abbrev Results := List (List Const × Key)

structure Table where
  ground : List ((Pred × List Const) × Key) := []
  ng : List (Goal × Results) := []
  deriving Repr, Inhabited

structure St where
  table : Table := {}
  store : Store := {}
  deriving Repr, Inhabited

abbrev Sched := Goal → List Nat

/-! ### values, contexts, unification -/

abbrev Ctx := List Val

def allConsts : List Val → Option (List Const)
  | [] => some []
  | .c c :: r => (allConsts r).map (c :: ·)
  | .v _ :: _ => none

/-- replace variable `id` by `t` everywhere -/
def bindIn (id : Nat) (t : Val) (l : List Val) : List Val := l.map (fun x => if x == .v id then t else x)

def Term.val (ctx : Ctx) : Term → Val
  | .const c => .c c
  | .var i => ctx.getD i (.v i)

/-- one unification step on a substitution `σ` (the list of current values of the variables `0..`, idempotent) -/
def unifyVal (σ : List Val) (a b : Val) : Option (List Val) :=
  -- `a`, `b` already resolved
  match a, b with
  | .c x, .c y => if x == y then some σ else none
  | .v i, t => if t == .v i then some σ else some (bindIn i t σ)
  | t, .v j => some (bindIn j t σ)

def resolve (σ : List Val) : Val → Val
  | .c c => .c c
  | .v i => σ.getD i (.v i)

/-- `unify_call_head`: call arguments (variables `v j`, canonical) against head arguments (clause variables `var i`,
    `i < n`).  Joint numbering: clause variable `i` is `v i`, call variable `j` is `v (n + j)`.
    Returns the clause context (values of the `n` clause variables). -/
def varBound : List Val → Nat
  | [] => 0
  | .c _ :: r => varBound r
  | .v j :: r => max (j + 1) (varBound r)

def unifyHead (n : Nat) (call : List Val) (head : List Term) : Option Ctx :=
  let nv := n + varBound call        -- a slot for every clause variable and every call variable
  let σ0 : List Val := (List.range nv).map Val.v
  let shift : Val → Val := fun x => match x with | .c c => .c c | .v j => .v (n + j)
  let rec go : List Val → List Term → List Val → Option (List Val)
    | [], [], σ => some σ
    | a :: as, h :: hs, σ =>
      match unifyVal σ (resolve σ (shift a)) (resolve σ (match h with | .const c => .c c | .var i => .v i)) with
      | some σ' => go as hs σ'
      | none => none
    | _, _, _ => none
  (go call head σ0).map (fun σ => σ.take n)

/-- fact arguments against a call (`unify_call_head(context, node.args, context)`) -/
def unifyFact (call : List Val) (args : List Const) : Bool := (unifyHead 0 call (args.map Term.const)).isSome

/-- number the variables in order of first occurrence; returns the goal arguments and the original variable of every
    canonical index -/
def canon : List Val → List Nat → List Val × List Nat
  | [], vs => ([], vs)
  | .c c :: r, vs => let (r', vs') := canon r vs; (.c c :: r', vs')
  | .v id :: r, vs =>
    match vs.idxOf? id with
    | some k => let (r', vs') := canon r vs; (.v k :: r', vs')
    | none => let (r', vs') := canon r (vs ++ [id]); (.v vs.length :: r', vs')

/-- `unify_call_return` for a ground answer: bind the variables of the call arguments in the context;
    `none` if the answer does not fit the call -/
def bindAnswer : List Val → List Const → Ctx → Option Ctx
  | [], [], ctx => some ctx
  | a :: as, c :: cs, ctx =>
    match a with
    | .c x => if x == c then bindAnswer as cs ctx else none
    | .v id => bindAnswer (bindIn id (.c c) as) cs (bindIn id (.c c) ctx)
  | _, _, _ => none

/-- `ClauseIndex.find`: may the head match the call, looking at the ground call arguments only -/
def headMatches (call : List Val) : Clause → Bool
  | .fact args _ _ => (call.zip args).all (fun (a, c) => match a with | .c x => x == c | .v _ => true)
  | .rule head _ _ _ => (call.zip head).all (fun (a, h) => match a, h with | .c x, .const c => x == c | _, _ => true)

/-! ### the buffer of a define node -/

/-- `ResultSet.__setitem__` (not collapsed): append the node to the answer's list, new answers at the end -/
def bufAdd : List (List Const × List Key) → List Const → Key → List (List Const × List Key)
  | [], ans, k => [(ans, [k])]
  | (a, ks) :: r, ans, k => if a == ans then (a, ks ++ [k]) :: r else (a, ks) :: bufAdd r ans k

abbrev Buf := List (List Const × List Key)

/-! ### evaluation -/

inductive Item where
  | lit (l : Lit)
  | choice (c : Choice)
  deriving DecidableEq, Repr, Inhabited

def items : List Lit → Option Choice → List Item
  | body, none => body.map Item.lit
  | body, some c => body.map Item.lit ++ [Item.choice c]

/-- how a call of a goal is answered: all results of the table entry / of the fresh evaluation -/
abbrev Eval := Goal → St → Except Err (Results × St)

/-- what the consumer of a conjunct does with one result (context after the conjunct, node) -/
abbrev Sink (α : Type) := Ctx → Key → α × St → Except Err (α × St)

def feed {α} (sink : Sink α) (args : List Val) (ctx : Ctx) : Results → α × St → Except Err (α × St)
  | [], w => pure w
  | (ans, k) :: r, w =>
    if isFalse k then feed sink args ctx r w                       -- results_to_actions: FALSE is no result
    else match bindAnswer args ans ctx with
      | none => feed sink args ctx r w                             -- result_transform: UnifyError -> dropped
      | some ctx' => do
        let w' ← sink ctx' k w
        feed sink args ctx r w'

def evalItem {α} (P : Prog) (ev : Eval) (sink : Sink α) : Item → Ctx → α × St → Except Err (α × St)
  | .lit (.pos a), ctx, (acc, st) => do
    let args := a.args.map (Term.val ctx)
    let (gargs, _) := canon args []
    let (rs, st1) ← ev ⟨a.pred, gargs⟩ st
    feed sink args ctx rs (acc, st1)
  | .lit (.neg a), ctx, (acc, st) => do
    let args := a.args.map (Term.val ctx)
    match allConsts args with
    | none => .error .flounder
    | some _ =>
      let (rs, st1) ← ev ⟨a.pred, args⟩ st
      match rs.filter (fun r => !isFalse r.2) with
      | [] => sink ctx TRUE (acc, st1)
      | nodes => do
        let (S2, k') ← liftF (st1.store.addOr (nodes.map (·.2)))
        let r := negate k'
        if isFalse r then pure (acc, { st1 with store := S2 }) else sink ctx r (acc, { st1 with store := S2 })
  | .lit .tt, ctx, w => sink ctx TRUE w
  | .choice c, ctx, (acc, st) =>
    match allConsts ctx with
    | none => .error .nonGroundChoice
    | some cs =>
      let e := enc P.nconsts cs
      let (S1, g) := st.store.addAtom (.user ((c.ident + e : Nat) : Int)) .normal (.prob c.prob) (some (c.group + e))
        (some (.pos (c.name + e)))
      if isFalse g then pure (acc, { st with store := S1 }) else sink ctx g (acc, { st with store := S1 })

/-- right-nested conjunction: every result of the rest is combined (`add_and`) and passed on at once -/
def evalItems {α} (P : Prog) (ev : Eval) : List Item → Sink α → Ctx → α × St → Except Err (α × St)
  | [], _, _, _ => .error .emptyBody
  | [i], sink, ctx, w => evalItem P ev sink i ctx w
  | i :: rest, sink, ctx, w =>
    evalItem P ev (fun ctx1 k1 w1 =>
      if isFalse k1 then pure w1
      else evalItems P ev rest (fun ctx2 k2 (acc2, st2) => do
        let (S3, k) ← liftF (st2.store.addAnd [k1, k2])
        sink ctx2 k (acc2, { st2 with store := S3 })) ctx1 w1) i ctx w

/-- the answer of a clause: the head under the final context -/
def headAnswer (ctx : Ctx) (head : List Term) : Option (List Const) := allConsts (head.map (Term.val ctx))

def evalClause (P : Prog) (ev : Eval) (g : Goal) : Clause → Buf × St → Except Err (Buf × St)
  | .fact args ident prob, (buf, st) =>
    if unifyFact g.args args then
      let nm := P.atomName g.pred args
      let (S1, k) := match prob with
        | none => st.store.addAtom (.user (ident : Int)) .pNone .tt none (some (.pos nm))
        | some p => st.store.addAtom (.user (ident : Int)) .normal (.prob p) none (some (.pos nm))
      pure (if isFalse k then buf else bufAdd buf args k, { st with store := S1 })
    else pure (buf, st)
  | .rule head n body ch, w =>
    match unifyHead n g.args head with
    | none => pure w
    | some ctx =>
      evalItems P ev (items body ch) (fun ctx' k (buf, st) =>
        match headAnswer ctx' head with
        | none => .error .nonGroundAnswer
        | some ans => pure (bufAdd buf ans k, st)) ctx w

def evalClauses (P : Prog) (ev : Eval) (g : Goal) : List Clause → Buf × St → Except Err (Buf × St)
  | [], w => pure w
  | c :: cs, w => do
    let w1 ← evalClause P ev g c w
    evalClauses P ev g cs w1

def assocSet' {α β} [BEq α] : List (α × β) → α → β → List (α × β)
  | [], x, v => [(x, v)]
  | (a, b) :: r, x, v => if a == x then (a, v) :: r else (a, b) :: assocSet' r x v

/-- `flushBuffer`: one `add_or` per answer -/
def flush : Buf → Store → Except Err (Results × Store)
  | [], S => pure ([], S)
  | (ans, nodes) :: r, S => do
    let (S1, k) ← liftF (S.addOr nodes)
    let (rs, S2) ← flush r S1
    pure ((ans, k) :: rs, S2)

def storeGround (p : Pred) : Results → List ((Pred × List Const) × Key) → List ((Pred × List Const) × Key)
  | [], t => t
  | (ans, k) :: r, t => storeGround p r (assocSet' t (p, ans) k)

/-- a goal that is not in the table; `gc` = its arguments if it is ground -/
def evalFresh (P : Prog) (sched : Sched) (ev : Eval) (g : Goal) (st : St) (gc : Option (List Const)) :
    Except Err (Results × St) :=
  let cs := (P.clausesOf g.pred).filter (headMatches g.args)
  if cs.isEmpty then pure ([], st)                                   -- complete at once, nothing tabled
  else do
    let (buf, st1) ← evalClauses P ev g (permute (sched g) cs) ([], st)
    let (rs, S2) ← flush buf st1.store
    let tab := st1.table
    let tab' : Table := match gc with
      | some consts =>
        if rs.isEmpty then { tab with ground := assocSet' tab.ground (g.pred, consts) FALSE }
        else { tab with ground := storeGround g.pred rs tab.ground }     -- flushBuffer per result, then complete
      | none => { ground := storeGround g.pred rs tab.ground, ng := assocSet' tab.ng g rs }
    pure (rs, { table := tab', store := S2 })

def evalGoalWith (P : Prog) (sched : Sched) (ev : Eval) (g : Goal) (st : St) : Except Err (Results × St) :=
  match allConsts g.args with
  | some consts =>
    match lookup st.table.ground (g.pred, consts) with
    | some k => pure ([(consts, k)], st)
    | none => evalFresh P sched ev g st (some consts)
  | none =>
    match lookup st.table.ng g with
    | some rs => pure (rs, st)
    | none => evalFresh P sched ev g st none

def evalGoal (P : Prog) (sched : Sched) : Nat → Eval
  | 0 => fun _ _ => .error .fuel
  | fuel + 1 => evalGoalWith P sched (evalGoal P sched fuel)

/-- one `engine.ground(db, term, target, label)`; `failName` names the query term itself -/
structure Call where
  pred : Pred
  args : List Val          -- canonical variables
  label : Label
  failName : Nat
  deriving Repr, Inhabited

def nameResults (P : Prog) (p : Pred) (l : Label) : Results → Store → Store
  | [], S => S
  | (ans, k) :: r, S => nameResults P p l r (S.addName (.pos (P.atomName p ans)) k l)

def groundOne (P : Prog) (sched : Sched) (fuel : Nat) (st : St) (c : Call) : Except Err (Results × St) := do
  let (rs, st1) ← evalGoal P sched fuel ⟨c.pred, c.args⟩ st
  let good := rs.filter (fun r => !isFalse r.2)
  if good.isEmpty then pure ([], { st1 with store := st1.store.addName (.pos c.failName) FALSE c.label })
  else pure (good, { st1 with store := nameResults P c.pred c.label good st1.store })

def groundAll (P : Prog) (sched : Sched) (fuel : Nat) : List Call → St → Except Err (List Results × St)
  | [], st => pure ([], st)
  | c :: cs, st => do
    let (r, st1) ← groundOne P sched fuel st c
    let (rs, st2) ← groundAll P sched fuel cs st1
    pure (r :: rs, st2)

end ProbLogModel.GroundFO
