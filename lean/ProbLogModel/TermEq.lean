/-
Model of `==` and `hash` on problog.logic terms (property C18):
`Term.__eq__` (logic.py:704-735), `Term.__hash__` (:762-801), `_list_length` (:643-657),
`Var.__eq__/__hash__` (:881-885), `Constant.__eq__/__hash__` (:909-940), `Term.signature` (:246-252) and the
ground case of `unify_value` (engine_unify.py:132-139).

Objects: the classes Term, Var, Constant, Not, And, Or, Clause built by the public constructors / the parser,
with `None` and ints (variables) as arguments.  AggTerm, Object, AnnotatedDisjunction are outside the model
(the harness checks the laws on them on the real code only).

Two abstractions, both checked per input by the harness:
* `str(t)` is modelled for arity-0 objects only (`printed`); for a compound term it is "some text that is not
  the name of any Var / the printed form of any Constant in the input".  When such a clash exists the real code
  breaks symmetry and transitivity (known findings), the model does not apply.
* `str(float)`: plain decimal expansion (`fltStr`) — exact for the short dyadic floats the harness uses.

`Term.__eq__` is a work-list (breadth-first) comparison of node pairs; every pair is tested with the same node
test and the result is the conjunction, so the model is the structural (depth-first) recursion `teq`.  The
`id(t1) == id(t2)` shortcut is immaterial for values without NaN.
-/
namespace ProbLogModel.TermEq

/-- Python primitive values used as functors of Constants. -/
inductive Prim where
  | int (i : Int)
  | flt (q : Rat)
  | str (s : String)
  deriving DecidableEq, Repr

inductive Tm where
  | term (f : String) (args : List Tm)   -- Term(f, *args), class Term itself
  | var (n : String)                     -- Var(n)
  | const (p : Prim)                     -- Constant(p)
  | nott (f : String) (c : Tm)           -- Not(f, c)
  | and (a b : Tm)                       -- And(a, b)      functor ","
  | or (a b : Tm)                        -- Or(a, b)       functor ";"
  | clause (h b : Tm)                    -- Clause(h, b)   functor ":-"
  | none                                 -- None as an argument
  | ivar (i : Int)                       -- int as an argument
  deriving Repr

/-! ### printing of primitives -/

def fracDigits : Nat → Nat → Nat → String
  | 0, _, _ => ""
  | fuel + 1, num, den =>
    if num == 0 then "" else toString (num * 10 / den) ++ fracDigits fuel (num * 10 % den) den

/-- `str(float)` for floats with a short exact decimal expansion and 1e-4 ≤ |x| < 1e16. -/
def fltStr (q : Rat) : String :=
  let a : Rat := if q < 0 then -q else q
  let ip : Nat := a.floor.toNat
  let fr : Rat := a - (ip : Rat)
  let fd := fracDigits 40 fr.num.toNat fr.den
  (if q < 0 then "-" else "") ++ toString ip ++ "." ++ (if fd == "" then "0" else fd)

def primStr : Prim → String
  | .int i => toString i
  | .flt q => fltStr q
  | .str s => s

/-- `str(t)` for the objects without arguments (see the header). -/
def printed : Tm → Option String
  | .term f [] => some f
  | .var n => some n
  | .const p => some (primStr p)
  | _ => none

/-! ### Term.__eq__ (the node test, applied to all corresponding node pairs) -/

def sameType : Prim → Prim → Bool
  | .int _, .int _ => true
  | .flt _, .flt _ => true
  | .str _, .str _ => true
  | _, _ => false

mutual
/-- `Term.__eq__(t1, t2)` for two objects of which the first is neither Var nor Constant at top level. -/
def teq : Tm → Tm → Bool
  | .none, .none => true                                          -- t1 is None: t2 must be None
  | .ivar i, .ivar j => i == j                                    -- type int: values
  | .const p, .const q => sameType p q && p == q                  -- Constant: functor type, then functor
  | .term f xs, .term g ys => f == g && xs.length == ys.length && teqL xs ys
  | .var n, .var m => n == m                                      -- a Var inside a term: functor, arity 0
  | .nott _ c, .nott _ d => teq c d                               -- Not: the functor is NOT compared
  | .and a b, .and c d => teq a c && teq b d
  | .or a b, .or c d => teq a c && teq b d
  | .clause a b, .clause c d => teq a c && teq b d
  | _, _ => false                                                 -- type(t1) != type(t2)
def teqL : List Tm → List Tm → Bool
  | [], [] => true
  | x :: xs, y :: ys => teq x y && teqL xs ys
  | _, _ => false
end

/-- Classes that override `__eq__` with the printed-form comparison. -/
def isS : Tm → Bool
  | .var _ => true
  | .const _ => true
  | _ => false

def isPlainTerm : Tm → Bool
  | .term _ _ => true
  | _ => false

/-- Which operand's `__eq__` runs for `a == b`: Python tries `b.__eq__(a)` first iff `type(b)` is a proper
    subclass of `type(a)` overriding `__eq__` — here: `a` of class Term itself and `b` a Var or Constant. -/
def reflected (a b : Tm) : Bool := isPlainTerm a && isS b

/-- `a == b` for two Term objects. -/
def eqTop (a b : Tm) : Bool :=
  let x := if reflected a b then b else a
  let y := if reflected a b then a else b
  if isS x then printed y == printed x     -- Var.__eq__ / Constant.__eq__: str(other) == str(self)
  else teq x y                             -- Term.__eq__

/-- Name of the implementation that decides `a == b` (for failure signatures). -/
def implOf (a b : Tm) : String :=
  let x := if reflected a b then b else a
  match x with
  | .var _ => "Var.__eq__"
  | .const _ => "Constant.__eq__"
  | _ => "Term.__eq__"

/-! ### hashing -/

/-- What gets hashed: a primitive, `None`, or a tuple. Python's `hash` is a function of this key up to numeric
    equality of primitives (`hash(1) == hash(1.0)`), see `normKey`. -/
inductive Key where
  | p (x : Prim)
  | none
  | tup (ks : List Key)
  deriving Repr

/-- `_list_length`: number of `'.'/2` cells along the tail. -/
def listLen : Tm → Nat
  | .term f [_, t] => if f == "." then 1 + listLen t else 0
  | _ => 0

/-- `get_arg_len` (logic.py:767-773). -/
def argLen : Tm → Nat
  | .none => 1
  | .ivar _ => 1
  | t => listLen t

/-- The loop over `args[1:10]` (logic.py:787-794): stops at the first argument that would exceed the cut-off. -/
def selectArgs (total : Nat) : List (Nat × Key) → List Key
  | [] => []
  | (l, k) :: r => if total + l ≤ 10 then k :: selectArgs (total + l) r else []

/-- First argument always; more only if `cut_off_len > total_list_len`. -/
def included : List (Nat × Key) → List Key
  | [] => []
  | (l0, k0) :: rest => k0 :: (if 10 > l0 then selectArgs l0 (rest.take 9) else [])

mutual
/-- The key hashed by `hash(t)`. `fixNot`: with repo_patches/C18_not_hash.diff (`Not.__hash__` ignores the
    functor); without it a Not hashes like any Term. -/
def hashKey (fixNot : Bool) : Tm → Key
  | .none => .none
  | .ivar i => .p (.int i)
  | .var n => .p (.str n)                       -- hash(self.name)
  | .const p => .p p                            -- hash(self.functor)
  | .term f args =>
    .tup ([.p (.str f), .p (.int args.length), .p (.int (listLen (.term f args)))] ++ included (hashKeyL fixNot args))
  | .nott f c =>
    if fixNot then .tup [.p (.str "\\+"), hashKey fixNot c]
    else .tup ([.p (.str f), .p (.int 1), .p (.int 0)] ++ included [(argLen c, hashKey fixNot c)])
  | .and a b =>
    .tup ([.p (.str ","), .p (.int 2), .p (.int 0)] ++ included [(argLen a, hashKey fixNot a), (argLen b, hashKey fixNot b)])
  | .or a b =>
    .tup ([.p (.str ";"), .p (.int 2), .p (.int 0)] ++ included [(argLen a, hashKey fixNot a), (argLen b, hashKey fixNot b)])
  | .clause a b =>
    .tup ([.p (.str ":-"), .p (.int 2), .p (.int 0)] ++ included [(argLen a, hashKey fixNot a), (argLen b, hashKey fixNot b)])
def hashKeyL (fixNot : Bool) : List Tm → List (Nat × Key)
  | [] => []
  | x :: xs => (argLen x, hashKey fixNot x) :: hashKeyL fixNot xs
end

/-- Numerically equal primitives hash equal: floats with an integral value are read as ints. -/
def normPrim : Prim → Prim
  | .flt q => if q.den == 1 then .int q.num else .flt q
  | p => p

mutual
def normKey : Key → Key
  | .p x => .p (normPrim x)
  | .none => .none
  | .tup ks => .tup (normKeyL ks)
def normKeyL : List Key → List Key
  | [] => []
  | k :: ks => normKey k :: normKeyL ks
end

mutual
def Key.beq : Key → Key → Bool
  | .p x, .p y => x == y
  | .none, .none => true
  | .tup xs, .tup ys => Key.beqL xs ys
  | _, _ => false
def Key.beqL : List Key → List Key → Bool
  | [], [] => true
  | x :: xs, y :: ys => Key.beq x y && Key.beqL xs ys
  | _, _ => false
end

/-- The model's prediction "hash(a) == hash(b)" (sound: equal keys give equal hashes). -/
def hashEq (fixNot : Bool) (a b : Tm) : Bool := Key.beq (normKey (hashKey fixNot a)) (normKey (hashKey fixNot b))

/-! ### groundness and unification identity -/

mutual
def ground : Tm → Bool
  | .term _ args => groundL args
  | .var _ => false
  | .const _ => true
  | .nott _ c => ground c
  | .and a b => ground a && ground b
  | .or a b => ground a && ground b
  | .clause a b => ground a && ground b
  | .none => false
  | .ivar _ => false
def groundL : List Tm → Bool
  | [] => true
  | x :: xs => ground x && groundL xs
end

def dropQ : List Char → List Char
  | '\'' :: r => dropQ r
  | l => l

/-- `s.strip("'")`. -/
def stripQ (s : String) : String := String.ofList (dropQ (dropQ s.toList).reverse).reverse

/-- What unification looks at: the tree of signatures `str(functor).strip("'")/arity`. -/
inductive Sig where
  | node (name : String) (args : List Sig)
  | hole
  deriving Repr

mutual
def sigTree : Tm → Sig
  | .term f args => .node (stripQ f) (sigTreeL args)
  | .var n => .node (stripQ n) []
  | .const p => .node (stripQ (primStr p)) []
  | .nott f c => .node (stripQ f) [sigTree c]
  | .and a b => .node "," [sigTree a, sigTree b]
  | .or a b => .node ";" [sigTree a, sigTree b]
  | .clause a b => .node ":-" [sigTree a, sigTree b]
  | .none => .hole
  | .ivar _ => .hole
def sigTreeL : List Tm → List Sig
  | [] => []
  | x :: xs => sigTree x :: sigTreeL xs
end

mutual
def Sig.beq : Sig → Sig → Bool
  | .node n xs, .node m ys => n == m && Sig.beqL xs ys
  | .hole, .hole => true
  | _, _ => false
def Sig.beqL : List Sig → List Sig → Bool
  | [], [] => true
  | x :: xs, y :: ys => Sig.beq x y && Sig.beqL xs ys
  | _, _ => false
end

/-- For ground `a`, `b`: `unify_value(a, b, {})` succeeds (same signature at every node; the length test of
    `beqL` is the arity part of the signature). -/
def unifyId (a b : Tm) : Bool := Sig.beq (sigTree a) (sigTree b)

end ProbLogModel.TermEq
