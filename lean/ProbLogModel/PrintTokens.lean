/-
C17: the operator-free surface syntax `S` (variables, numbers, strings, plain/quoted atoms, compound terms, lists with
an optional tail, arbitrarily nested), the term `S.tm` it denotes and the token list `S.toks` the tokenizer produces for
its printed form. `C17_roundtrip_partial` is stated over `S`; the driver checks on every generated AST of this class that
`tokenize (reprTop s.tm ++ ".") = s.toks ++ [end]` (so the theorem speaks about the printed text).
-/
import ProbLogModel.Parser
namespace ProbLogModel.PrintTokens
open ProbLogModel.Parser ProbLogModel.Syntax

/-- A token without operator definitions (`Token(string, pos, special=…, functor=…)`). -/
def tk (s : String) (sp : Option Special := none) (functor : Bool := false) : Tok :=
  { str := s, atom := true, functor := functor, binop := none, unop := none, special := sp, aggregate := false }

def tComma : Tok :=
  { str := ",", atom := false, functor := false, binop := some ⟨1000, .xfy, .conjunction⟩, unop := none,
    special := some .comma, aggregate := false }
def tPipe : Tok :=
  { str := "|", atom := false, functor := false, binop := some ⟨1100, .xfy, .binop⟩, unop := none,
    special := some .pipe, aggregate := false }
def tLP : Tok := { str := "(", atom := false, functor := false, binop := none, unop := none, special := some .parenOpen, aggregate := false }
def tRP : Tok := { str := ")", atom := false, functor := false, binop := none, unop := none, special := some .parenClose, aggregate := false }
def tLB : Tok := { str := "[", atom := false, functor := false, binop := none, unop := none, special := some .brackOpen, aggregate := false }
def tRB : Tok := { str := "]", atom := false, functor := false, binop := none, unop := none, special := some .brackClose, aggregate := false }
def tEnd : Tok := tk "." (some .end_)

inductive S where
  | var (n : String)
  | int (txt : String) (v : Int)          -- token text and its value (`int(txt) = v`)
  | flt (txt : String)
  | str (txt : String)                    -- with the double quotes
  | atom (f : String)
  | nil                                   -- `[]`
  | app (f : String) (a : S) (as : List S)
  | lst (h : S) (hs : List S) (tl : Option S)
  deriving Repr, Inhabited

mutual
def S.tm : S → Tm
  | .var n => .var n
  | .int _ v => .const (.int v)
  | .flt t => .const (.flt t)
  | .str t => .const (.str t)
  | .atom f => .term f [] none none
  | .nil => .term "[]" [] none none
  | .app f a as => .term f (a.tm :: tmList as) none none
  | .lst h hs tl => Factory.list (h.tm :: tmList hs) (tmTail tl)
def tmList : List S → List Tm
  | [] => []
  | a :: as => a.tm :: tmList as
def tmTail : Option S → Tm
  | none => .none
  | some t => t.tm
end

mutual
def S.toks : S → List Tok
  | .var n => [tk n (some .variable)]
  | .int t _ => [tk t (some .integer)]
  | .flt t => [tk t (some .float)]
  | .str t => [tk t (some .string)]
  | .atom f => [tk f]
  | .nil => [tLB, tRB]
  | .app f a as => tk f none true :: tLP :: (a.toks ++ (toksArgs as ++ [tRP]))
  | .lst h hs tl => tLB :: (h.toks ++ (toksArgs hs ++ (toksTail tl ++ [tRB])))
def toksArgs : List S → List Tok
  | [] => []
  | a :: as => tComma :: (a.toks ++ toksArgs as)
def toksTail : Option S → List Tok
  | none => []
  | some t => tPipe :: t.toks
end

/-! Side condition: the text of an integer token converts to its value. -/
mutual
def S.valid : S → Bool
  | .int t v => t.toInt? == some v
  | .app _ a as => a.valid && validList as
  | .lst h hs tl => h.valid && validList hs && validTail tl
  | _ => true
def validList : List S → Bool
  | [] => true
  | a :: as => a.valid && validList as
def validTail : Option S → Bool
  | none => true
  | some t => t.valid
end

/-- The surface syntax of a term, when it is in the class (driver only). A list tail that is itself a list cell or
    `[]` is printed in list notation, so it is read back as elements. -/
partial def S.ofTm : Tm → Option S
  | .var n => some (.var n)
  | .const (.int v) => if v ≥ 0 then some (.int (toString v) v) else none
  | .const (.flt t) => if t.startsWith "-" then none else some (.flt t)
  | .const (.str t) => some (.str t)
  | .term "." [h, t] none none => do
    let h ← S.ofTm h
    let rec walk : Tm → Option (List S × Option S)
      | .term "." [h, t] none none => do
        let h ← S.ofTm h
        let (hs, tl) ← walk t
        pure (h :: hs, tl)
      | .term "[]" [] none none => some ([], none)
      | t => do
        let s ← S.ofTm t
        pure ([], some s)
    let (hs, tl) ← walk t
    pure (.lst h hs tl)
  | .term "[]" [] none none => some .nil
  | .term f [] none none => if (Generated.wordTable.any (·.1 == f)) then none else some (.atom f)
  | .term f (a :: as) none none => do
    if (Generated.wordTable.any (·.1 == f)) then none
    let a ← S.ofTm a
    let as ← as.mapM S.ofTm
    pure (.app f a as)
  | _ => none

end ProbLogModel.PrintTokens
