import ProbLogModel.Order
/-!
Model of problog/library/cut.pl (property C33), for one call `cut(r(Args…))` / `cut(r(Args…), Index)` in one
possible world.

```
cut(Call) :- Call =.. [Pred|Args], RCall =.. [Pred, Index | Args],
    all(Index, clause(RCall, _), List), sort(List, OList), cut(RCall, Index, OList, Call).        % cut.pl:24-29
cut(Call, Index) :- … the same body …                                                             % cut.pl:31-36
cut(RCall, Index, [Index | Rest], Call) :- call(RCall).                                           % cut.pl:39-40
cut(RCall, Index, [Value | Rest], Call) :- \+ (Value = Index, call(RCall)), cut(RCall, Index, Rest, Call).  % :41-43
```

A clause of the indexed predicate is abstracted to what cut.pl can observe of it: its (ground) index, whether its
head unifies with the call pattern (`clause/2`), and its answers for the call pattern in the world considered.
-/
namespace ProbLogModel.Cut
open ProbLogModel ProbLogModel.Order

structure IClause (α : Type) where
  index : Term
  headMatches : Bool          -- `clause(RCall, _)` finds this clause
  answers : List α            -- answers of `call(RCall)` through this clause with `Index` = its index
  deriving Repr

/-- `all(Index, clause(RCall, _), List)`: the indices of the matching clauses in file order (all/3 fails on the
    empty list: then `cut` fails, which is what `cutLoop []` gives as well). -/
def matchingIndices {α : Type} (cs : List (IClause α)) : List Term :=
  (cs.filter (·.headMatches)).map (·.index)

/-- `Value = Index, call(RCall)`: the answers of all clauses whose index is `v`, in file order. -/
def answersAt {α : Type} (cs : List (IClause α)) (v : Term) : List α :=
  (cs.filter (fun c => decide (c.index = v))).flatMap (·.answers)

/-- `cut/4`: the first value of the sorted list for which `call(RCall)` succeeds; `none` = `cut` fails. -/
def cutLoop {α : Type} (cs : List (IClause α)) : List Term → Option (Term × List α)
  | [] => none
  | v :: rest =>
    match answersAt cs v with
    | [] => cutLoop cs rest                   -- second clause: `\+ (Value = Index, call(RCall))`, go on with Rest
    | a :: as => some (v, a :: as)            -- first clause: `Index` = head of the list, `call(RCall)`

/-- `cut/1` and `cut/2`: the chosen index (returned by `cut/2`) and the answers. -/
def cut {α : Type} (cs : List (IClause α)) : Option (Term × List α) :=
  cutLoop cs (sortModel (matchingIndices cs))

end ProbLogModel.Cut
