/-
C17: the abstract syntax used by the printer model and the parser model — the Python objects of problog/logic.py
(`Term`, `Var`, `Constant`, `AggTerm`, `And`, `Or`, `Not`, `Clause`, `AnnotatedDisjunction`, `None`).

Own namespace, no dependency on other models. What is *not* represented: `int` variables of the engine's internal
clause representation (printed `A1`/`X1`; they are not source syntax), `Object`, the `location` attribute, and a
`probability` attribute on anything but a plain `Term` (the parser model reports these as `unsupported`).
-/
import ProbLogModel.ParserTypes
import ProbLogModel.Core.Proto
namespace ProbLogModel.Syntax
open ProbLogModel.Parser (Spec)
open ProbLogModel.Proto

/-- The `functor` value of a `Constant`: an int, a float (kept as its Python `repr` text — the model never does
    float arithmetic), or a Python `str` (a Prolog string keeps its double quotes: `'"abc"'`). -/
inductive Const where
  | int (v : Int)
  | flt (s : String)
  | str (s : String)
  deriving DecidableEq, Repr, Inhabited

inductive Tm where
  | none                                                       -- Python `None` (anonymous variable)
  | var (name : String)                                        -- `Var(name)`
  | const (c : Const)                                          -- `Constant(value)`
  | term (f : String) (args : List Tm) (op : Option (Nat × Spec)) (p : Option Tm)
      -- exact class `Term`; `op = (op_priority, op_spec)`; `p = probability`
  | agg (f : String) (args : List Tm)                          -- `AggTerm`
  | and (a b : Tm)                                             -- `And(op1, op2)`, functor ","
  | or (a b : Tm)                                              -- `Or(op1, op2)`, functor ";"
  | not (f : String) (c : Tm)                                  -- `Not(functor, child)`
  | clause (h b : Tm)                                          -- `Clause(head, body)`, functor ":-"
  | ad (hs : List Tm) (b : Tm)                                 -- `AnnotatedDisjunction(heads, body)`
  deriving Repr, Inhabited

mutual
def Tm.beq : Tm → Tm → Bool
  | .none, .none => true
  | .var a, .var b => a == b
  | .const a, .const b => a == b
  | .term f as o p, .term g bs o' p' =>
    f == g && Tm.beqList as bs && o == o' &&
      (match p, p' with
       | Option.none, Option.none => true
       | some x, some y => Tm.beq x y
       | _, _ => false)
  | .agg f as, .agg g bs => f == g && Tm.beqList as bs
  | .and a b, .and c d => Tm.beq a c && Tm.beq b d
  | .or a b, .or c d => Tm.beq a c && Tm.beq b d
  | .not f a, .not g b => f == g && Tm.beq a b
  | .clause a b, .clause c d => Tm.beq a c && Tm.beq b d
  | .ad as b, .ad cs d => Tm.beqList as cs && Tm.beq b d
  | _, _ => false
def Tm.beqList : List Tm → List Tm → Bool
  | [], [] => true
  | a :: as, b :: bs => Tm.beq a b && Tm.beqList as bs
  | _, _ => false
end

instance : BEq Tm := ⟨Tm.beq⟩

def Tm.atom (f : String) : Tm := .term f [] Option.none Option.none
def Tm.app (f : String) (args : List Tm) : Tm := .term f args Option.none Option.none

/-! ## Canonical text (shared with the Python harness: `harness/c17_util.py: dump`) -/

def specOfName : String → Option Spec
  | "xfx" => some .xfx | "xfy" => some .xfy | "yfx" => some .yfx | "fy" => some .fy | "fx" => some .fx
  | _ => Option.none

mutual
def Tm.dump : Tm → String
  | .none => "N"
  | .var n => "(V " ++ quote n ++ ")"
  | .const (.int v) => "(I " ++ toString v ++ ")"
  | .const (.flt s) => "(F " ++ quote s ++ ")"
  | .const (.str s) => "(S " ++ quote s ++ ")"
  | .term f as o p =>
    "(T " ++ quote f ++ " (" ++ Tm.dumpList as ++ ") " ++
      (match o with
       | Option.none => "-"
       | some (n, s) => "(" ++ toString n ++ " " ++ s.name ++ ")") ++ " " ++
      (match p with
       | Option.none => "-"
       | some q => Tm.dump q) ++ ")"
  | .agg f as => "(G " ++ quote f ++ " (" ++ Tm.dumpList as ++ "))"
  | .and a b => "(A " ++ Tm.dump a ++ " " ++ Tm.dump b ++ ")"
  | .or a b => "(O " ++ Tm.dump a ++ " " ++ Tm.dump b ++ ")"
  | .not f c => "(X " ++ quote f ++ " " ++ Tm.dump c ++ ")"
  | .clause h b => "(C " ++ Tm.dump h ++ " " ++ Tm.dump b ++ ")"
  | .ad hs b => "(D (" ++ Tm.dumpList hs ++ ") " ++ Tm.dump b ++ ")"
def Tm.dumpList : List Tm → String
  | [] => ""
  | [a] => Tm.dump a
  | a :: as => Tm.dump a ++ " " ++ Tm.dumpList as
end

/-- Reader for the canonical text (driver input). -/
partial def Tm.ofSExp : SExp → Option Tm
  | .atom "N" => some .none
  | .list [.atom "V", .atom n] => some (.var (unquote n))
  | .list [.atom "I", .atom v] => v.toInt?.map (fun i => .const (.int i))
  | .list [.atom "F", .atom s] => some (.const (.flt (unquote s)))
  | .list [.atom "S", .atom s] => some (.const (.str (unquote s)))
  | .list [.atom "T", .atom f, .list as, o, p] => do
    let as ← as.mapM Tm.ofSExp
    let o ← (match o with
      | .atom "-" => some Option.none
      | .list [.atom n, .atom s] => do
        let n ← n.toNat?
        let s ← specOfName s
        pure (some (n, s))
      | _ => Option.none)
    let p ← (match p with
      | .atom "-" => some Option.none
      | q => (Tm.ofSExp q).map some)
    pure (.term (unquote f) as o p)
  | .list [.atom "G", .atom f, .list as] => do
    let as ← as.mapM Tm.ofSExp
    pure (.agg (unquote f) as)
  | .list [.atom "A", a, b] => do pure (.and (← Tm.ofSExp a) (← Tm.ofSExp b))
  | .list [.atom "O", a, b] => do pure (.or (← Tm.ofSExp a) (← Tm.ofSExp b))
  | .list [.atom "X", .atom f, c] => do pure (.not (unquote f) (← Tm.ofSExp c))
  | .list [.atom "C", a, b] => do pure (.clause (← Tm.ofSExp a) (← Tm.ofSExp b))
  | .list [.atom "D", .list hs, b] => do pure (.ad (← hs.mapM Tm.ofSExp) (← Tm.ofSExp b))
  | _ => Option.none

end ProbLogModel.Syntax
