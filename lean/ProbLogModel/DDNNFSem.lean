/-
Boolean semantics of a `.nnf` circuit (`ProbLogModel.DDNNF.Circuit`), Mathlib-free and executable:
truth value of every line under an assignment `ρ : Nat → Bool` of the variables, computed by the same bottom-up
fold as `evalLines`/`varsLines` (a line only looks at earlier lines; `validate` rejects forward references).
This is the *specification side* of C10 (what "model of the circuit" means); it is not a model of any Python code.
-/
import ProbLogModel.DDNNF
namespace ProbLogModel.DDNNF

/-- child line numbers of a line -/
def NNode.children : NNode → List Nat
  | .lit _ => []
  | .and cs => cs
  | .or _ cs => cs

/-- truth of the DIMACS literal `l` under `ρ` (`l > 0`: variable `l` is true; otherwise variable `|l|` is false) -/
def litTrue (ρ : Nat → Bool) (l : Int) : Bool := if l > 0 then ρ l.natAbs else !ρ l.natAbs

def satLine (ρ : Nat → Bool) (acc : List Bool) : NNode → Bool
  | .lit l => litTrue ρ l
  | .and cs => cs.all (fun ch => acc.getD ch false)
  | .or _ cs => cs.any (fun ch => acc.getD ch false)

/-- truth value of every line -/
def satLines (ρ : Nat → Bool) (c : Circuit) : List Bool :=
  c.foldl (fun acc nd => acc ++ [satLine ρ acc nd]) []

/-- truth value of the root (last line); the empty circuit is `true` (as `evalC` gives `one`) -/
def satC (ρ : Nat → Bool) (c : Circuit) : Bool := (satLines ρ c).getLast?.getD true

/-- a clause (list of DIMACS literals) is true under `ρ` -/
def clauseTrue (ρ : Nat → Bool) (κ : List Int) : Bool := κ.any (litTrue ρ)

/-- the per-line function of `varsLines` -/
def varsLine (acc : List (List Nat)) : NNode → List Nat
  | .lit l => [l.natAbs]
  | .and cs => cs.foldl (fun v ch => mergeVars (acc.getD ch []) v) []
  | .or _ cs => cs.foldl (fun v ch => mergeVars (acc.getD ch []) v) []

end ProbLogModel.DDNNF
