/-
C14 — unification.

Part 1: the *reference*: first-order terms, substitutions, Robinson's algorithm with explicit fuel (`mguFuel`).
Part 2: a model of ProbLog's own functions *as written* in `problog/engine_unify.py` (`unify_value`,
`unify_value_dc`, `unify_call_head`, `unify_call_return`, `substitute_call_args`, `substitute_head_args`, the
`OccursCheck` raise points) and of `_builtin_eq` / `_builtin_neq` (`problog/engine_builtin.py:764-786`) as they are
executed by `StackBasedEngine.eval_call` (`problog/engine_stack.py:786-835`).

Python values `None | int | Term` are one type `Tm`: `anon` = `None`, `var v` = the integer `v`
(negative = local variable of a call, non-negative = slot of a clause context), `const`/`app` = `Constant`/`Term`.
An atom is `app f []`.  Python dictionaries are association lists in insertion order (`Dict`).
Python exceptions are explicit constructors of `Err`.
-/
namespace ProbLogModel.Unify

inductive Const where
  | int (i : Int)
  | flt (s : String)      -- float, by its `repr` text
  | str (s : String)      -- string constant, text *including* its double quotes (as `Constant.functor`)
  deriving DecidableEq, Repr, Inhabited

inductive Tm where
  | var (v : Int)
  | anon
  | const (c : Const)
  | app (f : String) (args : List Tm)
  deriving Repr, Inhabited

/-! ## Part 1 — reference -/

mutual
/-- Simultaneous substitution `θ : variable → term`. -/
def Tm.subst (θ : Int → Tm) : Tm → Tm
  | .var v => θ v
  | .anon => .anon
  | .const c => .const c
  | .app f as => .app f (substL θ as)
def substL (θ : Int → Tm) : List Tm → List Tm
  | [] => []
  | a :: as => a.subst θ :: substL θ as
end

mutual
/-- `t.occ x`: the variable `x` occurs in `t`. -/
def Tm.occ (x : Int) : Tm → Bool
  | .var v => v == x
  | .anon => false
  | .const _ => false
  | .app _ as => occL x as
def occL (x : Int) : List Tm → Bool
  | [] => false
  | a :: as => a.occ x || occL x as
end

mutual
def Tm.size : Tm → Nat
  | .app _ as => 1 + sizeL as
  | _ => 1
def sizeL : List Tm → Nat
  | [] => 0
  | a :: as => a.size + sizeL as
end

/-- The substitution `[x ↦ t]`. -/
def single (x : Int) (t : Tm) : Int → Tm := fun y => if y = x then t else .var y

/-- Replace `x` by `u` in `t`. -/
def Tm.elim (t : Tm) (x : Int) (u : Tm) : Tm := t.subst (single x u)

abbrev Eqs := List (Tm × Tm)

def elimAll (x : Int) (u : Tm) (E : Eqs) : Eqs := E.map (fun p => (p.1.elim x u, p.2.elim x u))

/-- A substitution in triangular form: the bindings in the order in which they were made;
    it is applied by eliminating the first variable, then the second, … -/
abbrev Subst := List (Int × Tm)

def Subst.apply : Subst → Tm → Tm
  | [], t => t
  | (x, u) :: σ, t => Subst.apply σ (t.elim x u)

/-- The substitution as a function on variables. -/
def Subst.fn (σ : Subst) : Int → Tm := fun v => σ.apply (.var v)

/-- Composition (first `σ`, then `τ`) is concatenation. -/
def Subst.comp (σ τ : Subst) : Subst := σ ++ τ

inductive Outcome where
  | unifier (σ : Subst)
  | clash
  | occurs
  deriving Repr, Inhabited

/-- What Robinson's algorithm does with one equation. -/
inductive Step where
  | drop                      -- trivial equation
  | decomp (new : Eqs)        -- same functor and arity: equate the arguments
  | bind (x : Int) (u : Tm)   -- variable elimination
  | clash
  | occurs
  deriving Repr, Inhabited

def classify : Tm → Tm → Step
  | .var x, .var y => if x = y then .drop else .bind x (.var y)
  | .var x, t => if t.occ x then .occurs else .bind x t
  | s, .var y => if s.occ y then .occurs else .bind y s
  | .app f as, .app g bs => if f = g ∧ as.length = bs.length then .decomp (as.zip bs) else .clash
  | .const c, .const d => if c = d then .drop else .clash
  | .anon, .anon => .drop
  | _, _ => .clash

/-- Robinson's algorithm on a list of equations; `none` = out of fuel. -/
def mguFuel : Nat → Eqs → Option Outcome
  | 0, _ => none
  | _ + 1, [] => some (.unifier [])
  | n + 1, (s, t) :: rest =>
    match classify s t with
    | .drop => mguFuel n rest
    | .decomp new => mguFuel n (new ++ rest)
    | .bind x u =>
      match mguFuel n (elimAll x u rest) with
      | some (.unifier σ) => some (.unifier ((x, u) :: σ))
      | r => r
    | .clash => some .clash
    | .occurs => some .occurs

def defaultFuel : Nat := 10000

def mgu (s t : Tm) : Option Outcome := mguFuel defaultFuel [(s, t)]

/-! ## Part 2 — model of `problog/engine_unify.py` -/

inductive Err where
  | unify      -- UnifyError
  | occurs     -- OccursCheck
  | fuel       -- the model's recursion budget is exhausted (Python: RecursionError / non-termination)
  | index      -- IndexError
  | type       -- TypeError (e.g. `context[None]`)
  | assert     -- AssertionError
  deriving Repr, Inhabited, DecidableEq

def Err.name : Err → String
  | .unify => "UnifyError" | .occurs => "OccursCheck" | .fuel => "OutOfFuel"
  | .index => "IndexError" | .type => "TypeError" | .assert => "AssertionError"

abbrev M := Except Err

/-- Dictionary keys: `none` = Python `None`, `some v` = the integer `v`. -/
abbrev Key := Option Int

def Key.tm : Key → Tm
  | none => .anon
  | some v => .var v

/-- `is_variable` (logic.py:161). -/
def Tm.key? : Tm → Option Key
  | .var v => some (some v)
  | .anon => some none
  | _ => none

def Tm.isVar (t : Tm) : Bool := t.key?.isSome

def Tm.isAnon : Tm → Bool
  | .anon => true
  | _ => false

/-- `k == t` for a variable `k` and an arbitrary value `t` (an `int`/`None` never equals a `Term`). -/
def Key.eqTm (k : Key) (t : Tm) : Bool :=
  match t.key? with
  | some k' => k == k'
  | none => false

abbrev Dict := List (Key × Tm)

def Dict.find (d : Dict) (k : Key) : Option Tm := (List.find? (fun p => p.1 == k) d).map (·.2)

/-- `d.get(k)` — `None` when absent. -/
def Dict.get (d : Dict) (k : Key) : Tm := (d.find k).getD .anon

/-- `d[k] = v` keeping Python's insertion order. -/
def Dict.set : Dict → Key → Tm → Dict
  | [], k, v => [(k, v)]
  | (k', v') :: d, k, v => if k' == k then (k, v) :: d else (k', v') :: Dict.set d k v

/-- `x in t.variables()` for a non-variable `t` (logic.py:621): all variables (ints and `None`) of the term. -/
def Tm.hasKey (k : Key) : Tm → Bool
  | .var v => k == some v
  | .anon => k == none
  | .const _ => false
  | .app _ as => hasKeyL k as
where hasKeyL (k : Key) : List Tm → Bool
  | [] => false
  | a :: as => a.hasKey k || hasKeyL k as

/-- `str.strip("'")`. -/
def stripQ (s : String) : String :=
  String.ofList ((s.toList.dropWhile (· == '\'')).reverse.dropWhile (· == '\'')).reverse

def Const.text : Const → String
  | .int i => toString i
  | .flt s => s
  | .str s => s

/-- `Term.signature` (logic.py:248): functor text without surrounding single quotes, and arity. -/
def Tm.sig : Tm → String × Nat
  | .app f as => (stripQ f, as.length)
  | .const c => (stripQ c.text, 0)
  | _ => ("", 0)

/-- `value1.with_args(*args)`. -/
def Tm.withArgs : Tm → List Tm → Tm
  | .app f _, as => .app f as
  | t, _ => t

def Tm.args : Tm → List Tm
  | .app _ as => as
  | _ => []

mutual
/-- `unify_value(value1, value2, source_values)` (engine_unify.py:81-138). Returns the value and the updated dict. -/
def unifyValue : Nat → Tm → Tm → Dict → M (Tm × Dict)
  | 0, _, _, _ => .error .fuel
  | n + 1, v1, v2, sv =>
    match v1.key?, v2.key? with
    | some k1, some k2 =>
      if k1 == k2 then .ok (v1, sv)                       -- :93
      else match k1, k2 with
        | none, _ => .ok (v2, sv)                          -- :95
        | _, none => .ok (v1, sv)                          -- :97
        | some x, some y =>                                -- :99 two named variables
          match unifyValue n (sv.get k1) (sv.get k2) sv with
          | .error e => .error e
          | .ok (value, sv) =>
            let value := if value.isAnon then Tm.var (max x y) else value
            let sv := if !(k1.eqTm value) then sv.set k1 value else sv
            let sv := if !(k2.eqTm value) then sv.set k2 value else sv
            .ok (value, sv)
    | some k1, none =>
      match k1 with
      | none => .ok (v2, sv)                               -- :113
      | some _ =>
        if v2.hasKey k1 then .error .occurs                -- :116
        else match unifyValue n (sv.get k1) v2 sv with
          | .error e => .error e
          | .ok (value, sv) => .ok (value, sv.set k1 value)
    | none, some k2 =>
      match k2 with
      | none => .ok (v1, sv)                               -- :122
      | some _ =>
        if v1.hasKey k2 then .error .occurs                -- :125
        else match unifyValue n (sv.get k2) v1 sv with
          | .error e => .error e
          | .ok (value, sv) => .ok (value, sv.set k2 value)
    | none, none =>
      if v1.sig == v2.sig then                             -- :130
        match unifyArgs n v1.args v2.args sv with
        | .error e => .error e
        | .ok (as, sv) => .ok (v1.withArgs as, sv)
      else .error .unify                                   -- :138
/-- The list comprehension over `zip(value1.args, value2.args)` (left to right, threading the dict). -/
def unifyArgs : Nat → List Tm → List Tm → Dict → M (List Tm × Dict)
  | 0, _, _, _ => .error .fuel
  | n + 1, a :: as, b :: bs, sv =>
    match unifyValue n a b sv with
    | .error e => .error e
    | .ok (r, sv) =>
      match unifyArgs n as bs sv with
      | .error e => .error e
      | .ok (rs, sv) => .ok (r :: rs, sv)
  | _ + 1, _, _, sv => .ok ([], sv)
end

/-- `_VarTranslateWrapper` (engine_unify.py:354-383): a dict that invents a fresh variable for an unknown key. -/
structure VTW where
  base : Dict
  minVar : Int
  deriving Repr, Inhabited

/-- `__getitem__` (engine_unify.py:359). -/
def VTW.getItem (w : VTW) (k : Key) : Tm × VTW :=
  match w.base.find k with
  | some v => (v, w)
  | none => (.var (w.minVar - 1), { base := w.base.set k (.var (w.minVar - 1)), minVar := w.minVar - 1 })

/-- `Term.apply(subst)` (logic.py:255) with a `_VarTranslateWrapper`: depth-first, left to right. -/
def applyVTW (w : VTW) : Tm → Tm × VTW
  | .var v => w.getItem (some v)
  | .anon => w.getItem none
  | .const c => (.const c, w)
  | .app f as => let (as', w') := applyVTWL w as; (.app f as', w')
where applyVTWL (w : VTW) : List Tm → List Tm × VTW
  | [] => ([], w)
  | a :: as =>
    let (a', w1) := applyVTW w a
    let (as', w2) := applyVTWL w1 as
    (a' :: as', w2)

mutual
/-- `unify_value_dc(value1, value2, source_values, target_values)` (engine_unify.py:141-205);
    `source_values` is a `_VarTranslateWrapper` as in `unify_call_return`. -/
def unifyValueDc : Nat → Tm → Tm → VTW → Dict → M (VTW × Dict)
  | 0, _, _, _, _ => .error .fuel
  | n + 1, v1, v2, sv, tv =>
    match v1.key?, v2.key? with
    | some k1, some k2 =>
      match k1, k2 with
      | none, _ => .ok (sv, tv)                            -- :153
      | _, none => .ok (sv, tv)                            -- :155
      | some _, some _ =>
        let sv2 := (tv.find k2).getD v2                    -- :161
        if k2.eqTm sv2 then
          let sv1 := sv.base.get k1                        -- :164
          if sv1.isAnon then .ok ({ sv with base := sv.base.set k1 v2 }, tv)
          else match unifyValue n sv1 v2 tv with           -- :170
            | .error e => .error e
            | .ok (_, tv) => .ok (sv, tv)
        else unifyValueDc n v1 sv2 sv tv                   -- :174
    | some k1, none =>
      match k1 with
      | none => .ok (sv, tv)                               -- :176
      | some _ =>
        let sv1 := sv.base.get k1
        if sv1.isAnon then .ok ({ sv with base := sv.base.set k1 v2 }, tv)   -- :181
        else match sv1.key? with
          | some ks1 =>                                    -- :182 is_variable(sv1), occurs check :183
            if v2.hasKey ks1 then .error .occurs
            else .ok ({ sv with base := sv.base.set k1 v2 }, tv.set ks1 v2)
          | none =>
            match unifyValue n sv1 v2 tv with              -- :190
            | .error e => .error e
            | .ok (value, tv) => .ok ({ sv with base := sv.base.set k1 value }, tv)
    | none, some k2 =>
      let sv2 := tv.get k2                                 -- :194
      if sv2.isAnon then
        let (t, sv) := applyVTW sv v1                      -- :196 value1.apply(source_values)
        .ok (sv, tv.set k2 t)
      else if sv2.isVar then .ok (sv, tv)                  -- :197
      else unifyValueDc n v1 sv2 sv tv                     -- :200
    | none, none =>
      if v1.sig == v2.sig then unifyDcArgs n v1.args v2.args sv tv   -- :201
      else .error .unify
def unifyDcArgs : Nat → List Tm → List Tm → VTW → Dict → M (VTW × Dict)
  | 0, _, _, _, _ => .error .fuel
  | n + 1, a :: as, b :: bs, sv, tv =>
    match unifyValueDc n a b sv tv with
    | .error e => .error e
    | .ok (sv, tv) => unifyDcArgs n as bs sv tv
  | _ + 1, _, _, sv, tv => .ok (sv, tv)
end

/-- `_SubstitutionWrapper` + `substitute_all(terms, subst)` (engine_unify.py:34-60): one-step replacement. -/
def substOnce (d : Dict) : Tm → Tm
  | .var v => (d.find (some v)).getD (.var v)
  | .anon => (d.find none).getD .anon
  | .const c => .const c
  | .app f as => .app f (substOnceL d as)
where substOnceL (d : Dict) : List Tm → List Tm
  | [] => []
  | a :: as => substOnce d a :: substOnceL d as

def listSet {α} : List α → Nat → α → List α
  | [], _, _ => []
  | _ :: xs, 0, v => v :: xs
  | x :: xs, n + 1, v => x :: listSet xs n v

mutual
/-- `_unify_call_head_single` (engine_unify.py:311-351). `ctx` = `target_context` (mutated in place). -/
def unifyCallHeadSingle : Nat → Tm → Tm → List Tm → Dict → M (List Tm × Dict)
  | 0, _, _, _, _ => .error .fuel
  | n + 1, src, tgt, ctx, sv =>
    match tgt.key? with
    | some kt =>                                            -- :328 target is a variable (slot number)
      match kt with
      | none => .error .assert
      | some i =>
        if i < 0 then .error .assert
        else match ctx[i.toNat]? with
          | none => .error .index
          | some cur =>
            match unifyValue n src cur sv with             -- :330
            | .error e => .error e
            | .ok (value, sv) => .ok (listSet ctx i.toNat value, sv)
    | none =>
      match src.key? with
      | some ks =>
        match ks with
        | none => .ok (ctx, sv)                             -- :335
        | some x =>
          if x ≥ 0 then .error .assert
          else match unifyValue n (sv.get ks) tgt sv with  -- :342
            | .error e => .error e
            | .ok (value, sv) => .ok (ctx, sv.set ks value)
      | none =>
        if tgt.sig == src.sig then unifyCallHeadArgs n src.args tgt.args ctx sv   -- :346
        else .error .unify
def unifyCallHeadArgs : Nat → List Tm → List Tm → List Tm → Dict → M (List Tm × Dict)
  | 0, _, _, _, _ => .error .fuel
  | n + 1, a :: as, b :: bs, ctx, sv =>
    match unifyCallHeadSingle n a b ctx sv with
    | .error e => .error e
    | .ok (ctx, sv) => unifyCallHeadArgs n as bs ctx sv
  | _ + 1, _, _, ctx, sv => .ok (ctx, sv)
end

/-- `unify_call_head(call_args, head_args, target_context)` (engine_unify.py:294-308):
    returns the mutated `target_context` and the returned list `substitute_all(target_context, source_values)`
    (which `eval_clause`, engine_stack.py:868, and `eval_fact`, :615, ignore). -/
def unifyCallHead (fuel : Nat) (callArgs headArgs ctx : List Tm) : M (List Tm × List Tm) :=
  match unifyCallHeadArgs fuel callArgs headArgs ctx [] with
  | .error e => .error e
  | .ok (ctx, sv) => .ok (ctx, ctx.map (substOnce sv))

/-- `unify_call_return(result, call_args, context, var_translate, min_var, mask)` (engine_unify.py:386-434). -/
def unifyCallReturn (fuel : Nat) (result callArgs context : List Tm) (varTranslate : List (Key × Key))
    (minVar : Int) (mask : List Bool) : M (List Tm) :=
  let rec loop : List Tm → List Tm → List Bool → VTW → Dict → M (VTW × Dict)
    | r :: rs, c :: cs, m :: ms, sv, tv =>
      if m then
        match unifyValueDc fuel c r sv tv with             -- :416
        | .error e => .error e
        | .ok (sv, tv) => loop rs cs ms sv tv
      else loop rs cs ms sv tv
    | _, _, _, sv, tv => .ok (sv, tv)
  match loop result callArgs mask { base := [], minVar := minVar } [] with
  | .error e => .error e
  | .ok (sv, tv) =>
    -- :418  sv = {k: tv.get(v, v)}
    let sv1 : Dict := sv.base.map (fun (k, v) =>
      (k, match v.key? with | some kv => (tv.find kv).getD v | none => v))
    -- :422-423  every value through the translate wrapper around tv
    let step (acc : Dict × VTW) (p : Key × Tm) : Dict × VTW :=
      let (v', w) := applyVTW acc.2 p.2
      (acc.1 ++ [(p.1, v')], w)
    let (sv2, tvw) := sv1.foldl step ([], { base := tv, minVar := sv.minVar })
    -- :427  keys through var_translate (later duplicates overwrite)
    let sv3 : Dict := sv2.foldl (fun d (k, v) =>
      d.set (((List.find? (fun p => p.1 == k) varTranslate).map (·.2)).getD k) v) []
    -- :430-434
    let step2 (acc : List Tm × VTW) (c : Tm) : List Tm × VTW :=
      match c with
      | .anon => (acc.1 ++ [.anon], acc.2)                 -- substitute_simple: None
      | _ => let (c', w) := applyVTW acc.2 c; (acc.1 ++ [c'], w)
    .ok (context.foldl step2 ([], { base := sv3, minVar := tvw.minVar })).1

/-- State of `_ContextWrapper` (engine_unify.py:208-242). -/
structure CW where
  numbers : List (Int × Int)
  translate : List (Key × Key)
  numCount : Int
  deriving Repr, Inhabited

def kset {α β} [BEq α] : List (α × β) → α → β → List (α × β)
  | [], k, v => [(k, v)]
  | (k', v') :: d, k, v => if k' == k then (k, v) :: d else (k', v') :: kset d k v

def CW.number (w : CW) (key : Int) (okey : Key) : Int × CW :=
  match (List.find? (fun p => p.1 == key) w.numbers).map (·.2) with
  | some value => (value, { w with translate := kset w.translate (some value) okey })
  | none =>
    let value := w.numCount - 1
    (value, { numbers := w.numbers ++ [(key, value)], translate := kset w.translate (some value) okey,
              numCount := value })

mutual
/-- `_ContextWrapper.__getitem__` (engine_unify.py:215). -/
def cwGet : Nat → List Tm → CW → Key → M (Tm × CW)
  | 0, _, _, _ => .error .fuel
  | _ + 1, _, w, none => .ok (.anon, w)
  | n + 1, ctx, w, some key =>
    if key < 0 then
      let (value, w) := w.number key (some key)
      .ok (.var value, w)
    else match ctx[key.toNat]? with
      | none => .error .index
      | some value =>
        match value with
        | .anon => let (v, w) := w.number key none; .ok (.var v, w)
        | .var k => let (v, w) := w.number k (some k); .ok (.var v, w)
        | value => cwApply n ctx w value                     -- :241 value.apply(self)
/-- `Term.apply(cw)`. -/
def cwApply : Nat → List Tm → CW → Tm → M (Tm × CW)
  | 0, _, _, _ => .error .fuel
  | n + 1, ctx, w, t =>
    match t with
    | .var v => cwGet n ctx w (some v)
    | .anon => cwGet n ctx w none
    | .const c => .ok (.const c, w)
    | .app f as =>
      match cwApplyL n ctx w as with
      | .error e => .error e
      | .ok (as, w) => .ok (.app f as, w)
def cwApplyL : Nat → List Tm → CW → List Tm → M (List Tm × CW)
  | 0, _, _, _ => .error .fuel
  | _ + 1, _, w, [] => .ok ([], w)
  | n + 1, ctx, w, a :: as =>
    match cwApply n ctx w a with
    | .error e => .error e
    | .ok (a, w) =>
      match cwApplyL n ctx w as with
      | .error e => .error e
      | .ok (as, w) => .ok (a :: as, w)
end

/-- `substitute_call_args(terms, context, min_var)` (engine_unify.py:245-263); `min_var` is unused by the code. -/
def substituteCallArgs (fuel : Nat) (terms context : List Tm) : M (List Tm × List (Key × Key)) :=
  let rec loop : List Tm → CW → List Tm → M (List Tm × CW)
    | [], w, acc => .ok (acc, w)
    | t :: ts, w, acc =>
      match t with
      | .anon => loop ts { w with numCount := w.numCount - 1 } (acc ++ [.var (w.numCount - 1)])
      | t => match cwApply fuel context w t with
        | .error e => .error e
        | .ok (v, w) => loop ts w (acc ++ [v])
  match loop terms { numbers := [], translate := [(none, none)], numCount := 0 } [] with
  | .error e => .error e
  | .ok (r, w) => .ok (r, w.translate)

/-- Python list indexing `context[i]` (negative indices count from the end). -/
def pyIndex (ctx : List Tm) (i : Int) : M Tm :=
  let j := if i < 0 then i + ctx.length else i
  if j < 0 then .error .index
  else match ctx[j.toNat]? with
    | some v => .ok v
    | none => .error .index

/-- `substitute_simple(term, context)` with a list context (engine_unify.py:279-291). -/
def substSimpleList (ctx : List Tm) : Tm → M Tm
  | .var v => pyIndex ctx v
  | .anon => .ok .anon
  | .const c => .ok (.const c)
  | .app f as => match go as with | .ok as => .ok (.app f as) | .error e => .error e
where
  inner : Tm → M Tm
    | .var v => pyIndex ctx v
    | .anon => .error .type                                  -- `context[None]` inside `Term.apply`
    | .const c => .ok (.const c)
    | .app f as => match go as with | .ok as => .ok (.app f as) | .error e => .error e
  go : List Tm → M (List Tm)
    | [] => .ok []
    | a :: as => match inner a with
      | .error e => .error e
      | .ok a => match go as with | .ok as => .ok (a :: as) | .error e => .error e

/-- `substitute_head_args(terms, context)` (engine_unify.py:266-276). -/
def substituteHeadArgs (terms ctx : List Tm) : M (List Tm) :=
  terms.foldr (fun t acc => match substSimpleList ctx t, acc with
    | .ok v, .ok vs => .ok (v :: vs)
    | .error e, _ => .error e
    | _, .error e => .error e) (.ok [])

mutual
def Tm.keys : Tm → List Key
  | .var v => [some v]
  | .anon => [none]
  | .const _ => []
  | .app _ as => keysL as
def keysL : List Tm → List Key
  | [] => []
  | a :: as => a.keys ++ keysL as
end

/-- `is_ground(c)`. -/
def Tm.ground (t : Tm) : Bool := t.keys.isEmpty

/-- `StackBasedEngine.context_min_var` (engine_stack.py:841-851). -/
def contextMinVar (ctx : List Tm) : Int :=
  ctx.foldl (fun m c => c.keys.foldl (fun m k => match k with
    | some v => if v < 0 then min m v else m
    | none => m) m) 0

/-- `_builtin_eq` (engine_builtin.py:764): the list of results. -/
def builtinEq (fuel : Nat) (a1 a2 : Tm) : M (List (List Tm)) :=
  match unifyValue fuel a1 a2 [] with
  | .ok (r, _) => .ok [[r, r]]
  | .error .unify => .ok []
  | .error e => .error e

/-- `_builtin_neq` (engine_builtin.py:778). -/
def builtinNeq (fuel : Nat) (a1 a2 : Tm) : M Bool :=
  match unifyValue fuel a1 a2 [] with
  | .ok _ => .ok false
  | .error .unify => .ok true
  | .error e => .error e

/-- `T1 = T2` as a body literal with arguments `args` (over clause-context slots) in clause context `context`,
    as executed by `eval_call` (engine_stack.py:786-835): `substitute_call_args`, the builtin, and for each result
    `unify_call_return` (a `UnifyError` there drops the result). Returns the new contexts (0 or 1). -/
def eqBuiltin (fuel : Nat) (args context : List Tm) : M (List (List Tm)) :=
  let minVar := contextMinVar context
  match substituteCallArgs fuel args context with
  | .error e => .error e
  | .ok (callArgs, vt) =>
    match callArgs with
    | [a1, a2] =>
      match builtinEq fuel a1 a2 with
      | .error e => .error e
      | .ok results =>
        results.foldr (fun r acc =>
          match acc with
          | .error e => .error e
          | .ok outs =>
            match unifyCallReturn fuel r callArgs context vt minVar (callArgs.map (fun c => !c.ground)) with
            | .ok out => .ok (out :: outs)
            | .error .unify => .ok outs
            | .error e => .error e) (.ok [])
    | _ => .error .type

/-- `T1 \= T2` as a body literal (BooleanBuiltIn: on success the result is the call's own arguments). -/
def neqBuiltin (fuel : Nat) (args context : List Tm) : M (List (List Tm)) :=
  let minVar := contextMinVar context
  match substituteCallArgs fuel args context with
  | .error e => .error e
  | .ok (callArgs, vt) =>
    match callArgs with
    | [a1, a2] =>
      match builtinNeq fuel a1 a2 with
      | .error e => .error e
      | .ok false => .ok []
      | .ok true =>
        match unifyCallReturn fuel callArgs callArgs context vt minVar (callArgs.map (fun c => !c.ground)) with
        | .ok out => .ok [out]
        | .error .unify => .ok []
        | .error e => .error e
    | _ => .error .type

end ProbLogModel.Unify
