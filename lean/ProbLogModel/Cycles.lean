/-
Model of `problog/cycles.py` (`break_cycles`, `_break_cycles`, lines 35-190): the symbolic depth-first unrolling of a
cyclic and/or graph into an acyclic one, with the `translation` reuse table, `cycles_broken`, `content`, the
evidence short-cut (`get_evidence_value`) and the reset of the table before the evidence nodes.
The target is built through the builder model of `Formula.lean`.
-/
import ProbLogModel.Formula
namespace ProbLogModel.Cycles
open ProbLogModel.Formula

/-- One entry of `translation[nodeid]`: (newnode, cycles broken below, content − cycles broken). -/
structure TEntry where
  newnode : Key
  cb : List Nat
  cn : List Nat
  deriving Repr, Inhabited

abbrev Trans := List (Nat × List TEntry)

def transGet (t : Trans) (n : Nat) : List TEntry := (lookup t n).getD []
def transAppend (t : Trans) (n : Nat) (e : TEntry) : Trans := assocSet t n (transGet t n ++ [e])

def union (a b : List Nat) : List Nat := a ++ b.filter (fun x => !a.contains x)
def insert (a : List Nat) (x : Nat) : List Nat := if a.contains x then a else a ++ [x]
def diff (a b : List Nat) : List Nat := a.filter (fun x => !b.contains x)
def subset (a b : List Nat) : Bool := a.all b.contains
def disjoint (a b : List Nat) : Bool := a.all (fun x => !b.contains x)

/-- `get_evidence_value(nodeid)` for a positive node id; `ev = none` ⇔ `not has_evidence_values()`. -/
def evValue (ev : Option (List (Nat × Key))) (nodeid : Nat) : Key :=
  match ev with
  | none => some (nodeid : Int)
  | some tbl => (lookup tbl nodeid).getD (some (nodeid : Int))

/-- The renamed name `problog_cv_<functor>_cb_<k>` of a node below which a cycle was cut. -/
def cbName : Name → Nat → Name
  | .pos n, k => .pos (n + 1000 * (k + 1))
  -- a negated name `\+t` has functor `\+`: the renamed name is the positive term `problog_cv_\+_cb_k(t)`
  | .neg n, k => .pos (n + 500000 + 1000 * (k + 1))
  | nm, _ => nm

structure BC where
  target : Store
  trans : Trans
  deriving Inhabited

structure Res where
  st : BC
  key : Key
  cb : List Nat       -- what the call added to the caller's `cycles_broken`
  content : List Nat  -- what the call added to the caller's `content`
  deriving Inhabited

inductive CErr where
  | fuel
  | badNode (n : Int)
  | builder (e : Err)
  deriving Repr

def weightClass : Weight → PClass
  | .tt => .pNone
  | .ff => .pFalse
  | _ => .normal

mutual
/-- `_break_cycles(source, target, nodeid, ancestors, cycles_broken, content, translation, is_evidence)`. -/
def breakNode (src : Store) (ev : Option (List (Nat × Key))) (fuel : Nat) (st : BC) (node : Int)
    (ancestors : List Nat) (isEv : Bool) : Except CErr Res :=
  match fuel with
  | 0 => .error .fuel
  | fuel + 1 =>
    let negative := node < 0
    let nodeid := node.natAbs
    let ret (k : Key) : Key := if negative then negate k else k
    let evv := evValue ev nodeid
    if !isEv && !isProbabilistic evv then
      .ok ⟨st, ret evv, [], []⟩
    else if ancestors.contains nodeid then
      .ok ⟨st, none, [nodeid], []⟩          -- cyclic node: node is False (regardless of the sign)
    else
      let ancset := ancestors ++ [nodeid]
      match (transGet st.trans nodeid).find? (fun e => subset e.cb ancset && disjoint ancset e.cn) with
      | some e => .ok ⟨st, ret e.newnode, e.cb, e.cn⟩
      | none =>
        match src.nodes[nodeid - 1]? with
        | none => .error (.badNode node)
        | some (.atom ident group isExtra name) =>
          let w := (lookup src.weights nodeid).getD .neutral
          let (t', k) := st.target.addAtom ident (weightClass w) w group name true isExtra
          let st' : BC := ⟨t', transAppend st.trans nodeid ⟨k, [], []⟩⟩
          .ok ⟨st', ret k, [], []⟩
        | some (.conj children name) => breakCompound src ev fuel st nodeid negative .conj children name ancset isEv
        | some (.disj children name) => breakCompound src ev fuel st nodeid negative .disj children name ancset isEv

def breakCompound (src : Store) (ev : Option (List (Nat × Key))) (fuel : Nat) (st : BC) (nodeid : Nat)
    (negative : Bool) (kind : Kind) (children : List Key) (name : Option Name) (ancset : List Nat) (isEv : Bool) :
    Except CErr Res :=
  match breakChildren src ev fuel st children ancset isEv [] [] [] with
  | .error e => .error e
  | .ok (st1, keys, ccb, ccontent) =>
    let newname : Option Name := match name with
      | some nm => if ccb.isEmpty then some nm else some (cbName nm (transGet st1.trans nodeid).length)
      | none => none
    let r := match kind with
      | .conj => st1.target.addAnd keys newname
      | .disj => st1.target.addOr keys true newname
    match r with
    | .error e => .error (.builder e)
    | .ok (t', k) =>
      let own : List Nat := if isProbabilistic k then [nodeid] else []
      let st' : BC := ⟨t', transAppend st1.trans nodeid ⟨k, ccb, diff ccontent ccb⟩⟩
      .ok ⟨st', if negative then negate k else k, ccb, union own ccontent⟩

/-- The list comprehension over `node.children` (left to right, shared `child_cycles_broken`/`child_content`). -/
def breakChildren (src : Store) (ev : Option (List (Nat × Key))) (fuel : Nat) (st : BC) (children : List Key)
    (ancset : List Nat) (isEv : Bool) (acc : List Key) (cb content : List Nat) :
    Except CErr (BC × List Key × List Nat × List Nat) :=
  match children with
  | [] => .ok (st, acc, cb, content)
  | none :: _ => .error (.badNode 0)         -- a None child: Python raises TypeError in abs()
  | some c :: rest =>
    if c = 0 then
      -- child 0 (TRUE): returned as is (cycles.py: `if nodeid == 0: return nodeid`)
      breakChildren src ev fuel st rest ancset isEv (acc ++ [some 0]) cb content
    else
      match breakNode src ev fuel st c ancset isEv with
      | .error e => .error e
      | .ok r => breakChildren src ev fuel r.st rest ancset isEv (acc ++ [r.key]) (union cb r.cb) (union content r.content)
end

/-- `get_names_with_label()` order: labels in first-appearance order, names per label in insertion order. -/
def namesByLabel (ns : List (Label × Name × Key)) : List (Label × Name × Key) :=
  let labels := ns.foldl (fun acc e => if acc.contains e.1 then acc else acc ++ [e.1]) ([] : List Label)
  labels.flatMap (fun l => ns.filter (fun e => e.1 == l))

def isQueryLike : Label → Bool
  | .named | .evPos | .evNeg | .evMaybe => false
  | _ => true

/-- `break_cycles(source, target, keep_named)`; the target starts empty with the given options. -/
def breakCycles (src : Store) (ev : Option (List (Nat × Key))) (targetOpts : Opts := {}) (keepNamed : Bool := false) :
    Except CErr Store :=
  let fuel := src.nodes.length + 2
  let all := namesByLabel src.names
  let labeled := all.filter (fun e => isQueryLike e.1) ++
    (if keepNamed then all.filter (fun e => e.1 == .named) else [])
  let step1 (acc : Except CErr BC) (e : Label × Name × Key) : Except CErr BC :=
    match acc with
    | .error x => .error x
    | .ok st =>
      let (l, q, n) := e
      if isProbabilistic n then
        match n with
        | some i =>
          match breakNode src ev fuel st i [] false with
          | .error x => .error x
          | .ok r => .ok ⟨r.st.target.addName q r.key l, r.st.trans⟩
        | none => .ok st
      else .ok ⟨st.target.addName q n l, st.trans⟩
  match labeled.foldl step1 (.ok ⟨{ opts := targetOpts }, []⟩) with
  | .error x => .error x
  | .ok st1 =>
    let evs := (all.filter (fun e => e.1 == .evPos)) ++ (all.filter (fun e => e.1 == .evNeg)) ++
      (all.filter (fun e => e.1 == .evMaybe))
    let step2 (acc : Except CErr BC) (e : Label × Name × Key) : Except CErr BC :=
      match acc with
      | .error x => .error x
      | .ok st =>
        let (l, q, n) := e
        if isProbabilistic n then
          match n with
          | some i =>
            match breakNode src ev fuel st (i.natAbs : Int) [] true with
            | .error x => .error x
            | .ok r =>
              let k := if i < 0 then negate r.key else r.key
              .ok ⟨r.st.target.addName q k l, r.st.trans⟩
          | none => .ok st
        else .ok ⟨st.target.addName q n l, st.trans⟩
    match evs.foldl step2 (.ok ⟨st1.target, []⟩) with   -- translation is reset before the evidence
    | .error x => .error x
    | .ok st2 => .ok st2.target

/-! ### semantics used by the theorems and by the validator -/

/-- Executable "depth-first with ancestor cut" evaluation of a (possibly cyclic) store under an atom assignment
    (`α` by node id): `false` for a node on its own path. Fuelled by the number of nodes. -/
def cutEval (S : Store) (α : Nat → Bool) : Nat → List Nat → Key → Bool
  | _, _, none => false
  | 0, _, some _ => false
  | fuel + 1, anc, some k =>
    if k = 0 then true else
    let i := k.natAbs
    let v : Bool :=
      match S.nodes[i - 1]? with
      | none => false
      | some (.atom ..) => α i
      | some (.conj cs _) => if anc.contains i then false else cs.all (fun c => cutEval S α fuel (i :: anc) c)
      | some (.disj cs _) => if anc.contains i then false else cs.any (fun c => cutEval S α fuel (i :: anc) c)
    if k < 0 then !v else v

end ProbLogModel.Cycles
