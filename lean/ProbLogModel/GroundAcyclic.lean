/-
Big-step model of the default (buffered, tabled) grounding engine on GROUND programs WITHOUT positive recursion
(`problog/engine_stack.py`, `problog/eval_nodes.py`, `problog/engine.py`), built on the builder model `Formula.lean`.

What is mirrored (file:line of /repo/problog):

* `ClauseDB` compilation of the fragment (clausedb.py:360-381, 406-532): per ground goal (`define` node restricted by
  `ClauseIndex.find`, clausedb.py:1033-1071: for ground call arguments exactly the clauses with that head, in clause
  order) the list of its clauses:
    - `fact` node (functor, args, probability)                          -> `Clause.fact ident prob name`
    - `clause` node with body `conj(call, conj(call, ...))` / `neg(call)` -> `Clause.rule body none`
    - an annotated-disjunction head `p::h` of the AD with group `g`: `clause h :- conj(call body_g, call choice)`
      (clausedb.py:449-513)                                              -> `Clause.rule [pos body_g] (some choice)`
      where `body_g` is the auxiliary goal `_problog_ad_body_N(g, heads)` with the single clause `body_g :- Body`
      (`Body = true` for an AD without body: the builtin `true`, `Lit.tt`).
* `StackBasedEngine.execute` with the LIFO message stack `MessageFIFO` (engine_stack.py:313-516, 1181-1219): the
  children of an evaluation node are explored depth first, one after the other, in the order of the batch of `e`
  messages; the verification hook `_verif_shuffle` (engine_stack.py:1105-1109, 1126-1136) permutes exactly the
  batches with more than one `e` message - in this fragment: the clauses of a goal (`eval_define`,
  engine_stack.py:741-767).  The permutation is the SCHEDULE parameter (`Sched`, per goal).
* `eval_define` (engine_stack.py:653-767): table hit -> `results_to_actions` (eval_nodes.py:95-160; a FALSE node is
  "no result"); no matching clause -> `complete` at once (nothing is tabled); otherwise an `EvalDefine` node whose
  buffered results (`ResultSet`, eval_nodes.py:22-80: one list of proof nodes per answer, in arrival order) are
  collapsed on completion by `flushBuffer` -> `add_or(nodes, readonly=True, name=None)` (eval_nodes.py:553-599) and
  stored in `DefineCache` (engine_stack.py:1394-1487; a goal without results is stored as FALSE).
* `eval_fact` (engine_stack.py:612-638): `add_atom(node_id, probability, name=fact)`.
* `eval_clause` (engine_stack.py:853-906): ground head, the body reports to the define node directly.
* `eval_conj` / `EvalAnd` (eval_nodes.py:796-874): first conjunct; no result -> fail; then second conjunct (the rest
  of the right-nested conjunction); `add_and((first, second))`, the result is passed on EVEN IF it is FALSE.
* `eval_neg` / `EvalNot` (eval_nodes.py:734-793): no (non-FALSE) result -> TRUE; otherwise
  `add_not(add_or(nodes))` and a result unless that is FALSE.
* `eval_call` on a builtin `true` (`SimpleBuiltIn`, engine_stack.py:1543-1575): one result, node TRUE.
* `eval_choice` (engine_stack.py:911-952): `add_atom((group, (), choice), p, group=(group, ()), name=choice(g,c,head))`.
* `ClauseDBEngine.ground` (engine.py:314-360): after the goal is evaluated, `add_name(term, key, label)`
  (`key = FALSE` if there is no result); `ground_all` (engine.py:534-589, `propagate_evidence=False`) = the queries,
  then the evidence atoms, one `ground` each, on ONE target whose `_cache` (the table) persists.

NOT modelled (outside the fragment): variables / unification, cycles (`cycleDetected`, `closeCycle`, `add_disjunct`),
`propagate_evidence=True` (`lookup_evidence`), `keep_all`, `label_all`, unbuffered engines, builtins other than `true`,
body disjunction, unknown predicates (`UnknownClause`), `dont_cache` / `_nocache_` predicates.

Recursion: `evalGoal` recurses on a fuel argument; running out of fuel is the explicit error `Err.fuel` (never a silent
default).  For a program that is acyclic w.r.t. a rank function, fuel `> rank` never runs out
(`ProbLogProofs.C01Ground`).
-/
import ProbLogModel.Formula
namespace ProbLogModel.GroundAcyclic
open ProbLogModel.Formula

/-- ground atoms (goals), numbered by the harness; includes the auxiliary AD-body goals -/
abbrev Atom := Nat

/-- a body literal: call, negated call, the builtin `true` -/
inductive Lit where
  | pos (a : Atom)
  | neg (a : Atom)
  | tt
  deriving DecidableEq, Repr, Inhabited

/-- The `choice` node called last in the clause of an annotated-disjunction head.  `ident` stands for the Python atom
    identifier `(group, (), choice)` (and is the choice id of the specification), `group` for `(group, ())`. -/
structure Choice where
  ident : Nat
  group : Nat
  prob : Rat
  name : Nat
  deriving DecidableEq, Repr, Inhabited

inductive Clause where
  /-- `fact` node: `ident` stands for the ClauseDB node id (the atom identifier), `prob = none`: deterministic -/
  | fact (ident : Nat) (prob : Option Rat) (name : Nat)
  /-- `clause` node with a (right-nested) conjunction of literals, optionally ending in the call of a choice node -/
  | rule (body : List Lit) (choice : Option Choice)
  deriving DecidableEq, Repr, Inhabited

structure Prog where
  /-- per ground goal: its clauses in ClauseDB order (`define.children.find(args)`) -/
  defs : List (Atom × List Clause)
  deriving Repr, Inhabited

def Prog.clausesOf (P : Prog) (a : Atom) : List Clause := (lookup P.defs a).getD []

inductive Err where
  | fuel                       -- recursion deeper than the fuel (cyclic program or too little fuel)
  | builder (e : Formula.Err)  -- an exception of the formula builder
  | emptyBody                  -- a `rule` without literals and without choice (ClauseDB never produces one)
  deriving DecidableEq, Repr

/-- `DefineCache.__ground`: goal -> node (FALSE = the goal failed) -/
abbrev Table := List (Atom × Key)

structure St where
  table : Table := []
  store : Store := {}
  deriving Repr, Inhabited

/-- Schedule: for every goal a selection code for the batch of its clauses (see `permute`). -/
abbrev Sched := Atom → List Nat

/-- The order in which a batch is explored under a selection code: repeatedly pick element `i % length` of what is
    left; when the code runs out the rest keeps its order.  Total, always a permutation, every permutation has a code
    (`[]` = source order = the engine without the hook). -/
def permute {α : Type} : List Nat → List α → List α
  | [], l => l
  | _ :: _, [] => []
  | i :: is, x :: xs =>
    let l := x :: xs
    let j := i % l.length
    match l[j]? with
    | some y => y :: permute is (l.eraseIdx j)
    | none => l      -- unreachable (j < length)

def liftB {α} (r : Except Formula.Err α) : Except Err α :=
  match r with
  | .ok a => .ok a
  | .error e => .error (.builder e)

/-- items of a clause body as the engine sees them: literals, then possibly the choice call -/
inductive Item where
  | lit (l : Lit)
  | choice (c : Choice)
  deriving DecidableEq, Repr, Inhabited

def Clause.items : List Lit → Option Choice → List Item
  | body, none => body.map Item.lit
  | body, some c => body.map Item.lit ++ [Item.choice c]

/-- how a call of goal `a` is answered -/
abbrev Eval := Atom → St → Except Err (Key × St)

/-- One conjunct.  Result `none` = the conjunct completes without a result; `some k` = one result with node `k`. -/
def evalItem (ev : Eval) : Item → St → Except Err (Option Key × St)
  | .lit (.pos a), st => do
    -- eval_call -> eval_define; results_to_actions: a FALSE node is no result
    let (k, st1) ← ev a st
    pure (if isFalse k then none else some k, st1)
  | .lit (.neg a), st => do
    -- EvalNot: nodes = non-FALSE results of the call
    let (k, st1) ← ev a st
    if isFalse k then
      pure (some TRUE, st1)                                   -- eval_nodes.py:783-785
    else do
      let (S2, k') ← liftB (st1.store.addOr [k])              -- add_or(self.nodes, name=None)
      let r := negate k'                                      -- add_not
      pure (if isFalse r then none else some r, { st1 with store := S2 })
  | .lit .tt, st => pure (some TRUE, st)                      -- builtin true: NODE_TRUE
  | .choice c, st =>
    -- eval_choice: add_atom(origin + (choice,), p, group=origin, name=choice(...)); never None for a number
    let (S1, g) := st.store.addAtom (.user c.ident) .normal (.prob c.prob) (some c.group) (some (.pos c.name))
    pure (if isFalse g then none else some g, { st with store := S1 })

/-- A right-nested conjunction `conj(i1, conj(i2, ...))` (`EvalAnd`). -/
def evalItems (ev : Eval) : List Item → St → Except Err (Option Key × St)
  | [], _ => .error .emptyBody
  | [i], st => evalItem ev i st
  | i :: rest, st => do
    let (r1, st1) ← evalItem ev i st
    match r1 with
    | none => pure (none, st1)                                -- first conjunct completes: EvalAnd.complete
    | some k1 =>
      if isFalse k1 then pure (none, st1)                     -- eval_nodes.py:807-815
      else do
        let (r2, st2) ← evalItems ev rest st1
        match r2 with
        | none => pure (none, st2)
        | some k2 => do
          let (S3, k) ← liftB (st2.store.addAnd [k1, k2])     -- add_and((source, node), name=None)
          pure (some k, { st2 with store := S3 })             -- passed on even if FALSE

/-- One clause of a goal; the result (if any) is what `EvalDefine.new_result` buffers. -/
def evalClause (ev : Eval) : Clause → St → Except Err (Option Key × St)
  | .fact ident prob name, st =>
    let (S1, k) := match prob with
      | none => st.store.addAtom (.user ident) .pNone .tt none (some (.pos name))
      | some p => st.store.addAtom (.user ident) .normal (.prob p) none (some (.pos name))
    -- `if target_node is not None` (engine_stack.py:623)
    pure (if isFalse k then none else some k, { st with store := S1 })
  | .rule body ch, st => evalItems ev (Clause.items body ch) st

/-- The clauses of a goal in exploration order; returns the buffered proof nodes in arrival order. -/
def evalClauses (ev : Eval) : List Clause → St → Except Err (List Key × St)
  | [], st => pure ([], st)
  | c :: cs, st => do
    let (r, st1) ← evalClause ev c st
    let (rs, st2) ← evalClauses ev cs st1
    pure ((match r with | none => rs | some k => k :: rs), st2)

/-- `eval_define` for the ground goal `a`, sub-goals answered by `ev`. -/
def evalGoalWith (P : Prog) (sched : Sched) (ev : Eval) (a : Atom) (st : St) : Except Err (Key × St) :=
  match lookup st.table a with
  | some k => pure (k, st)                                     -- table hit
  | none =>
    let cs := P.clausesOf a
    if cs.isEmpty then pure (FALSE, st)                        -- to_complete == 0: complete, nothing tabled
    else do
      let (nodes, st1) ← evalClauses ev (permute (sched a) cs) st
      if nodes.isEmpty then
        pure (FALSE, { st1 with table := (a, FALSE) :: st1.table })     -- DefineCache: goal failed
      else do
        let (S2, k) ← liftB (st1.store.addOr nodes)            -- flushBuffer: add_or(nodes, readonly=True, name=None)
        pure (k, { table := (a, k) :: st1.table, store := S2 })

def evalGoal (P : Prog) (sched : Sched) : Nat → Eval
  | 0 => fun _ _ => .error .fuel
  | fuel + 1 => evalGoalWith P sched (evalGoal P sched fuel)

/-- One `engine.ground(db, term, target, label)` call (for `evidence(\+a)` the engine passes `a` with the label
    `evidence-`).  The name under which the result is stored is the atom itself (Python: the query term). -/
structure Call where
  atom : Atom
  label : Label
  deriving Repr, Inhabited

/-- Returns the key under which the atom is stored, and the new state. -/
def groundOne (P : Prog) (sched : Sched) (fuel : Nat) (st : St) (c : Call) : Except Err (Key × St) := do
  let (k, st1) ← evalGoal P sched fuel c.atom st
  -- engine.py:338-358: add_name(term, node, label) / add_name(term, FALSE, label)
  pure (k, { st1 with store := st1.store.addName (.pos c.atom) k c.label })

/-- Successive `ground` calls on one target (`ground_all`: the queries, then the evidence); the keys in call order. -/
def groundAll (P : Prog) (sched : Sched) (fuel : Nat) : List Call → St → Except Err (List Key × St)
  | [], st => pure ([], st)
  | c :: cs, st => do
    let (k, st1) ← groundOne P sched fuel st c
    let (ks, st2) ← groundAll P sched fuel cs st1
    pure (k :: ks, st2)

/-! ### rank check used by the driver (hypothesis of the theorems, decided per input) -/

def Lit.atom? : Lit → Option Atom
  | .pos a => some a
  | .neg a => some a
  | .tt => none

def Clause.bodyAtoms : Clause → List Atom
  | .fact .. => []
  | .rule body _ => body.filterMap Lit.atom?

/-- every body atom of every clause of `a` has a smaller rank than `a` -/
def acyclicB (P : Prog) (rk : Atom → Nat) : Bool :=
  P.defs.all (fun (a, cs) => cs.all (fun c => c.bodyAtoms.all (fun b => rk b < rk a)))

def nodupB : List Nat → Bool
  | [] => true
  | x :: xs => !xs.contains x && nodupB xs

/-- All hypotheses of the theorems about the program (`ProbLogProofs.GroundSem.WfP`), decided: distinct goals in
    `defs`, goals `< natoms`, ranks decrease along bodies, no clause with an empty body. -/
def wfB (P : Prog) (natoms : Nat) (rk : Atom → Nat) : Bool :=
  nodupB (P.defs.map (·.1)) && P.defs.all (fun d => decide (d.1 < natoms)) && acyclicB P rk &&
    P.defs.all (fun d => d.2.all (fun c => c != Clause.rule [] none))

end ProbLogModel.GroundAcyclic
