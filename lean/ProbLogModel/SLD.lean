/-
SLD resolution with negation as failure and findall/3 — the Lean stand-in for a standard Prolog system
(property C13; no Prolog is installed in the verification environment).

* `Tm`       — first-order terms in curried form: `f(a,b)` is `app (app (sym "f") a) b`; a list cell is
               `'.'(H,T)`, the empty list is the symbol `[]`, integers are symbols (their decimal text).
               The encoding is injective on first-order terms (functor name and arity are part of the spine),
               so syntactic unification of encodings is syntactic unification of the terms.
* `unifyF`   — Robinson unification with occurs check (fuelled; the outer `none` is "out of fuel").
* `solveSt`  — depth-first, leftmost literal, clauses in program order, negation as (finite) failure on ground
               goals (a non-ground negated goal flounders: `none`), conjunction, disjunction, `=/2`, `findall/3`
               (solutions in SLD order, duplicates kept).  `none` = out of fuel / floundering, never an answer.
* `Derivable`— the inductive (least-model) semantics: an atom holds iff it is an instance of a clause head whose
               body instance holds.  NAF literals and findall literals are *not* logical: `\+ g` (g ground) holds
               iff the SLD search for `g` fails finitely; a findall literal holds when its third argument is the
               SLD-ordered solution list of the goal as it was called (any instance of such a literal).
* `bottomUp` — naive bottom-up (T_P) evaluation for range-restricted programs: the answer-*set* semantics that
               tabled evaluation of recursive programs must produce.
-/
namespace ProbLogModel.SLD

inductive Tm where
  | var (n : Nat)
  | sym (s : String)
  | app (f a : Tm)
  deriving DecidableEq, Repr, Inhabited

abbrev Subst := List (Nat × Tm)

def lookup : Subst → Nat → Option Tm
  | [], _ => none
  | (y, t) :: r, x => if y = x then some t else lookup r x

namespace Tm
/-- Simultaneous (single pass) substitution. -/
def subst (σ : Subst) : Tm → Tm
  | var x => match lookup σ x with
    | some t => t
    | none => var x
  | sym s => sym s
  | app f a => app (f.subst σ) (a.subst σ)

/-- Renaming apart: shift every variable index by `k`. -/
def rename (k : Nat) : Tm → Tm
  | var x => var (x + k)
  | sym s => sym s
  | app f a => app (f.rename k) (a.rename k)

def occurs (x : Nat) : Tm → Bool
  | var y => x == y
  | sym _ => false
  | app f a => f.occurs x || a.occurs x

def ground : Tm → Bool
  | var _ => false
  | sym _ => true
  | app f a => f.ground && a.ground

/-- 1 + the largest variable index (0 for ground terms). -/
def maxVar : Tm → Nat
  | var x => x + 1
  | sym _ => 0
  | app f a => max f.maxVar a.maxVar
end Tm

/-- `σ` then `θ`. -/
def compose (σ θ : Subst) : Subst := σ.map (fun p => (p.1, p.2.subst θ)) ++ θ

/-- Robinson unification with occurs check.  Outer `none`: out of fuel; `some none`: not unifiable;
    `some (some θ)`: `θ` is a unifier (most general). -/
def unifyF : Nat → Tm → Tm → Option (Option Subst)
  | 0, _, _ => none
  | n + 1, a, b =>
    match a with
    | .var x =>
      (match b with
       | .var y => if x = y then some (some []) else some (some [(x, .var y)])
       | t => if t.occurs x then some none else some (some [(x, t)]))
    | .sym s =>
      (match b with
       | .var y => some (some [(y, .sym s)])
       | .sym s' => if s = s' then some (some []) else some none
       | .app _ _ => some none)
    | .app a1 a2 =>
      (match b with
       | .var y => if (Tm.app a1 a2).occurs y then some none else some (some [(y, .app a1 a2)])
       | .sym _ => some none
       | .app b1 b2 =>
         match unifyF n a1 b1 with
         | none => none
         | some none => some none
         | some (some θ1) =>
           match unifyF n (a2.subst θ1) (b2.subst θ1) with
           | none => none
           | some none => some none
           | some (some θ2) => some (some (compose θ1 θ2)))

inductive Goal where
  | tt
  | ff
  | call (t : Tm)
  | unif (a b : Tm)
  | conj (a b : Goal)
  | disj (a b : Goal)
  | neg (g : Goal)
  | findall (templ : Tm) (g : Goal) (res : Tm)
  deriving DecidableEq, Repr, Inhabited

namespace Goal
def subst (σ : Subst) : Goal → Goal
  | tt => tt
  | ff => ff
  | call t => call (t.subst σ)
  | unif a b => unif (a.subst σ) (b.subst σ)
  | conj a b => conj (a.subst σ) (b.subst σ)
  | disj a b => disj (a.subst σ) (b.subst σ)
  | neg g => neg (g.subst σ)
  | findall t g r => findall (t.subst σ) (g.subst σ) (r.subst σ)

def rename (k : Nat) : Goal → Goal
  | tt => tt
  | ff => ff
  | call t => call (t.rename k)
  | unif a b => unif (a.rename k) (b.rename k)
  | conj a b => conj (a.rename k) (b.rename k)
  | disj a b => disj (a.rename k) (b.rename k)
  | neg g => neg (g.rename k)
  | findall t g r => findall (t.rename k) (g.rename k) (r.rename k)

def ground : Goal → Bool
  | tt => true
  | ff => true
  | call t => t.ground
  | unif a b => a.ground && b.ground
  | conj a b => a.ground && b.ground
  | disj a b => a.ground && b.ground
  | neg g => g.ground
  | findall t g r => t.ground && g.ground && r.ground

def maxVar : Goal → Nat
  | tt => 0
  | ff => 0
  | call t => t.maxVar
  | unif a b => max a.maxVar b.maxVar
  | conj a b => max a.maxVar b.maxVar
  | disj a b => max a.maxVar b.maxVar
  | neg g => g.maxVar
  | findall t g r => max t.maxVar (max g.maxVar r.maxVar)

/-- The positive, logical fragment: no negation, no findall. -/
def positive : Goal → Bool
  | tt => true
  | ff => true
  | call _ => true
  | unif _ _ => true
  | conj a b => a.positive && b.positive
  | disj a b => a.positive && b.positive
  | neg _ => false
  | findall _ _ _ => false
end Goal

/-- A clause `head :- body` whose variables are `0 .. nvars-1`. -/
structure Clause where
  head : Tm
  body : Goal
  nvars : Nat
  deriving Repr, Inhabited

abbrev Program := List Clause

/-- Search state: the answer substitution so far and the next unused variable index. -/
structure St where
  σ : Subst
  next : Nat
  deriving Repr, Inhabited

/-- Run `f` on every element, in order; concatenate the answer lists; fail if any run fails. -/
def bindAll {α β : Type} (f : α → Option (List β)) : List α → Option (List β)
  | [] => some []
  | x :: xs =>
    match f x with
    | none => none
    | some ys =>
      match bindAll f xs with
      | none => none
      | some zs => some (ys ++ zs)

/-- Prolog list of the given elements. -/
def mkList : List Tm → Tm
  | [] => .sym "[]"
  | x :: xs => .app (.app (.sym ".") x) (mkList xs)

def maxNext (n : Nat) (as : List St) : Nat := as.foldl (fun m a => max m a.next) n

/-- SLD(NF) search.  Answers in Prolog order. -/
def solveSt (P : Program) : Nat → Goal → St → Option (List St)
  | 0, _, _ => none
  | n + 1, g, s =>
    match g with
    | .tt => some [s]
    | .ff => some []
    | .unif a b =>
      (match unifyF n (a.subst s.σ) (b.subst s.σ) with
       | none => none
       | some none => some []
       | some (some θ) => some [⟨compose s.σ θ, s.next⟩])
    | .conj a b =>
      (match solveSt P n a s with
       | none => none
       | some as => bindAll (fun s1 => solveSt P n b s1) as)
    | .disj a b =>
      (match solveSt P n a s with
       | none => none
       | some xs =>
         match solveSt P n b s with
         | none => none
         | some ys => some (xs ++ ys))
    | .neg g =>
      if (g.subst s.σ).ground then
        (match solveSt P n (g.subst s.σ) ⟨[], s.next⟩ with
         | none => none
         | some [] => some [s]
         | some (_ :: _) => some [])
      else none
    | .call t =>
      bindAll (fun c =>
        match unifyF n (t.subst s.σ) ((c.head.rename s.next).subst s.σ) with
        | none => none
        | some none => some []
        | some (some θ) => solveSt P n (c.body.rename s.next) ⟨compose s.σ θ, s.next + c.nvars⟩) P
    | .findall t g r =>
      (match solveSt P n (g.subst s.σ) ⟨[], s.next⟩ with
       | none => none
       | some as =>
         match unifyF n (r.subst s.σ) (mkList (as.map (fun a => (t.subst s.σ).subst a.σ))) with
         | none => none
         | some none => some []
         | some (some θ) => some [⟨compose s.σ θ, maxNext s.next as⟩])

/-- Top level: the answer substitutions of goal `g`, in Prolog order. -/
def solve (P : Program) (g : Goal) (fuel : Nat) : Option (List Subst) :=
  (solveSt P fuel g ⟨[], g.maxVar⟩).map (fun as => as.map (·.σ))

/-- Inductive semantics (see the header). -/
inductive Derivable (P : Program) : Goal → Prop
  | tt : Derivable P .tt
  | unif (a : Tm) : Derivable P (.unif a a)
  | conj {a b : Goal} : Derivable P a → Derivable P b → Derivable P (.conj a b)
  | disjL {a b : Goal} : Derivable P a → Derivable P (.disj a b)
  | disjR {a b : Goal} : Derivable P b → Derivable P (.disj a b)
  | call (c : Clause) (k : Nat) (ρ : Subst) : c ∈ P → Derivable P ((c.body.rename k).subst ρ) →
      Derivable P (.call ((c.head.rename k).subst ρ))
  | neg (g : Goal) (n k : Nat) : g.ground = true → solveSt P n g ⟨[], k⟩ = some [] → Derivable P (.neg g)
  | findall (t : Tm) (g : Goal) (n k : Nat) (as : List St) (δ : Subst) : solveSt P n g ⟨[], k⟩ = some as →
      Derivable P ((Goal.findall t g (mkList (as.map (fun a => t.subst a.σ)))).subst δ)

/-! ## Bottom-up evaluation (answer sets of recursive programs) -/

/-- A set of ground atoms as a program of facts. -/
def factProgram (F : List Tm) : Program := F.map (fun f => ⟨f, .tt, 0⟩)

def insertNew (F : List Tm) (t : Tm) : List Tm := if F.contains t then F else F ++ [t]

/-- One application of the immediate-consequence operator: every clause body is solved against the facts
    derived so far (a non-recursive fact program, so the search terminates); non-ground consequences are
    outside the supported (range-restricted) fragment: `none`. -/
def tpStep (P : Program) (fuel : Nat) (F : List Tm) : Option (List Tm) :=
  bindAll (fun c =>
    match solveSt (factProgram F) fuel c.body ⟨[], c.nvars⟩ with
    | none => none
    | some as =>
      let hs := as.map (fun a => c.head.subst a.σ)
      if hs.all Tm.ground then some hs else none) P

/-- Iterate `tpStep` until nothing new is derived (at most `rounds` rounds; `none` if not yet stable). -/
def bottomUp (P : Program) (fuel : Nat) : Nat → List Tm → Option (List Tm)
  | 0, _ => none
  | k + 1, F =>
    match tpStep P fuel F with
    | none => none
    | some new =>
      let F' := new.foldl insertNew F
      if F'.length = F.length then some F else bottomUp P fuel k F'

end ProbLogModel.SLD
