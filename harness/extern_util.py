"""C28, stream "signatures": generated `problog_export` / `problog_export_nondet` / `problog_export_raw` declarations
(1-3 inputs, 1-3 outputs of types int/float/str/list/term) around table-driven Python functions, called with every output
argument unbound, bound to the right value, bound to a wrong value (or, for list/term outputs, partially bound).

Specification (independent Python oracle): the call has an answer for exactly the result tuples all of whose bound
positions equal the Python result, the answer's arguments are the conversions of the Python results, and the function
received exactly the Python values its input arguments denote.  The Lean model of the wrapper
(lean/ProbLogModel/Extern.lean, theorems C28_export_decision / C28_export_nondet_decision) computes the outcome of the
ground calls through Drivers/C28 (`export`, `exportnd`); the caller compares it with the real outcome."""
import os
import sys
import tempfile
import types

from lib import Infra, q
import pypl_util as U

TYPES = ["int", "float", "str", "list", "term"]
INTS = [0, 1, -1, 2, 3, 5, 7, 23, 42, -13, 10 ** 6, 2 ** 70, -(2 ** 64)]
FLOATS = [0.5, -1.25, 2.25, 10.75, -7.5, 0.125, 123.4375, 3.0625, 1000000.5]   # dyadic, never integral: exact under +-0.25 steps and round(.,15)
STRS = ["a", "b", "ab", "abc", "x1", "foo", "bar_2", "hello", "aB", "q", "zz", "n0"]
CHANNEL = "c28_sig_channel"


# --------------------------------------------------------------------------- values
def gen_elem(rng, depth):
    r = rng.random()
    if depth <= 0 or r < 0.6:
        k = rng.random()
        if k < 0.5:
            return rng.choice(INTS)
        if k < 0.7:
            return rng.choice(FLOATS)
        return rng.choice(STRS)
    if r < 0.85:
        return [gen_elem(rng, depth - 1) for _ in range(rng.choice([0, 1, 2, 2, 3]))]
    xs = [gen_elem(rng, depth - 1) for _ in range(rng.choice([0, 2, 3]))]
    while xs and type(xs[-1]) is tuple:
        xs[-1] = gen_elem(rng, 0)
    return tuple(xs)


def gen_term(rng, depth):
    """A ground Term with arities 0 and 2 only (the shapes the Lean model keeps structurally)."""
    from problog.logic import Term, Constant
    r = rng.random()
    if depth <= 0 or r < 0.45:
        k = rng.random()
        if k < 0.6:
            return Term(rng.choice(STRS))
        if k < 0.85:
            return Constant(rng.choice(INTS))
        return Constant(rng.choice(FLOATS))
    return Term(rng.choice(["f", "g", "pair", "-"]), gen_term(rng, depth - 1), gen_term(rng, depth - 1))


def gen_value(rng, ty):
    if ty == "int":
        return rng.choice(INTS)
    if ty == "float":
        return rng.choice(FLOATS)
    if ty == "str":
        return rng.choice(STRS)
    if ty == "list":
        return [gen_elem(rng, 2) for _ in range(rng.choice([0, 1, 1, 2, 3]))]
    if ty == "term":
        return gen_term(rng, 2)
    raise Infra("unknown type " + ty)


def mutate(rng, ty, v):
    """A value of the same type that differs from `v` (never only by int/float type: numbers change by >= 0.5)."""
    from problog.logic import Term, Constant
    if ty == "int":
        return v + rng.choice([1, -1, 10, 2 ** 40])
    if ty == "float":
        return v + rng.choice([0.25, 1.0, -2.5])          # stays non-integral and dyadic
    if ty == "str":
        return rng.choice([v + "z", "z" + v, v[:-1] or "zz", v.upper().lower() + "_"])
    if ty == "list":
        k = rng.random()
        if not v or k < 0.3:
            return v + [rng.choice([0, "w", 0.75])]
        if k < 0.5:
            return v[:-1]
        i = rng.randrange(len(v))
        return v[:i] + [mutate_elem(rng, v[i])] + v[i + 1:]
    if ty == "term":
        if isinstance(v, Constant):
            return Term("c", v, v) if rng.random() < 0.3 else Constant(mutate_elem(rng, v.functor))
        if v.arity == 0:
            return Term(v.functor + "x")
        k = rng.random()
        if k < 0.3:
            return Term(v.functor + "x", *v.args)
        if k < 0.65:
            return Term(v.functor, mutate(rng, "term", v.args[0]), v.args[1])
        return Term(v.functor, v.args[0], mutate(rng, "term", v.args[1]))
    raise Infra("unknown type " + ty)


def mutate_elem(rng, x):
    if type(x) is int:
        return x + 1
    if type(x) is float:
        return x + 0.25
    if type(x) is str:
        return x + "z"
    if type(x) is list:
        return x + [1]
    if type(x) is tuple:
        return x + (1, 2)
    raise Infra("unknown element %r" % (x,))


def same_value(ty, a, b):
    """Python-level equality of two values of one declared type (the oracle's notion of 'the bound output is the result')."""
    if ty == "term":
        return U.enc_pl(a) == U.enc_pl(b)
    return U.same(a, b)


# --------------------------------------------------------------------------- arguments of the call
def to_term(ty, v):
    """The Prolog term a caller writes for a value of a declared type (for bound outputs: the converted result)."""
    from problog.logic import Term, Constant, list2term
    if ty in ("int", "float"):
        return Constant(v)
    if ty == "str":
        return Term(v)
    if ty == "list":
        return list2term(v)
    return v


def in_term(rng, ty, v):
    """An input argument denoting the Python value v: strings may be written as atom or as string constant."""
    from problog.logic import Constant
    if ty == "str" and rng is not None and rng.random() < 0.4:
        return Constant('"%s"' % v)
    return to_term(ty, v)


def holes(rng, t, p=0.4):
    """Replace some proper subterms of a ground term by fresh variables (None); None if nothing was replaced."""
    from problog.logic import Term
    changed = [False]

    def go(x, top):
        if not top and rng.random() < p:
            changed[0] = True
            return None
        if isinstance(x, Term) and x.arity > 0 and type(x.functor) is str:
            if x.functor == "." and x.arity == 2:
                # keep the list spine (the mode test wants a fixed-length list): only elements become variables
                return Term(".", go(x.args[0], False), go_tail(x.args[1]))
            return Term(x.functor, *[go(a, False) for a in x.args])
        return x

    def go_tail(x):
        if isinstance(x, Term) and x.functor == "." and x.arity == 2:
            return Term(".", go(x.args[0], False), go_tail(x.args[1]))
        return x
    r = go(t, True)
    return r if changed[0] else None


def term_text(t):
    """Program text of an argument (None = anonymous variable)."""
    from problog.logic import Term
    if t is None:
        return "_"
    if isinstance(t, Term) and t.arity > 0 and type(t.functor) is str:
        if t.functor == "." and t.arity == 2:
            items, tail = [], t
            while isinstance(tail, Term) and tail.functor == "." and tail.arity == 2:
                items.append(term_text(tail.args[0]))
                tail = tail.args[1]
            return "[" + ", ".join(items) + "]" if str(tail) == "[]" else "[%s|%s]" % (", ".join(items), term_text(tail))
        if t.functor == "," and t.arity == 2:
            return "(%s, %s)" % (term_text(t.args[0]), term_text(t.args[1]))
        if t.functor == "-":
            return "'-'(%s)" % ", ".join(term_text(a) for a in t.args)
        return "%s(%s)" % (t.functor, ", ".join(term_text(a) for a in t.args))
    s = str(t)
    return "(%s)" % s if s.startswith("-") else s


# --------------------------------------------------------------------------- generation
def gen_signature(rng, k):
    deco = rng.choice(["det", "det", "det", "nondet", "nondet", "raw"])
    nin = rng.choice([1, 1, 2, 2, 3])
    nout = rng.choice([1, 2, 2, 2, 3, 3])
    ins = [rng.choice(["int", "int", "float", "str", "list", "term"]) for _ in range(nin)]
    outs = [rng.choice(["int", "int", "float", "str", "str", "list", "term"]) for _ in range(nout)]
    if deco == "raw":
        # "functions without clear distinction between input and output": every argument may be bound or unbound
        ins, outs = [], (ins + outs)[:4]
        if len(outs) < 2:
            outs.append("int")
    return {"name": "sg%d" % k, "deco": deco, "ins": ins, "outs": outs}


def lib_source(sigs):
    lines = ["from problog.extern import problog_export, problog_export_nondet, problog_export_raw",
             "import %s as ch" % CHANNEL, ""]
    for s in sigs:
        if s["deco"] == "raw":
            spec = ", ".join("'+%s'" % t for t in s["ins"] + s["outs"])
            lines += ["@problog_export_raw(%s)" % spec, "def %s(*a, **kw):" % s["name"]]
        else:
            spec = ", ".join(["'+%s'" % t for t in s["ins"]] + ["'-%s'" % t for t in s["outs"]])
            lines += ["@%s(%s)" % ("problog_export" if s["deco"] == "det" else "problog_export_nondet", spec),
                      "def %s(*a):" % s["name"]]
        lines += ["    ch.LOG.append(('%s', a))" % s["name"], "    return ch.RESULTS['%s']" % s["name"], ""]
    return "\n".join(lines)


def gen_call(rng, sig):
    """One call: Python values of the inputs, the Python result tuples (outputs only), the state of every output."""
    ins = [gen_value(rng, t) for t in sig["ins"]]
    nres = 1 if sig["deco"] == "det" else rng.choice([0, 1, 2, 2, 3])
    results = []
    for _ in range(nres):
        if results and rng.random() < 0.5:
            # share components with an earlier tuple so that a bound output selects several / one of several
            base = rng.choice(results)
            results.append(tuple(b if rng.random() < 0.6 else gen_value(rng, t) for b, t in zip(base, sig["outs"])))
        else:
            results.append(tuple(gen_value(rng, t) for t in sig["outs"]))
    bad_type = rng.random() < 0.05
    states = []
    for j, t in enumerate(sig["outs"]):
        r = rng.random()
        pool = [res[j] for res in results]
        if r < 0.36:
            states.append(("u",))
        elif not pool:
            states.append(("b", gen_value(rng, t)))        # no result at all: any bound value gives no answer
        elif r < 0.70:
            states.append(("b", rng.choice(pool)))
        elif r < 0.88 or t not in ("list", "term"):
            states.append(("b", mutate(rng, t, rng.choice(pool))))
        else:
            v = rng.choice(pool) if rng.random() < 0.6 else mutate(rng, t, rng.choice(pool))
            # (a raw function receives term2list of a bound list argument: variables inside are outside the interface)
            h = holes(rng, to_term(t, v)) if not (sig["deco"] == "raw" and t == "list") else None
            states.append(("p", v, h) if h is not None else ("b", v))
    if bad_type:
        j = rng.randrange(len(states))
        t = sig["outs"][j]
        if t != "term":
            other = {"int": "str", "float": "int", "str": "int", "list": "int"}[t]
            states[j] = ("x", other, gen_value(rng, other))
    return {"ins": ins, "results": results, "states": states, "instr": [rng.random() for _ in ins], "text": rng.random() < 0.35}


# --------------------------------------------------------------------------- running one call
class Lib:
    """A generated library loaded into a fresh engine/database."""

    def __init__(self, sigs):
        from problog.program import PrologString
        from problog.engine import DefaultEngine
        self.sigs = sigs
        self.ch = types.ModuleType(CHANNEL)
        self.ch.RESULTS, self.ch.LOG = {}, []
        sys.modules[CHANNEL] = self.ch
        self.tmp = tempfile.mkdtemp(prefix="c28sig_")
        self.path = os.path.join(self.tmp, "c28siglib.py")
        self.src = lib_source(sigs)
        with open(self.path, "w") as f:
            f.write(self.src)
        self.eng = DefaultEngine()
        self.db = self.eng.prepare(PrologString(":- use_module('%s').\n" % self.path))

    def fresh_engine(self):
        """An engine object is not reusable after an exception escaped from it (stack not reset)."""
        from problog.engine import DefaultEngine
        self.eng = DefaultEngine()

    def close(self):
        sys.modules.pop(CHANNEL, None)
        try:
            os.unlink(self.path)
            os.rmdir(self.tmp)
        except OSError:
            pass


def py_result(sig, ins, res):
    """What the Python function returns for one result tuple (outputs only)."""
    if sig["deco"] == "raw":
        return tuple(ins) + tuple(res)
    return res[0] if len(sig["outs"]) == 1 else tuple(res)


def call_args(sig, call):
    """(input terms, output terms, bound Python value or None per output, ground?)"""
    ins = []
    for t, v, x in zip(sig["ins"], call["ins"], call["instr"]):
        ins.append(in_term(_Fixed(x), t, v))
    outs, ground = [], True
    for t, st in zip(sig["outs"], call["states"]):
        if st[0] == "u":
            outs.append(None)
        elif st[0] == "b":
            outs.append(to_term(t, st[1]))
        elif st[0] == "p":
            outs.append(st[2])
            ground = False
        else:
            outs.append(to_term(st[1], st[2]))
    return ins, outs, ground


class _Fixed:
    """rng stand-in replaying one recorded draw."""

    def __init__(self, x):
        self.x = x

    def random(self):
        return self.x


def expected(sig, call):
    """Oracle: 'modeerror-or-fail' | list of expected answers (tuples of Python output values), in result order."""
    if any(st[0] == "x" for st in call["states"]):
        return None
    keep = []
    for res in call["results"]:
        ok = True
        for t, st, r in zip(sig["outs"], call["states"], res):
            if st[0] == "b" and not same_value(t, st[1], r):
                ok = False
            if st[0] == "p" and not matches(st[2], to_term(t, r)):
                ok = False
        if ok:
            keep.append(res)
    return keep


def matches(pattern, term):
    """One-way unification of a pattern whose variables (None) are all distinct with a ground term."""
    from problog.logic import Term, Constant
    if pattern is None:
        return True
    if isinstance(pattern, Constant) or isinstance(term, Constant) or not isinstance(pattern, Term):
        try:
            return U.enc_pl(pattern) == U.enc_pl(term)
        except U.NotEncodable:
            return False
    if not isinstance(term, Term) or pattern.functor != term.functor or pattern.arity != term.arity:
        return False
    return all(matches(a, b) for a, b in zip(pattern.args, term.args))


def answer_ok(ty, term, v):
    """Is the answer's argument exactly the Python result v (type-strict)?"""
    from problog.logic import Term, Constant
    from problog.pypl import pl2py
    if ty == "int":
        return isinstance(term, Constant) and type(term.functor) is int and term.functor == v
    if ty == "float":
        return isinstance(term, Constant) and type(term.functor) is float and term.functor == v
    if ty == "str":
        return isinstance(term, Term) and not isinstance(term, Constant) and term.arity == 0 and term.functor == v
    if ty == "list":
        try:
            return U.same(pl2py(term), v)
        except Exception:  # noqa
            return False
    try:
        return U.enc_pl(term) == U.enc_pl(v)
    except U.NotEncodable:
        return False


def run_call(lib, sig, call, via_text):
    """Run one call on the real engine. Returns dict(outcome='answers'|'CallModeError'|'raises X', answers=[arg tuples],
    received=[python arg tuples logged by the function], query=text)."""
    from problog.logic import Term
    from problog.program import PrologString
    from problog.engine_builtin import CallModeError
    ins, outs, _ = call_args(sig, call)
    lib.ch.RESULTS[sig["name"]] = [py_result(sig, call["ins"], r) for r in call["results"]]
    if sig["deco"] == "det":
        lib.ch.RESULTS[sig["name"]] = lib.ch.RESULTS[sig["name"]][0]
    del lib.ch.LOG[:]
    goal = "%s(%s)" % (sig["name"], ", ".join(term_text(a) for a in ins + outs))
    out = {"query": goal, "answers": [], "received": []}
    try:
        if via_text:
            # through program text: a clause whose head collects all arguments of the call
            vs, k = [], [0]

            def txt(a):
                if a is None:
                    k[0] += 1
                    vs.append("V%d" % k[0])
                    return vs[-1]
                return term_text(a)
            body = "%s(%s)" % (sig["name"], ", ".join([term_text(a) for a in ins] + [txt(a) for a in outs]))
            text = "c28call(%s) :- %s." % (", ".join(vs) if vs else "ok", body)
            out["query"] = text + "  query(c28call(%s))." % ", ".join("_" for _ in (vs or [1]))
            db = lib.db.extend()
            for cl in PrologString(text):
                db += cl
            res = lib.eng.query(db, Term("c28call", *([None] * max(1, len(vs)))))
            # rebuild full argument tuples: unbound outputs from the head, the rest as written
            answers = []
            for r in res:
                it = iter(r)
                # bound outputs are as written (None for a partially bound one: not visible through the head)
                answers.append(tuple(ins) + tuple(next(it) if a is None else a if st[0] != "p" else None
                                                  for a, st in zip(outs, call["states"])))
            out["answers"] = answers
            out["text_mode"] = True
        else:
            res = lib.eng.query(lib.db, Term(sig["name"], *(ins + outs)))
            out["answers"] = [tuple(r) for r in res]
        out["outcome"] = "answers"
    except CallModeError:
        out["outcome"] = "CallModeError"
        lib.fresh_engine()
    except Infra:
        raise
    except Exception as e:  # noqa
        out["outcome"] = "raises %s: %s" % (type(e).__name__, str(e)[:120])
        lib.fresh_engine()
    out["received"] = [a for (n, a) in lib.ch.LOG if n == sig["name"]]
    return out


def input_received_ok(sig, call, received):
    """The function was called (once) with exactly the Python values of its inputs (raw: None for unbound arguments,
    the bound value otherwise; partially bound arguments are not compared)."""
    if len(received) != 1:
        return False
    got = received[0]
    exp = [(t, v) for t, v in zip(sig["ins"], call["ins"])]
    if sig["deco"] == "raw":
        for t, st in zip(sig["outs"], call["states"]):
            exp.append((t, None) if st[0] == "u" else (t, st[1]) if st[0] == "b" else (None, None))
    if len(got) != len(exp):
        return False
    for g, (t, v) in zip(got, exp):
        if t is None:
            continue
        if v is None:
            if g is not None:
                return False
        elif not same_value(t, g, v):
            return False
    return True


# --------------------------------------------------------------------------- model line
def model_line(sig, call):
    """Driver line for a ground, well-typed call (None when the model does not cover the call)."""
    if any(st[0] in ("p", "x") for st in call["states"]):
        return None
    try:
        tys = list(sig["outs"])
        args = ["u" if st[0] == "u" else "(b %s)" % U.enc_pl(to_term(t, st[1])) for t, st in zip(sig["outs"], call["states"])]
        tuples = ["(%s)" % " ".join(U.enc_val(v) for v in res) for res in call["results"]]
    except U.NotEncodable:
        return None
    if sig["deco"] == "det":
        return "export (%s) (%s) %s" % (" ".join(tys), " ".join(args), tuples[0])
    return "exportnd (%s) (%s) (%s)" % (" ".join(tys), " ".join(args), " ".join(tuples))


def impl_line(sig, call, real):
    """The real outcome in the model's output format (outputs only)."""
    if real["outcome"] == "CallModeError":
        return "modeError"
    if real["outcome"] != "answers":
        return real["outcome"]
    n = len(sig["ins"])
    try:
        if sig["deco"] == "det":
            if not real["answers"]:
                return "fail"
            if len(real["answers"]) > 1:
                return "several answers"
            return "(ok %s)" % " ".join(U.enc_pl(a) for a in real["answers"][0][n:])
        return "(ok %s)" % " ".join("(%s)" % " ".join(U.enc_pl(a) for a in ans[n:]) for ans in real["answers"])
    except U.NotEncodable:
        return "not-encodable"


# --------------------------------------------------------------------------- replay encoding
def enc_call(sig, call):
    def ev(t, v):
        return U.enc_val(v)
    return {"sig": sig,
            "ins": [ev(t, v) for t, v in zip(sig["ins"], call["ins"])],
            "results": [[ev(t, v) for t, v in zip(sig["outs"], res)] for res in call["results"]],
            "states": [[st[0]] if st[0] == "u" else [st[0], ev(t, st[1])] if st[0] == "b" else
                       ["p", ev(t, st[1]), U.enc_pl(hole_marks(st[2]))] if st[0] == "p" else ["x", st[1], ev(st[1], st[2])]
                       for t, st in zip(sig["outs"], call["states"])],
            "instr": call["instr"], "text": call["text"]}


HOLE = "c28_hole_marker"


def hole_marks(t):
    from problog.logic import Term
    if t is None:
        return Term(HOLE)
    if isinstance(t, Term) and t.arity > 0:
        return Term(t.functor, *[hole_marks(a) for a in t.args])
    return t


def hole_unmarks(t):
    from problog.logic import Term
    if isinstance(t, Term) and t.arity == 0 and t.functor == HOLE:
        return None
    if isinstance(t, Term) and t.arity > 0:
        return Term(t.functor, *[hole_unmarks(a) for a in t.args])
    return t


def dec_pl(tree):
    from problog.logic import Term, Constant
    from fractions import Fraction
    tag = tree[0]
    if tag == "ci":
        return Constant(int(tree[1]))
    if tag == "cf":
        return Constant(float(Fraction(tree[1])))
    if tag == "cs":
        return Constant(U.unq(tree[1]))
    if tag == "a":
        return Term(U.unq(tree[1]))
    if tag == "a2":
        return Term(U.unq(tree[1]), dec_pl(tree[2]), dec_pl(tree[3]))
    raise Infra("cannot decode term " + str(tree))


def dec_value(text):
    tree = U.parse_sexp(text)

    def go(t):
        if t[0] == "term":
            return dec_pl(t[1])
        if t[0] == "l":
            return [go(x) for x in t[1:]]
        if t[0] == "t":
            return tuple(go(x) for x in t[1:])
        return U.dec_val(t)
    return go(tree)


def dec_call(obj):
    sig = obj["sig"]
    states = []
    for st in obj["states"]:
        if st[0] == "u":
            states.append(("u",))
        elif st[0] == "b":
            states.append(("b", dec_value(st[1])))
        elif st[0] == "p":
            states.append(("p", dec_value(st[1]), hole_unmarks(dec_pl(U.parse_sexp(st[2])))))
        else:
            states.append(("x", st[1], dec_value(st[2])))
    call = {"ins": [dec_value(x) for x in obj["ins"]], "results": [tuple(dec_value(x) for x in res) for res in obj["results"]],
            "states": states, "instr": obj["instr"], "text": obj["text"]}
    return sig, call


# --------------------------------------------------------------------------- the stream
def text_safe(t):
    """Terms whose program text is parsed back to the same term without touching parser corner cases
    (non-negative numbers, plain functors)."""
    from problog.logic import Term, Constant
    if t is None:
        return True
    if isinstance(t, Constant):
        v = t.functor
        if type(v) is int:
            return v >= 0
        if type(v) is float:
            return v > 0 and "e" not in repr(v)
        return type(v) is str and v.startswith('"')
    if isinstance(t, Term):
        import re
        if t.functor == "." and t.arity == 2 or t.functor == "[]" and t.arity == 0:
            return all(text_safe(a) for a in t.args)
        if type(t.functor) is not str or not re.fullmatch(r"[a-z][A-Za-z0-9_]*", t.functor):
            return False
        return all(text_safe(a) for a in t.args)
    return False


def check_call(lib, sig, call):
    """Run one call, compare with the oracle. Returns (problem or None, real outcome). problem = (what, signature)."""
    ins, outs, ground = call_args(sig, call)
    via_text = bool(call.get("text")) and all(text_safe(a) for a in ins + outs)
    real = run_call(lib, sig, call, via_text)
    exp = expected(sig, call)
    deco = sig["deco"]
    desc = "%s %s(%s): Python result %r, call %s" % (
        {"det": "problog_export", "nondet": "problog_export_nondet", "raw": "problog_export_raw"}[deco], sig["name"],
        ", ".join(["+" + t for t in sig["ins"]] + [("+" if deco == "raw" else "-") + t for t in sig["outs"]]),
        lib.ch.RESULTS.get(sig["name"]), real["query"])
    if exp is None:
        # a bound output of another type than declared: CallModeError or no answer, never an answer
        if real["outcome"] == "CallModeError" or (real["outcome"] == "answers" and not real["answers"]):
            return None, real
        return ("%s: an output bound to a term of the wrong type gives %s" % (desc, real["outcome"] if real["outcome"] != "answers"
                                                                                else [tuple(map(str, a)) for a in real["answers"]]),
                {"kind": "export-decision", "decorator": deco, "what": "wrong-type-bound-output"}), real
    if real["outcome"] != "answers":
        return ("%s: %s" % (desc, real["outcome"]),
                {"kind": "export-decision", "decorator": deco, "what": "exception", "exception": real["outcome"].split(":")[0]}), real
    n = len(sig["ins"])
    if real.get("text_mode"):
        # answers of a (tabled) clause are a set: equal result tuples give one answer
        # (only the unbound outputs are visible through the clause head; bound ones agree, partially bound ones are hidden)
        vis = [j for j, st in enumerate(call["states"]) if st[0] == "u"]
        ded = []
        for res in exp:
            if not any(all(same_value(sig["outs"][j], res[j], r2[j]) for j in vis) for r2 in ded):
                ded.append(res)
        exp = ded
    shown = [tuple("_" if a is None else str(a) for a in ans) for ans in real["answers"]]
    if len(real["answers"]) != len(exp):
        if len(real["answers"]) > len(exp):
            what = "succeeds-although-a-bound-output-differs"
        else:
            what = "fails-although-every-bound-output-matches"
        return ("%s: answers %s, expected %d answer(s): the result tuple(s) %r (a call succeeds iff every bound output "
                "equals the converted result)" % (desc, shown, len(exp), exp),
                {"kind": "export-decision", "decorator": deco, "what": what}), real
    for ans, res in zip(real["answers"], exp):
        for j, (t, r) in enumerate(zip(sig["outs"], res)):
            if ans[n + j] is None:
                continue
            if not answer_ok(t, ans[n + j], r):
                return ("%s: answer %s, output %d should be the conversion of %r" % (desc, shown, j + 1, r),
                        {"kind": "export-decision", "decorator": deco, "what": "answer-value", "type": t}), real
        for i, (t, v) in enumerate(zip(sig["ins"], call["ins"])):
            if not answer_ok(t if t != "str" else "strin", ans[i], v):
                return ("%s: answer %s, input %d changed" % (desc, shown, i + 1),
                        {"kind": "export-decision", "decorator": deco, "what": "answer-input", "type": t}), real
    if not input_received_ok(sig, call, real["received"]):
        return ("%s: the Python function was called with %r, expected once with the values %r" % (
            desc, real["received"], call["ins"]),
            {"kind": "export-decision", "decorator": deco, "what": "input-value"}), real
    return None, real


_answer_ok = answer_ok


def answer_ok(ty, term, v):  # noqa: F811  (input strings may be written as atom or as string constant)
    if ty == "strin":
        from problog.logic import Term
        return isinstance(term, Term) and term.arity == 0 and str(term.functor).strip('"') == v
    return _answer_ok(ty, term, v)


def shrink_call(lib, sig, call, sigkey):
    """Unbind outputs / drop result tuples while the same kind of problem remains."""
    def bad(c):
        pr, _ = check_call(lib, sig, c)
        return pr is not None and pr[1] == sigkey
    cur = call
    changed = True
    while changed:
        changed = False
        for j, st in enumerate(cur["states"]):
            if st[0] != "u":
                c2 = dict(cur, states=cur["states"][:j] + [("u",)] + cur["states"][j + 1:])
                if bad(c2):
                    cur, changed = c2, True
                    break
        if not changed and sig["deco"] != "det":
            for k in range(len(cur["results"])):
                c2 = dict(cur, results=cur["results"][:k] + cur["results"][k + 1:])
                if bad(c2):
                    cur, changed = c2, True
                    break
    return cur


def pinned_plan():
    """The witness of C28_export_reversed_bit_refuted (`f(Q, 5)` for the Python result (3, 2)) for the three decorators,
    and the asymmetric patterns of three outputs."""
    sigs = [{"name": "pin_det", "deco": "det", "ins": ["int"], "outs": ["int", "int"]},
            {"name": "pin_nondet", "deco": "nondet", "ins": ["int"], "outs": ["int", "int"]},
            {"name": "pin_raw", "deco": "raw", "ins": [], "outs": ["int", "int"]},
            {"name": "pin_det3", "deco": "det", "ins": ["int"], "outs": ["int", "str", "int"]},
            {"name": "pin_raw3", "deco": "raw", "ins": [], "outs": ["int", "int", "int"]}]
    calls = []
    for s in sigs:
        res = (3, 2) if len(s["outs"]) == 2 else (3, "ab", 2) if "str" in s["outs"] else (7, 3, 2)
        wrong = tuple(v + "z" if type(v) is str else v + 3 for v in res)
        n = len(res)
        for mask in range(1, 3 ** n):
            digits = [(mask // 3 ** j) % 3 for j in range(n)]
            states = [("u",) if d == 0 else ("b", res[j]) if d == 1 else ("b", wrong[j]) for j, d in enumerate(digits)]
            for text in (False, True):
                calls.append((s, {"ins": [23] * len(s["ins"]), "results": [res], "states": states,
                                  "instr": [0.9] * len(s["ins"]), "text": text}))
    return sigs, calls


def run_stream(ctx, rng, nlibs, replay=None):
    """Generate libraries and calls (or rerun one recorded call); oracle failures go to ctx.fail.
    Returns (model lines, implementation lines, descriptions) for the correspondence with the Lean model."""
    lines, impl, what = [], [], []
    reported = set()
    if replay is not None:
        sig, call = dec_call(replay)
        plan = [([sig], [(sig, call)])]
    else:
        plan = [pinned_plan()]
        for li in range(nlibs):
            sigs = [gen_signature(rng, k) for k in range(rng.randrange(4, 8))]
            calls = [(s, gen_call(rng, s)) for s in sigs for _ in range(rng.randrange(4, 9))]
            plan.append((sigs, calls))
    for sigs, calls in plan:
        lib = Lib(sigs)
        try:
            ctx.programs += 1
            for sig, call in calls:
                pattern = "".join(st[0] for st in call["states"])
                ctx.case("sig:%s:%s:%r:%r:%s" % (sig["deco"], ",".join(sig["ins"] + ["->"] + sig["outs"]), call["ins"],
                                                   call["results"], enc_call(sig, call)["states"]), nontrivial=True)
                ctx.count("export signature %s outputs=%d" % (sig["deco"], len(sig["outs"])))
                ctx.count("export binding pattern %s" % ("all-unbound" if set(pattern) == {"u"} else "all-bound" if "u" not in pattern
                                                         else "palindromic" if pattern == pattern[::-1] else "asymmetric"))
                pr, real = check_call(lib, sig, call)
                if real.get("text_mode"):
                    ctx.count("export call through program text")
                exp = expected(sig, call)
                ctx.count("export expected %s" % ("mode-error-or-fail" if exp is None else "%d answer(s)" % min(len(exp), 3)))
                if pr is not None:
                    key = tuple(sorted(pr[1].items()))
                    if key in reported:
                        continue
                    reported.add(key)
                    small = shrink_call(lib, sig, call, pr[1])
                    pr2, _ = check_call(lib, sig, small)
                    pr2 = pr2 or pr
                    ctx.fail(pr2[0], dict(enc_call(sig, small), kind="export-sig"), pr2[1])
                    continue
                mcall = call
                if real.get("text_mode"):
                    # the answers of the (tabled) clause are a set: the model runs on the distinct result tuples
                    ded = []
                    for res in call["results"]:
                        if not any(all(same_value(t, a, b) for t, a, b in zip(sig["outs"], res, r2)) for r2 in ded):
                            ded.append(res)
                    mcall = dict(call, results=ded)
                ml = model_line(sig, mcall)
                if ml is not None:
                    lines.append(ml)
                    impl.append(impl_line(sig, call, real))
                    what.append("%s call %s with results %r" % (sig["deco"], real["query"], call["results"]))
        finally:
            lib.close()
    ctx.sample({"export library": plan[0][0][:3], "source": lib_source(plan[0][0][:2]).split("\n")[3:9]})
    return lines, impl, what
