"""Generic driver for the "same answer under every configuration / permutation / schedule" properties
(C03, C04, C05, C06, C07): every variant run of every generated program is compared with ONE value, the Lean
specification `Sem` of the unmodified program (so variants are never compared pairwise)."""
import copy

import semcheck
import spine
from lib import pmap


def _work(item):
    return [(tag, semcheck.run_cfg(src, cfg)) for tag, src, cfg in item]


def shrink(P, still_fails):
    from props.c01 import shrink_program
    return shrink_program(P, still_fails)


def run(ctx, module, theorems, variants, nq, nt, level, explanation, gen=None, gen_kwargs=None, refutations=(),
        extra_modules=()):
    """variants(P, seed) -> list of (tag, src, cfg); must be deterministic in (P, seed)."""
    ctx.proof_phase(module, theorems, refutations=refutations)
    for m, ths in extra_modules:
        ctx.proof_phase(m, ths)
    drv = ctx.driver("Drivers.Spine")
    if drv is None:
        return ctx.finish(level, explanation)
    rng = ctx.sub_rng("programs")
    gen = gen or spine.gen_program
    progs = []
    if ctx.replay_in:
        import json
        rp = json.load(open(ctx.replay_in))["replay"]
        P = rp["program"]
        P["stmts"] = [tuple(_tup(s)) for s in P["stmts"]]
        P["queries"] = [tuple(_tup(q)) for q in P["queries"]]
        P["evidence"] = [(tuple(_tup(a)), v) for a, v in P["evidence"]]
        P["preds"] = {k: tuple(v) for k, v in P["preds"].items()}
        progs = [P]
        seeds = [rp.get("variant_seed", 0)]
    else:
        n = ctx.budget(nq, nt)
        kw = dict(gen_kwargs or {})
        kw.setdefault("numeric", True)   # these checks handle programs as text only: numeric constants are fine
        progs = [gen(rng, **kw) for _ in range(n)]
        seeds = [rng.randrange(1 << 30) for _ in progs]
    sems = semcheck.spec_batch(drv, progs)
    items = [variants(P, sd) for P, sd in zip(progs, seeds)]
    work = pmap(_work, items, chunksize=2)
    nshrunk = 0
    for P, sd, sem, runs in zip(progs, seeds, sems, work):
        src = spine.to_src(P)
        if sem is None:
            ctx.count("skipped(too many worlds)")
            continue
        if sem["undef"] > 0:
            ctx.count("outside-fragment(non-two-valued)")
            continue
        if P.get("tiny") and 0 < sem["z"] < 1e-9:
            # evidence that is itself below the floating-point tolerances of the implementation: not this property
            ctx.count("skipped(tiny evidence probability)")
            continue
        if P.get("tiny"):
            ctx.count("with-tiny-probabilities")
        ctx.case(src + "#%d" % sd, nontrivial=len(sem["probs"]) > 0 and sem["nworlds"] > 1, n=len(runs))
        ctx.count("worlds<=%d" % (1 << max(0, (sem["nworlds"] - 1)).bit_length()))
        if P["evidence"]:
            ctx.count("with-evidence")
        if len(ctx.samples) < 3:
            ctx.sample({"src": src, "variants": [t for t, _ in runs][:8], "spec": {k: str(v) for k, v in sem["probs"].items()}})
        seen_sigs = []
        for tag, r in runs:
            ctx.count("variant:" + tag.split("#")[0])
            if r[0] == "error":
                ctx.count("outcome:" + r[1][1])
            for what, sig in semcheck.compare(P, sem, r, tag, ctx):
                if any(semcheck.same_failure(sig, s) and sig.get("tag") == s.get("tag") for s in seen_sigs):
                    continue
                seen_sigs.append(sig)

                def still(c, tag=tag, sig=sig, sd=sd):
                    s2 = semcheck.spec_batch(drv, [c])[0]
                    if s2 is None:
                        return False
                    for t2, src2, cfg2 in variants(c, sd):
                        if t2 == tag:
                            r2 = semcheck.run_cfg(src2, cfg2)
                            return any(semcheck.same_failure(s, sig) for _, s in semcheck.compare(c, s2, r2, t2))
                    return False
                small = P
                if nshrunk < 2 and ctx.known_match(sig) is None:
                    try:
                        small = shrink(P, still)
                    except Exception:
                        small = P
                    nshrunk += 1
                ctx.fail(what + " | program: " + spine.to_src(small).replace("\n", " "),
                         {"program": small, "src": spine.to_src(small), "tag": tag, "variant_seed": sd}, sig)
    ctx.extra["specification_first_order"] = {k: (round(v, 1) if isinstance(v, float) else v) for k, v in semcheck.FO_STATS.items()}
    return ctx.finish(level, explanation)


def _tup(x):
    if isinstance(x, list):
        return tuple(_tup(y) for y in x)
    return x


def load_program(P):
    """Restore a program dict that went through JSON (tuples became lists, Fractions became strings)."""
    P = dict(P)
    P["stmts"] = [tuple(_tup(s)) for s in P["stmts"]]
    P["stmts"] = [tuple(list(x) if (i in (2, 3) and isinstance(x, tuple) and st[0] in ("rule", "prule", "ad") and _is_body(x)) else x
                        for i, x in enumerate(st)) for st in P["stmts"]]
    P["queries"] = [tuple(_tup(q)) for q in P["queries"]]
    P["evidence"] = [(tuple(_tup(a)), v) for a, v in P["evidence"]]
    P["preds"] = {k: tuple(v) for k, v in P["preds"].items()}
    return P


def _is_body(x):
    return all(isinstance(l, tuple) and len(l) == 2 and l[0] in ("pos", "neg", "or") for l in x)
