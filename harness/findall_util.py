"""Helpers for C19 (findall/all world-splitting): correspondence of `Findall.selectSublist` (Lean, through
`Drivers.C19`) with the real `problog.engine_builtin._select_sublist`, and a specification oracle that is
independent of the Lean model.

Not a props file; importable without side effects (problog is imported lazily inside the functions).

Text format shared with the driver:
  element list   ((term node) (term node) ...)      node ::= T | F | signed non-zero integer
  pair list      (((t1 t2) (n1 n2 T)) ((t1) (n1 -n2 T)) ...)     in generation order
"""
import itertools

TERMS = ["a", "b", "c", "d", "e1", "x_y", "1", "nil"]  # no parentheses or blanks: tokens of the driver protocol


def _target():
    """A real LogicFormula (TRUE = 0, FALSE = None, negate)."""
    from problog.formula import LogicFormula
    return LogicFormula()


def render_node(n):
    if n is None:
        return "F"
    if n == 0:
        return "T"
    return "%d" % n


def render_elems(lst):
    return "(" + " ".join("(%s %s)" % (t, render_node(n)) for t, n in lst) + ")"


def render_pairs(pairs):
    return "(" + " ".join(
        "((%s) (%s))" % (" ".join(str(t) for t in terms), " ".join(render_node(n) for n in nodes))
        for terms, nodes in pairs) + ")"


def real_select(lst, target=None):
    """The pairs yielded by the real `_select_sublist`, as a list of (tuple terms, tuple nodes)."""
    from problog.engine_builtin import _select_sublist
    if target is None:
        target = _target()
    return [(tuple(t), tuple(n)) for t, n in _select_sublist(list(lst), target)]


def real_all_pairs(lst, allow_none, target=None):
    """The pairs `_builtin_all` goes on to process: `if not l and not allow_none: continue`
    (engine_builtin.py:1463-1465), applied to the real generator's output."""
    return [(t, n) for t, n in real_select(lst, target) if not (not t and not allow_none)]


def gen_list(rng, max_len=7, pool=4):
    """Random (term, node) list: length 0..max_len; nodes TRUE(0) / FALSE(None) / +-id from a small pool (so
    the same id, and complementary ids, occur at several positions); terms small atoms with duplicates."""
    style = rng.random()
    ln = rng.randrange(0, max_len + 1)
    out = []
    for _ in range(ln):
        r = rng.random()
        if style < 0.1:          # all deterministic
            nd = 0 if r < 0.6 else None
        elif style < 0.2:        # all probabilistic, distinct-ish ids
            nd = rng.randrange(1, 40) * (1 if r < 0.8 else -1)
        elif r < 0.15:
            nd = 0
        elif r < 0.27:
            nd = None
        else:
            nd = rng.randrange(1, pool + 1) * (1 if rng.random() < 0.75 else -1)
        out.append((rng.choice(TERMS[:rng.choice([2, 4, len(TERMS)])]), nd))
    return out


def select_correspondence(ctx, drv, rng, n, on_case=None):
    """Run `n` random lists through the real `_select_sublist` (and the `_builtin_all` filter for both values of
    allow_none) and through the Lean driver; compare the canonical texts.

    Returns `(n_cases, first_difference_or_None)`; a difference is a dict
    {"op": line, "list": [[term, node], ...], "model": text, "impl": text}.
    `ctx` (may be None) gets `count`/`case`/`sample` calls; `on_case(lst)` is called for every generated list."""
    target = _target()
    lines, expect, lists = [], [], []
    for _ in range(n):
        lst = gen_list(rng)
        if on_case is not None:
            on_case(lst)
        el = render_elems(lst)
        nd = sum(1 for _, x in lst if x not in (0, None))
        if ctx is not None:
            ctx.count("select len=%d" % len(lst))
            ctx.count("select choice-bits=%d" % nd)
            ctx.case("select " + el, nontrivial=nd >= 1)
            ctx.sample({"select": el})
        lines.append("select " + el)
        expect.append(render_pairs(real_select(lst, target)))
        lists.append(lst)
        which = rng.randrange(3)
        if which < 2:
            lines.append("all %d %s" % (which, el))
            expect.append(render_pairs(real_all_pairs(lst, bool(which), target)))
            lists.append(lst)
    if drv is None:
        return len(lines), {"op": None, "list": None, "model": "driver unavailable", "impl": None}
    got = drv.run(lines)
    for line, lst, g, e in zip(lines, lists, got, expect):
        if g != e:
            return len(lines), {"op": line, "list": [[t, x] for t, x in lst], "model": g, "impl": e}
    return len(lines), None


def conj_correspondence(ctx, drv, rng, n):
    """`Findall.conjIsFalse` (when the callers drop a pair) vs the real compacting `LogicFormula.add_and`:
    `n` random non-empty condition tuples over 6 atoms (half of them conditions really yielded by
    `_select_sublist`). Returns `(n_cases, first_difference_or_None)`."""
    from problog.formula import LogicFormula
    f = LogicFormula()
    for i in range(1, 7):
        f.add_atom(i, 0.5)
    lines, expect, conds = [], [], []
    for _ in range(n):
        if rng.random() < 0.5:
            pairs = real_select(gen_list(rng, pool=6), f)
            cond = pairs[rng.randrange(len(pairs))][1]
        else:
            cond = tuple(rng.choice([0, None, 1, 2, 3, -1, -2, -3, 4, -5, 6]) for _ in range(rng.randrange(1, 6)))
        # fold every id into the 6 existing atoms, keeping the sign
        cond = tuple(x if x in (0, None) else ((abs(x) - 1) % 6 + 1) * (1 if x > 0 else -1) for x in cond)
        lines.append("conj (" + " ".join(render_node(x) for x in cond) + ")")
        expect.append("F" if f.add_and(cond) is None else "ok")
        conds.append(cond)
        if ctx is not None:
            ctx.count("conj " + expect[-1])
    if drv is None:
        return len(lines), {"op": None, "model": "driver unavailable", "impl": None}
    got = drv.run(lines)
    for line, g, e in zip(lines, got, expect):
        if g != e:
            return len(lines), {"op": line, "model": g, "impl": e}
    return len(lines), None


def _eval(node, val):
    if node is None:
        return False
    if node == 0:
        return True
    return val[node] if node > 0 else not val[-node]


def select_spec_check(lst, pairs=None, max_ids=7):
    """Specification oracle on the REAL `_select_sublist` output (independent of the Lean model).

    For every valuation of the distinct node ids of `lst` (brute force; lists with more than `max_ids` distinct
    ids are rejected with ValueError): exactly one yielded pair has all its condition nodes true, and the terms
    of that pair are the sublist of the elements whose node is true, in list order.
    Also checks the number of pairs (2 ** number of non-deterministic elements).
    `pairs` may be given to check some other producer's output against the same specification.
    Returns a problem description (str) or None."""
    if pairs is None:
        pairs = real_select(lst)
    ids = sorted({abs(x) for _, x in lst if x not in (0, None)})
    if len(ids) > max_ids:
        raise ValueError("too many distinct node ids for brute force: %d" % len(ids))
    nd = sum(1 for _, x in lst if x not in (0, None))
    if len(pairs) != 2 ** nd:
        return "%d pairs generated for %d non-deterministic elements (expected %d)" % (len(pairs), nd, 2 ** nd)
    for bits in itertools.product([False, True], repeat=len(ids)):
        val = dict(zip(ids, bits))
        holds = [k for k, (_, nodes) in enumerate(pairs) if all(_eval(x, val) for x in nodes)]
        want = tuple(t for t, x in lst if _eval(x, val))
        if len(holds) != 1:
            return "valuation %s: %d pairs have a true condition (indices %s), expected exactly 1" % (
                val, len(holds), holds[:5])
        got = tuple(pairs[holds[0]][0])
        if got != want:
            return "valuation %s: the pair with a true condition lists %s, the true elements are %s" % (
                val, list(got), list(want))
    return None


def all_spec_check(lst, allow_none, pairs=None, max_ids=7):
    """Specification of the pairs `_builtin_all` processes: in every world at most one pair holds; one holds iff
    the true-element sublist is non-empty (or allow_none), and it lists exactly the true elements."""
    if pairs is None:
        pairs = real_all_pairs(lst, allow_none)
    ids = sorted({abs(x) for _, x in lst if x not in (0, None)})
    if len(ids) > max_ids:
        raise ValueError("too many distinct node ids for brute force: %d" % len(ids))
    for bits in itertools.product([False, True], repeat=len(ids)):
        val = dict(zip(ids, bits))
        holds = [k for k, (_, nodes) in enumerate(pairs) if all(_eval(x, val) for x in nodes)]
        want = tuple(t for t, x in lst if _eval(x, val))
        expect = 1 if (want or allow_none) else 0
        if len(holds) != expect:
            return "valuation %s: %d pairs hold, expected %d (true elements %s, allow_none=%s)" % (
                val, len(holds), expect, list(want), allow_none)
        if holds and tuple(pairs[holds[0]][0]) != want:
            return "valuation %s: holding pair lists %s, true elements %s" % (
                val, list(pairs[holds[0]][0]), list(want))
    return None
