"""Helpers for C13 / C19: term representation, program generators, renderers (ProbLog text, driver S-expressions),
an independent Python SLD interpreter (cross-check of the Lean one) and an independent bottom-up evaluator.

Terms:   ('v', i) variable | 'name' atom or number text | ('f', name, (t1, ..., tn)) compound
         list cell = ('f', '.', (H, T)), empty list = '[]'
Goals:   ('true',) ('fail',) ('call', t) ('=', a, b) ('and', g, g) ('or', g, g) ('not', g) ('findall', T, G, R)
Clause:  (nvars, head, body)            program = list of clauses
"""
import itertools
import sys

sys.setrecursionlimit(max(sys.getrecursionlimit(), 20000))

TRUE = ('true',)


# --------------------------------------------------------------------------------------------- construction
def V(i):
    return ('v', i)


def F(name, *args):
    return ('f', name, tuple(args)) if args else name


def mklist(xs, tail='[]'):
    r = tail
    for x in reversed(xs):
        r = ('f', '.', (x, r))
    return r


def is_var(t):
    return isinstance(t, tuple) and t[0] == 'v'


def is_cmp(t):
    return isinstance(t, tuple) and t[0] == 'f'


def term_vars(t, acc=None):
    acc = [] if acc is None else acc
    if is_var(t):
        if t[1] not in acc:
            acc.append(t[1])
    elif is_cmp(t):
        for a in t[2]:
            term_vars(a, acc)
    return acc


def goal_vars(g, acc=None):
    acc = [] if acc is None else acc
    k = g[0]
    if k == 'call':
        term_vars(g[1], acc)
    elif k == '=':
        term_vars(g[1], acc); term_vars(g[2], acc)
    elif k in ('and', 'or'):
        goal_vars(g[1], acc); goal_vars(g[2], acc)
    elif k == 'not':
        goal_vars(g[1], acc)
    elif k == 'findall':
        term_vars(g[1], acc); goal_vars(g[2], acc); term_vars(g[3], acc)
    return acc


def conj(gs):
    gs = list(gs)
    if not gs:
        return TRUE
    r = gs[-1]
    for g in reversed(gs[:-1]):
        r = ('and', g, r)
    return r


def is_ground(t):
    return not term_vars(t)


def sig(t):
    return (t, 0) if isinstance(t, str) else (t[1], len(t[2]))


# --------------------------------------------------------------------------------------------- rendering
def needs_quote(name):
    import re
    return not (re.fullmatch(r"[a-z][A-Za-z0-9_]*", name) or re.fullmatch(r"-?[0-9]+", name) or name == '[]')


def pl_term(t):
    """ProbLog/Prolog text."""
    if is_var(t):
        return "V%d" % t[1]
    if isinstance(t, str):
        return t
    name, args = t[1], t[2]
    if name == '.' and len(args) == 2:
        items = []
        while is_cmp(t) and t[1] == '.' and len(t[2]) == 2:
            items.append(pl_term(t[2][0]))
            t = t[2][1]
        if t == '[]':
            return "[" + ",".join(items) + "]"
        return "[" + ",".join(items) + "|" + pl_term(t) + "]"
    return "%s(%s)" % (name, ",".join(pl_term(a) for a in args))


def pl_goal(g):
    k = g[0]
    if k == 'true':
        return "true"
    if k == 'fail':
        return "fail"
    if k == 'call':
        return pl_term(g[1])
    if k == '=':
        return "%s = %s" % (pl_term(g[1]), pl_term(g[2]))
    if k == 'and':
        return "%s, %s" % (pl_goal_p(g[1]), pl_goal_p(g[2], right=True))
    if k == 'or':
        return "(%s ; %s)" % (pl_goal(g[1]), pl_goal(g[2]))
    if k == 'not':
        return "\\+ %s" % pl_goal_p(g[1], neg=True)
    if k == 'findall':
        return "findall(%s, %s, %s)" % (pl_term(g[1]), pl_goal_p(g[2], arg=True), pl_term(g[3]))
    raise ValueError(g)


def pl_goal_p(g, right=False, neg=False, arg=False):
    s = pl_goal(g)
    if g[0] == 'and' and (neg or arg or not right):
        return "(" + s + ")"
    if g[0] == '=' and neg:
        return "(" + s + ")"
    return s


def pl_clause(c):
    n, h, b = c
    if b == TRUE:
        return pl_term(h) + "."
    return "%s :- %s." % (pl_term(h), pl_goal(b))


def pl_program(prog):
    return "\n".join(pl_clause(c) for c in prog)


def sx_term(t):
    if is_var(t):
        return "(v %d)" % t[1]
    if isinstance(t, str):
        return t
    return "(f %s %s)" % (t[1], " ".join(sx_term(a) for a in t[2]))


def sx_goal(g):
    k = g[0]
    if k in ('true', 'fail'):
        return k
    if k == 'call':
        return "(call %s)" % sx_term(g[1])
    if k == '=':
        return "(= %s %s)" % (sx_term(g[1]), sx_term(g[2]))
    if k in ('and', 'or'):
        return "(%s %s %s)" % (k, sx_goal(g[1]), sx_goal(g[2]))
    if k == 'not':
        return "(not %s)" % sx_goal(g[1])
    if k == 'findall':
        return "(findall %s %s %s)" % (sx_term(g[1]), sx_goal(g[2]), sx_term(g[3]))
    raise ValueError(g)


def sx_program(prog):
    return "(" + " ".join("(clause %d %s %s)" % (n, sx_term(h), sx_goal(b)) for n, h, b in prog) + ")"


def parse_sx(s):
    """Parse the driver's S-expression output into nested lists / strings (iterative: lists nest deeply)."""
    toks = s.replace("(", " ( ").replace(")", " ) ").split()
    stack = [[]]
    for t in toks:
        if t == "(":
            stack.append([])
        elif t == ")":
            x = stack.pop()
            stack[-1].append(x)
        else:
            stack[-1].append(t)
    return stack[0][0]


def sx_to_term(x):
    if isinstance(x, str):
        return x
    if x[0] == 'v':
        return ('v', int(x[1]))
    if x[0] == 'f':
        return ('f', x[1], tuple(sx_to_term(a) for a in x[2:]))
    raise ValueError(x)


def canon_vars(t):
    """Rename variables by first occurrence."""
    m = {}

    def go(t):
        if is_var(t):
            if t[1] not in m:
                m[t[1]] = len(m)
            return ('v', m[t[1]])
        if is_cmp(t):
            return ('f', t[1], tuple(go(a) for a in t[2]))
        return t
    return go(t)


def from_problog(t):
    """problog.logic term -> our term (variables: ints / Var / None become ('v', k) by identity)."""
    from problog.logic import Term, Var, Constant
    m = {}

    def go(t):
        if t is None or isinstance(t, int) or isinstance(t, Var):
            key = ('none', id(t)) if t is None else (t if isinstance(t, int) else t.name)
            if key not in m:
                m[key] = len(m)
            return ('v', m[key])
        if isinstance(t, Constant):
            return str(t.functor).strip("'") if isinstance(t.functor, str) else str(t.functor)
        if t.arity == 0:
            return str(t.functor)
        return ('f', str(t.functor), tuple(go(a) for a in t.args))
    return go(t)


def to_problog(t):
    from problog.logic import Term, Constant
    import re
    if is_var(t):
        return None
    if isinstance(t, str):
        if re.fullmatch(r"-?[0-9]+", t):
            return Constant(int(t))
        return Term(t)
    return Term(t[1], *[to_problog(a) for a in t[2]])


def sort_lists(t):
    """Canonicalise every list inside a term by sorting its elements (order-insensitive comparison)."""
    if is_cmp(t):
        if t[1] == '.' and len(t[2]) == 2:
            items = []
            while is_cmp(t) and t[1] == '.' and len(t[2]) == 2:
                items.append(sort_lists(t[2][0]))
                t = t[2][1]
            return mklist(sorted(items, key=repr), sort_lists(t))
        return ('f', t[1], tuple(sort_lists(a) for a in t[2]))
    return t


def list_items(t):
    items = []
    while is_cmp(t) and t[1] == '.' and len(t[2]) == 2:
        items.append(t[2][0])
        t = t[2][1]
    return items if t == '[]' else None


# --------------------------------------------------------------------------------------------- Python SLD
class OutOfFuel(Exception):
    pass


class Flounder(Exception):
    pass


def walk(t, s):
    while is_var(t) and t[1] in s:
        t = s[t[1]]
    return t


def resolve(t, s):
    t = walk(t, s)
    if is_cmp(t):
        return ('f', t[1], tuple(resolve(a, s) for a in t[2]))
    return t


def occurs(x, t, s):
    t = walk(t, s)
    if is_var(t):
        return t[1] == x
    if is_cmp(t):
        return any(occurs(x, a, s) for a in t[2])
    return False


def unify(a, b, s):
    """Triangular-substitution unifier with occurs check; returns the extended dict or None."""
    a, b = walk(a, s), walk(b, s)
    if is_var(a):
        if is_var(b) and a[1] == b[1]:
            return s
        if occurs(a[1], b, s):
            return None
        s2 = dict(s)
        s2[a[1]] = b
        return s2
    if is_var(b):
        if occurs(b[1], a, s):
            return None
        s2 = dict(s)
        s2[b[1]] = a
        return s2
    if isinstance(a, str) or isinstance(b, str):
        return s if a == b else None
    if a[1] != b[1] or len(a[2]) != len(b[2]):
        return None
    for x, y in zip(a[2], b[2]):
        s = unify(x, y, s)
        if s is None:
            return None
    return s


def rename_term(t, k):
    if is_var(t):
        return ('v', t[1] + k)
    if is_cmp(t):
        return ('f', t[1], tuple(rename_term(a, k) for a in t[2]))
    return t


def rename_goal(g, k):
    kind = g[0]
    if kind in ('true', 'fail'):
        return g
    if kind == 'call':
        return ('call', rename_term(g[1], k))
    if kind == '=':
        return ('=', rename_term(g[1], k), rename_term(g[2], k))
    if kind in ('and', 'or'):
        return (kind, rename_goal(g[1], k), rename_goal(g[2], k))
    if kind == 'not':
        return ('not', rename_goal(g[1], k))
    return ('findall', rename_term(g[1], k), rename_goal(g[2], k), rename_term(g[3], k))


def resolve_goal(g, s):
    kind = g[0]
    if kind in ('true', 'fail'):
        return g
    if kind == 'call':
        return ('call', resolve(g[1], s))
    if kind == '=':
        return ('=', resolve(g[1], s), resolve(g[2], s))
    if kind in ('and', 'or'):
        return (kind, resolve_goal(g[1], s), resolve_goal(g[2], s))
    if kind == 'not':
        return ('not', resolve_goal(g[1], s))
    return ('findall', resolve(g[1], s), resolve_goal(g[2], s), resolve(g[3], s))


class PySLD:
    """Depth-first, leftmost, clauses in program order; NAF on ground goals; findall in solution order."""

    def __init__(self, prog, budget=60000, max_list=40):
        self.prog = prog
        self.budget = budget
        self.max_list = max_list
        self.by_sig = {}
        for c in prog:
            self.by_sig.setdefault(sig(c[1]), []).append(c)

    def tick(self):
        self.budget -= 1
        if self.budget < 0:
            raise OutOfFuel()

    def solve(self, g, s, nxt):
        """Yields (subst, next_var)."""
        self.tick()
        kind = g[0]
        if kind == 'true':
            yield s, nxt
        elif kind == 'fail':
            return
        elif kind == '=':
            s2 = unify(g[1], g[2], s)
            if s2 is not None:
                yield s2, nxt
        elif kind == 'and':
            for s1, n1 in self.solve(g[1], s, nxt):
                for s2, n2 in self.solve(g[2], s1, n1):
                    yield s2, n2
        elif kind == 'or':
            for r in self.solve(g[1], s, nxt):
                yield r
            for r in self.solve(g[2], s, nxt):
                yield r
        elif kind == 'not':
            gg = resolve_goal(g[1], s)
            if goal_vars(gg):
                raise Flounder()
            for _ in self.solve(gg, {}, nxt):
                return
            yield s, nxt
        elif kind == 'call':
            t = walk(g[1], s)
            for (n, h, b) in self.by_sig.get(sig(t), ()):
                self.tick()
                s2 = unify(t, rename_term(h, nxt), s)
                if s2 is not None:
                    for r in self.solve(rename_goal(b, nxt), s2, nxt + n):
                        yield r
        elif kind == 'findall':
            res = []
            mx = nxt
            for s1, n1 in self.solve(g[2], s, nxt):
                res.append(resolve(g[1], s1))
                mx = max(mx, n1)
                if len(res) > self.max_list:
                    raise OutOfFuel()
            s2 = unify(g[3], mklist(res), s)
            if s2 is not None:
                yield s2, mx
        else:
            raise ValueError(g)

    def answers(self, goal, out):
        nv = max([v + 1 for v in goal_vars(goal) + term_vars(out)] + [0])
        return [canon_vars(resolve(out, s)) for s, _ in self.solve(goal, {}, nv)]


# --------------------------------------------------------------------------------------------- bottom-up (Datalog with terms)
def match(pat, t, s):
    """One-way matching of pattern against a ground term."""
    if is_var(pat):
        if pat[1] in s:
            return s if s[pat[1]] == t else None
        s2 = dict(s)
        s2[pat[1]] = t
        return s2
    if isinstance(pat, str) or isinstance(t, str):
        return s if pat == t else None
    if pat[1] != t[1] or len(pat[2]) != len(t[2]):
        return None
    for a, b in zip(pat[2], t[2]):
        s = match(a, b, s)
        if s is None:
            return None
    return s


def inst(t, s):
    if is_var(t):
        return s[t[1]]
    if is_cmp(t):
        return ('f', t[1], tuple(inst(a, s) for a in t[2]))
    return t


def flat_body(g):
    if g[0] == 'and':
        return flat_body(g[1]) + flat_body(g[2])
    if g[0] == 'true':
        return []
    if g[0] == 'call':
        return [g[1]]
    raise ValueError("bottom-up evaluator: positive conjunctive bodies only")


def bottom_up(prog, max_rounds=200):
    """Least Herbrand model of a range-restricted positive program (naive iteration); returns a set of atoms."""
    facts = {}
    allf = set()
    rules = [(h, flat_body(b)) for n, h, b in prog]
    for _ in range(max_rounds):
        new = []
        for h, body in rules:
            substs = [{}]
            for lit in body:
                nxt = []
                for s in substs:
                    for f in facts.get(sig(lit), ()):
                        s2 = match(lit, f, s)
                        if s2 is not None:
                            nxt.append(s2)
                substs = nxt
                if not substs:
                    break
            for s in substs:
                a = inst(h, s)
                if a not in allf:
                    new.append(a)
        if not new:
            return allf
        for a in new:
            if a not in allf:
                allf.add(a)
                facts.setdefault(sig(a), []).append(a)
    raise OutOfFuel()


# --------------------------------------------------------------------------------------------- generators
CONSTS = ['a', 'b', 'c', '1', '2']


def gen_ground_arg(rng, consts):
    r = rng.random()
    if r < 0.8:
        return rng.choice(consts)
    if r < 0.93:
        return F('f', rng.choice(consts))
    return F('g', rng.choice(consts), rng.choice(consts))


class Gen:
    """Non-recursive deterministic programs with findall, negation, disjunction, unification, indexed predicates
    whose clauses have non-ground arguments, predicates mixing facts and rules."""

    def __init__(self, rng, prob_hook=None, plain=False):
        self.rng = rng
        self.plain = plain  # plain: rule heads have distinct variables only, no facts among rules, no `ix` predicate
        self.consts = CONSTS[:rng.choice([2, 3, 3, 4, 5])]
        self.prog = []
        self.preds = {}  # name -> dict(arity, level, kind)
        self.prob_hook = prob_hook

    # -- EDB
    def edb(self, name, arity):
        rng = self.rng
        n = rng.randint(1, 4)
        rows = []
        for _ in range(n):
            rows.append(tuple(gen_ground_arg(rng, self.consts) for _ in range(arity)))
        if rng.random() < 0.15 and rows:
            rows.append(rng.choice(rows))  # duplicate fact
        for r in rows:
            self.prog.append((0, F(name, *r), TRUE))
        self.preds[name] = dict(arity=arity, level=0, kind='edb')

    def indexed(self, name):
        """ix(In, Out): first argument ground or variable per clause; always called with a ground first argument."""
        rng = self.rng
        n = rng.randint(2, 5)
        for i in range(n):
            a0 = V(0) if rng.random() < 0.4 else gen_ground_arg(rng, self.consts)
            out = rng.choice(self.consts + ['3', '4'])
            nv = 1 if is_var(a0) else 0
            if rng.random() < 0.25:
                self.prog.append((nv, F(name, a0, out), ('and', TRUE, TRUE)))  # a rule `:- true, true` among the facts
            else:
                self.prog.append((nv, F(name, a0, out), TRUE))
        self.preds[name] = dict(arity=2, level=0, kind='ix')

    # -- bodies
    def literal(self, level, bound, nv, allow_new=True):
        """A positive literal over a predicate of level < `level`; returns (goal, newly bound vars, nv)."""
        rng = self.rng
        cands = [p for p, d in self.preds.items() if d['level'] < level]
        p = rng.choice(cands)
        d = self.preds[p]
        args = []
        newb = set()
        for i in range(d['arity']):
            if d['kind'] == 'ix' and i == 0:
                if bound and rng.random() < 0.6:
                    args.append(V(rng.choice(sorted(bound))))
                else:
                    args.append(rng.choice(self.consts))
                continue
            r = rng.random()
            if r < 0.35 and bound:
                args.append(V(rng.choice(sorted(bound))))
            elif r < 0.8 and allow_new:
                if rng.random() < 0.3 and nv[0] > 0:
                    v = rng.randrange(nv[0])
                else:
                    v = nv[0]
                    nv[0] += 1
                args.append(V(v))
                newb.add(v)
            else:
                args.append(rng.choice(self.consts))
        return ('call', F(p, *args)), newb

    def body(self, level, nv, depth=0, want=()):
        """A conjunction; returns (goal, bound vars). Variables in `want` are bound at the end."""
        rng = self.rng
        items = []
        bound = set()
        n = rng.randint(1, 3)
        for j in range(n):
            r = rng.random()
            if r < 0.12 and bound and j > 0:
                # negation on a ground literal
                g, nb = self.literal(level, bound, nv, allow_new=False)
                if not [v for v in term_vars(g[1]) if v not in bound]:
                    items.append(('not', g))
                    continue
            if r < (0.17 if self.plain else 0.22) and depth < 1:
                g1, b1 = self.body(level, nv, depth + 1)
                g2, b2 = self.body(level, nv, depth + 1)
                items.append(('or', g1, g2))
                bound |= (b1 & b2)
                continue
            if (0.22 <= r < 0.32 if not self.plain else 0.17 <= r < 0.20) and depth < 2 and level >= 1:
                # findall(T, G, L)
                sub_nv = nv
                g, b = self.body(level, sub_nv, depth + 1)
                tv = sorted(b)
                if tv:
                    t = V(rng.choice(tv)) if rng.random() < 0.8 else F('t', V(tv[0]), V(tv[-1]))
                    lv = nv[0]
                    nv[0] += 1
                    items.append(('findall', t, g, V(lv)))
                    bound.add(lv)
                    # the goal's other variables stay unbound after findall: do not mark them bound
                    continue
            if r < 0.40 and bound:
                v = nv[0]
                nv[0] += 1
                src = V(rng.choice(sorted(bound)))
                items.append(('=', V(v), src if rng.random() < 0.5 else F('f', src)))
                bound.add(v)
                continue
            g, nb = self.literal(level, bound, nv)
            items.append(g)
            bound |= nb
        for v in want:
            if v not in bound:
                # bind through an EDB literal
                cands = [p for p, d in self.preds.items() if d['kind'] == 'edb' and d['arity'] >= 1]
                p = rng.choice(cands)
                d = self.preds[p]
                args = [V(v)] + [rng.choice(self.consts) if rng.random() < 0.3 else V(self._fresh(nv)) for _ in range(d['arity'] - 1)]
                items.append(('call', F(p, *args)))
                bound.add(v)
                bound |= set(term_vars(F(p, *args)))
        if len(items) >= 3 and rng.random() < 0.2:
            # left-nested conjunction ((A, B), C...)
            return conj([('and', items[0], items[1])] + items[2:]), bound
        return conj(items), bound

    def _fresh(self, nv):
        nv[0] += 1
        return nv[0] - 1

    def idb(self, name, arity, level):
        rng = self.rng
        self.preds[name] = dict(arity=arity, level=level, kind='idb')
        nrules = rng.randint(1, 3)
        clauses = []
        for _ in range(nrules):
            if rng.random() < 0.25 and not self.plain:
                # a fact among the rules
                clauses.append((0, F(name, *[rng.choice(self.consts) for _ in range(arity)]), TRUE))
                continue
            nv = [0]
            hargs = []
            for i in range(arity):
                if rng.random() < 0.85 or self.plain:
                    if nv[0] > 0 and rng.random() < 0.15 and not self.plain:
                        hargs.append(V(rng.randrange(nv[0])))
                    else:
                        hargs.append(V(nv[0]))
                        nv[0] += 1
                else:
                    hargs.append(rng.choice(self.consts))
            hv = term_vars(F(name, *hargs)) if arity else []
            b, bound = self.body(level, nv, want=hv)
            clauses.append((nv[0], F(name, *hargs), b))
        self.prog.extend(clauses)

    def program(self):
        rng = self.rng
        for i in range(rng.randint(1, 3)):
            self.edb('e%d' % i, rng.choice([1, 1, 2, 2]))
        if 'e0' in self.preds and self.preds['e0']['arity'] == 0:
            pass
        if rng.random() < 0.5 and not self.plain:
            self.indexed('ix')
        for i in range(rng.randint(1, 4)):
            self.idb('p%d' % i, rng.choice([1, 1, 2]), rng.randint(1, 3))
        return self.prog

    def findall_query(self):
        """A clause q(L) :- findall(T, G, L) over the program and the query q(L)."""
        rng = self.rng
        nv = [0]
        for _ in range(20):
            nv = [0]
            g, b = self.body(4, nv, depth=1)
            if b:
                break
        tv = sorted(b)
        if not tv:
            return None
        t = V(tv[0]) if (len(tv) == 1 or rng.random() < 0.6) else F('t', V(tv[0]), V(tv[1]))
        lv = nv[0]
        nv[0] += 1
        return (nv[0], F('q', V(lv)), ('findall', t, g, V(lv)))


def fix_nvars(prog):
    """Recompute the variable count of every clause (1 + largest variable index)."""
    out = []
    for n, h, b in prog:
        vs = term_vars(h) + goal_vars(b)
        out.append((max(vs) + 1 if vs else 0, h, b))
    return out


def gen_findall_program(rng):
    """(program, query term) of the findall family."""
    for _ in range(50):
        g = Gen(rng)
        prog = g.program()
        qc = g.findall_query()
        if qc is None:
            continue
        return fix_nvars(prog + [qc]), F('q', V(0))
    raise RuntimeError("generator failed")


def peano(n):
    t = 'z'
    for _ in range(n):
        t = F('s', t)
    return t


LIST_LIB = {
    'app': [(1, F('app', '[]', V(0), V(0)), TRUE),
            (4, F('app', mklist([V(0)], V(1)), V(2), mklist([V(0)], V(3))), ('call', F('app', V(1), V(2), V(3))))],
    'mem': [(2, F('mem', V(0), mklist([V(0)], V(1))), TRUE),
            (3, F('mem', V(0), mklist([V(1)], V(2))), ('call', F('mem', V(0), V(2))))],
    'len': [(0, F('len', '[]', 'z'), TRUE),
            (3, F('len', mklist([V(0)], V(1)), F('s', V(2))), ('call', F('len', V(1), V(2))))],
    'rev': [(1, F('rev', V(0), V(1)), ('call', F('rv', V(0), '[]', V(1)))),
            (1, F('rv', '[]', V(0), V(0)), TRUE),
            (4, F('rv', mklist([V(0)], V(1)), V(2), V(3)), ('call', F('rv', V(1), mklist([V(0)], V(2)), V(3))))],
    'pls': [(1, F('pls', 'z', V(0), V(0)), TRUE),
             (3, F('pls', F('s', V(0)), V(1), F('s', V(2))), ('call', F('pls', V(0), V(1), V(2))))],
    'sel': [(2, F('sel', V(0), mklist([V(0)], V(1)), V(1)), TRUE),
            (4, F('sel', V(0), mklist([V(1)], V(2)), mklist([V(1)], V(3))), ('call', F('sel', V(0), V(2), V(3))))],
}


def gen_struct_program(rng):
    """Structural recursion (lists, peano numbers, acyclic graphs): (program, query goal term, wrap_findall)."""
    consts = CONSTS[:rng.choice([2, 3, 4])]
    prog = []
    for k in ('app', 'mem', 'len', 'rev', 'pls', 'sel'):
        prog += LIST_LIB[k]
    # acyclic graph
    nodes = ['n%d' % i for i in range(rng.randint(2, 5))]
    for i in range(len(nodes)):
        for j in range(i + 1, len(nodes)):
            if rng.random() < 0.5:
                prog.append((0, F('edge', nodes[i], nodes[j]), TRUE))
    if not any(sig(c[1]) == ('edge', 2) for c in prog):
        prog.append((0, F('edge', nodes[0], nodes[-1]), TRUE))
    if rng.random() < 0.5:
        prog.append((2, F('path', V(0), V(1)), ('call', F('edge', V(0), V(1)))))
        prog.append((3, F('path', V(0), V(1)), ('and', ('call', F('edge', V(0), V(2))), ('call', F('path', V(2), V(1))))))
    else:
        prog.append((3, F('path', V(0), V(1)), ('and', ('call', F('edge', V(0), V(2))), ('call', F('path', V(2), V(1))))))
        prog.append((2, F('path', V(0), V(1)), ('call', F('edge', V(0), V(1)))))

    def rl(n=None):
        n = rng.randint(0, 3) if n is None else n
        return mklist([rng.choice(consts) for _ in range(n)])
    r = rng.random()
    if r < 0.15:
        q = F('app', V(0), V(1), rl())
    elif r < 0.25:
        q = F('app', rl(), rl(), V(0))
    elif r < 0.4:
        q = F('mem', V(0), rl(rng.randint(1, 4)))
    elif r < 0.5:
        q = F('len', rl(), V(0))
    elif r < 0.6:
        q = F('rev', rl(), V(0))
    elif r < 0.7:
        q = F('pls', V(0), V(1), peano(rng.randint(0, 3)))
    elif r < 0.8:
        q = F('sel', V(0), rl(rng.randint(1, 3)), V(1))
    elif r < 0.9:
        q = F('path', rng.choice(nodes), V(0))
    else:
        q = F('path', V(0), V(1))
    return fix_nvars(prog), q


def gen_tabled_program(rng):
    """Positive Datalog-like programs with arbitrary (also cyclic, mutual) recursion; range-restricted.
    Returns (program, list of query terms)."""
    consts = CONSTS[:rng.choice([2, 3, 3, 4])]
    prog = []
    preds = {}
    for i in range(rng.randint(1, 3)):
        ar = rng.choice([1, 2, 2])
        name = 'e%d' % i
        preds[name] = ar
        rows = set()
        for _ in range(rng.randint(1, 5)):
            rows.add(tuple(gen_ground_arg(rng, consts) if rng.random() < 0.2 else rng.choice(consts) for _ in range(ar)))
        for r_ in sorted(rows, key=repr):
            prog.append((0, F(name, *r_), TRUE))
    edb = list(preds)
    idb = []
    for i in range(rng.randint(1, 3)):
        name = 'r%d' % i
        preds[name] = rng.choice([1, 2, 2])
        idb.append(name)
    for name in idb:
        ar = preds[name]
        for _ in range(rng.randint(1, 3)):
            nv = [0]
            body = []
            bound = []
            for j in range(rng.randint(1, 3)):
                p = rng.choice(edb + idb) if j > 0 or rng.random() < 0.7 else rng.choice(edb)
                args = []
                for _k in range(preds[p]):
                    x = rng.random()
                    if x < 0.45 and bound:
                        args.append(V(rng.choice(bound)))
                    elif x < 0.9:
                        args.append(V(nv[0]))
                        bound.append(nv[0])
                        nv[0] += 1
                    else:
                        args.append(rng.choice(consts))
                body.append(('call', F(p, *args)))
            hargs = []
            for _k in range(ar):
                if bound and rng.random() < 0.9:
                    hargs.append(V(rng.choice(bound)))
                else:
                    hargs.append(rng.choice(consts))
            prog.append((nv[0], F(name, *hargs), conj(body)))
    rng.shuffle(prog)
    # keep clause groups of one predicate apart or together: irrelevant for answer sets
    queries = [F(name, *[V(k) for k in range(preds[name])]) for name in idb]
    return fix_nvars(prog), queries


def gen_index_case(rng):
    """One predicate's clause heads (keys per argument: text or None) and a few call patterns."""
    arity = rng.randint(1, 3)
    consts = CONSTS[:rng.choice([2, 3, 4])]
    if rng.random() < 0.35:
        consts = consts[:2] + ['2.5', '"s"', '1']     # float and string constants: other key types of the index
    n = rng.randint(0, 7)
    heads = []
    for _ in range(n):
        args = []
        for i in range(arity):
            r = rng.random()
            if r < 0.35:
                args.append(V(i))
            elif r < 0.45:
                args.append(F('f', V(i)))  # non-ground compound: key None
            else:
                args.append(gen_ground_arg(rng, consts))
        heads.append(tuple(args))
    calls = []
    for _ in range(rng.randint(1, 4)):
        args = []
        for i in range(arity):
            r = rng.random()
            if r < 0.3:
                args.append(V(i))
            elif r < 0.36:
                args.append(F('f', V(i)))
            else:
                args.append(gen_ground_arg(rng, consts + ['zz']))
        calls.append(tuple(args))
    return arity, heads, calls


def shrink_list(items, pred):
    """Greedy delta debugging on a list."""
    cur = list(items)
    changed = True
    while changed:
        changed = False
        i = len(cur) - 1
        while i >= 0:
            cand = cur[:i] + cur[i + 1:]
            try:
                ok = pred(cand)
            except Exception:
                ok = False
            if ok:
                cur = cand
                changed = True
            i -= 1
    return cur


# --------------------------------------------------------------------------------------------- program shrinking
def goal_variants(g):
    """Smaller goals obtained by one simplification step."""
    k = g[0]
    if k in ('and', 'or'):
        yield g[1]
        yield g[2]
        for a in goal_variants(g[1]):
            yield (k, a, g[2])
        for b in goal_variants(g[2]):
            yield (k, g[1], b)
    elif k == 'not':
        for a in goal_variants(g[1]):
            yield ('not', a)
    elif k == 'findall':
        for a in goal_variants(g[2]):
            yield ('findall', g[1], a, g[3])
    elif k in ('call', '='):
        yield TRUE


def shrink_program(prog, pred, keep_last=True, max_steps=400, deadline=None):
    """Greedy shrinking of a program (drop clauses, simplify bodies) while `pred(prog)` holds."""
    import time
    cur = list(prog)
    steps = 0

    def ok(c):
        if deadline is not None and time.time() > deadline:
            return False
        try:
            return bool(pred(fix_nvars(c)))
        except Exception:
            return False
    changed = True
    while changed and steps < max_steps:
        changed = False
        i = len(cur) - (2 if keep_last else 1)
        while i >= 0:
            cand = cur[:i] + cur[i + 1:]
            steps += 1
            if ok(cand):
                cur = cand
                changed = True
            i -= 1
        for i in range(len(cur)):
            again = True
            while again and steps < max_steps:
                again = False
                n, h, b = cur[i]
                for b2 in goal_variants(b):
                    steps += 1
                    cand = cur[:i] + [(n, h, b2)] + cur[i + 1:]
                    if ok(cand):
                        cur = cand
                        changed = True
                        again = True
                        break
    return fix_nvars(cur)


# --------------------------------------------------------------------------------------------- probabilistic programs (C19)
def gen_prob_findall_program(rng, max_choices=6):
    """A program with probabilistic facts / annotated disjunctions and a clause q(L) :- findall|all(T, G, L).

    Returns (statements, query term, builtin) where a statement is
      ('det', clause) | ('pf', prob, clause) | ('ad', [(prob, fact clause), ...])
    in program order (probabilities are strings of decimals, sum of an AD <= 1)."""
    for _ in range(100):
        g = Gen(rng, plain=True)
        prog = fix_nvars(g.program())
        qc = g.findall_query()
        if qc is None:
            continue
        builtin = 'findall' if rng.random() < 0.6 else 'all'
        stmts = []
        nchoice = 0
        i = 0
        facts_idx = [k for k, c in enumerate(prog) if c[2] == TRUE and not term_vars(c[1])]
        while i < len(prog):
            c = prog[i]
            isfact = c[2] == TRUE and not term_vars(c[1])
            r = rng.random()
            if isfact and nchoice < max_choices and r < 0.55:
                # an AD over this and the next fact(s)?
                j = i + 1
                if r < 0.15:
                    while j < len(prog) and j < i + 3 and prog[j][2] == TRUE and not term_vars(prog[j][1]):
                        j += 1
                if j - i >= 2:
                    ps = rng.choice([['0.3', '0.4'], ['0.5', '0.5'], ['0.2', '0.3', '0.4'], ['0.1', '0.2', '0.3']])[:j - i]
                    if len(ps) < j - i:
                        j = i + len(ps)
                    stmts.append(('ad', [(ps[k], prog[i + k]) for k in range(j - i)]))
                    nchoice += 1
                    i = j
                    continue
                stmts.append(('pf', rng.choice(['0.1', '0.3', '0.5', '0.7', '0.9']), c))
                nchoice += 1
            elif (not isfact) and c[2] != TRUE and nchoice < max_choices and r < 0.08 and not term_vars(c[1]):
                stmts.append(('pf', rng.choice(['0.2', '0.6']), c))
                nchoice += 1
            else:
                stmts.append(('det', c))
            i += 1
        if nchoice == 0:
            continue
        n, h, b = fix_nvars([qc])[0]
        if builtin == 'all':
            b = ('all', b[1], b[2], b[3])
        stmts.append(('det', (n, h, b)))
        return stmts, F('q', V(0)), builtin
    raise RuntimeError("generator failed")


def pl_stmt(st):
    if st[0] == 'det':
        return pl_clause_x(st[1])
    if st[0] == 'pf':
        return "%s::%s" % (st[1], pl_clause_x(st[2]))
    return "; ".join("%s::%s" % (p, pl_term(c[1])) for p, c in st[1]) + "."


def pl_clause_x(c):
    """Like pl_clause, also for bodies with all/3."""
    n, h, b = c
    if b[0] == 'all':
        return "%s :- all(%s, %s, %s)." % (pl_term(h), pl_term(b[1]), pl_goal_p(b[2], arg=True), pl_term(b[3]))
    return pl_clause(c)


def worlds(stmts):
    """Enumerate (probability as Fraction, deterministic program in statement order); `all` bodies kept as is."""
    from fractions import Fraction
    opts = []
    for st in stmts:
        if st[0] == 'det':
            opts.append([(Fraction(1), [st[1]])])
        elif st[0] == 'pf':
            p = Fraction(st[1])
            opts.append([(p, [st[2]]), (1 - p, [])])
        else:
            o = [(Fraction(p), [c]) for p, c in st[1]]
            rest = 1 - sum(Fraction(p) for p, _ in st[1])
            if rest > 0:
                o.append((rest, []))
            opts.append(o)
    for combo in itertools.product(*opts):
        w = Fraction(1)
        prog = []
        for p, cs in combo:
            w *= p
            prog.extend(cs)
        if w > 0:
            yield w, prog
