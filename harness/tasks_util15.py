"""Helpers shared by the task-level checks C24 (LFI), C26 (subquery), C31 (Bayesian-network export); owner: A15."""
import copy
import os
import traceback
from fractions import Fraction as F

import spine


def _tup(x):
    if isinstance(x, list):
        return tuple(_tup(y) for y in x)
    return x


def load_program(P):
    """Program dict as read back from a replay file (JSON lists -> the tuples spine expects)."""
    P = copy.deepcopy(P)
    P["stmts"] = [tuple(_tup(s)) for s in P["stmts"]]
    fixed = []
    for s in P["stmts"]:
        if s[0] == "ad":
            s = ("ad", [(_tup(p), _tup(h)) for p, h in s[1]], [tuple(_tup(b)) for b in s[2]])
        elif s[0] == "rule":
            s = ("rule", s[1], [tuple(_tup(b)) for b in s[2]])
        elif s[0] == "prule":
            s = ("prule", s[1], s[2], [tuple(_tup(b)) for b in s[3]])
        fixed.append(s)
    P["stmts"] = fixed
    P["queries"] = [tuple(_tup(q)) for q in P["queries"]]
    P["evidence"] = [(tuple(_tup(a)), v) for a, v in P["evidence"]]
    P["preds"] = {k: tuple(v) for k, v in P["preds"].items()}
    return P


def site_of(e):
    for fr_ in reversed(traceback.extract_tb(e.__traceback__)):
        if "/problog/" in fr_.filename:
            return "%s:%s:%s" % (os.path.basename(fr_.filename), fr_.name, (fr_.line or "").strip())
    return ""


def shrink_program(P, still_fails):
    from props.c01 import shrink_program as sp
    return sp(P, still_fails)


def sample_choices(groups, rng):
    """One total choice: the set of selected choice ids (exact rational thresholds)."""
    chosen = set()
    for g in groups:
        r = F(rng.randrange(10 ** 9), 10 ** 9)
        acc = F(0)
        for p, cid in g:
            acc += F(p)
            if r < acc:
                chosen.add(cid)
                break
    return chosen


def all_worlds(groups):
    """Every total choice with its exact probability: list of (weight, frozenset of choice ids)."""
    out = [(F(1), frozenset())]
    for g in groups:
        none_p = 1 - sum(F(p) for p, _ in g)
        nxt = []
        for w, ch in out:
            for p, cid in g:
                nxt.append((w * F(p), ch | {cid}))
            nxt.append((w * none_p, ch))
        out = nxt
    return out


def is_nonground(name):
    return ("(" in name) and any(c.isupper() or c == "_" for c in name.split("(", 1)[-1])
