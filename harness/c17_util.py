"""Helpers of the C17/C27 checks: canonical text of problog.logic objects (shared with lean/ProbLogModel/Syntax.lean),
serialisation of real tokens for the Lean parser model, AST generators over the operator table."""
import re
import traceback

from lib import q, Infra


class Unrepresentable(Exception):
    """The object has no counterpart in the Lean `Tm` type (documented limits of the model)."""


def dump(t):
    """Canonical text of a problog.logic object — same grammar as `Tm.dump` in lean/ProbLogModel/Syntax.lean."""
    from problog.logic import Term, Var, Constant, AggTerm, And, Or, Not, Clause, AnnotatedDisjunction
    out = []

    def go(t):
        if t is None:
            out.append("N")
            return
        ty = type(t)
        if ty is not Term and getattr(t, "probability", None) is not None:
            raise Unrepresentable("probability on " + ty.__name__)
        if ty is Var:
            out.append("(V %s)" % q(t.functor))
        elif ty is Constant:
            v = t.functor
            if type(v) is int:
                out.append("(I %d)" % v)
            elif type(v) is float:
                out.append("(F %s)" % q(repr(v)))
            elif type(v) is str:
                out.append("(S %s)" % q(v))
            else:
                raise Unrepresentable("constant of type " + type(v).__name__)
        elif ty is Term:
            if not isinstance(t.functor, str):
                raise Unrepresentable("functor of type " + type(t.functor).__name__)
            out.append("(T %s (" % q(t.functor))
            for i, a in enumerate(t.args):
                if i:
                    out.append(" ")
                go(a)
            out.append(") ")
            if t.op_spec is None and t.op_priority is None:
                out.append("-")
            elif t.op_spec is None or t.op_priority is None:
                raise Unrepresentable("half operator annotation")
            else:
                out.append("(%d %s)" % (t.op_priority, t.op_spec))
            out.append(" ")
            if t.probability is None:
                out.append("-")
            else:
                go(t.probability)
            out.append(")")
        elif ty is AggTerm:
            out.append("(G %s (" % q(t.functor))
            for i, a in enumerate(t.args):
                if i:
                    out.append(" ")
                go(a)
            out.append("))")
        elif ty is And or ty is Or:
            if t.functor != ("," if ty is And else ";"):
                raise Unrepresentable("renamed And/Or")
            out.append("(A " if ty is And else "(O ")
            go(t.args[0])
            out.append(" ")
            go(t.args[1])
            out.append(")")
        elif ty is Not:
            out.append("(X %s " % q(t.functor))
            go(t.args[0])
            out.append(")")
        elif ty is Clause:
            out.append("(C ")
            go(t.head)
            out.append(" ")
            go(t.body)
            out.append(")")
        elif ty is AnnotatedDisjunction:
            out.append("(D (")
            for i, a in enumerate(t.heads):
                if i:
                    out.append(" ")
                go(a)
            out.append(") ")
            go(t.body)
            out.append(")")
        else:
            raise Unrepresentable(ty.__name__)

    import sys
    old = sys.getrecursionlimit()
    sys.setrecursionlimit(max(old, 10000))
    try:
        go(t)
    finally:
        sys.setrecursionlimit(old)
    return "".join(out)


_OPANN = re.compile(r"\(\d+ (?:xfx|xfy|yfx|fy|fx)\)")
_FLT = re.compile(r'\(F "([^"]*)"\)')


def strip_ops(d):
    """Drop the operator annotations (op_priority/op_spec are printing hints, not part of term identity)."""
    return _OPANN.sub("-", d)


def canon_floats(d):
    """The model keeps a float as its token text; the implementation as float(text) rounded to 15 digits."""
    def f(m):
        try:
            return '(F "%s")' % repr(round(float(m.group(1)), 15))
        except ValueError:
            return m.group(0)
    return _FLT.sub(f, d)


# ------------------------------------------------------------------------------------------------ tokens
def special_names():
    import problog.parser as P
    from py2lean_ops import SPECIALS
    return {getattr(P, k): v for k, v in SPECIALS.items()}


def builder_name(fn):
    from py2lean_ops import BUILDERS
    n = fn.__name__.lstrip("_")
    if n not in BUILDERS:
        raise Infra("unknown builder " + n)
    return BUILDERS[n]


def tok_text(tok, specials):
    def op(o):
        if not o:
            return "-"
        return "(%d %s %s)" % (o[0], o[1], builder_name(o[2]))
    return "(%s %d %d %s %s %s)" % (q(tok.string), 1 if tok.atom else 0, 1 if tok.functor else 0, op(tok.binop),
                                    op(tok.unop), specials[tok.special] if tok.special is not None else "-")


def site_of(e, prefer=("problog",)):
    """(file basename, function, statement text) of the innermost traceback frame inside the problog package."""
    tb = traceback.extract_tb(e.__traceback__)
    for fr in reversed(tb):
        fn = fr.filename.replace("\\", "/")
        if "/problog/" in fn:
            return fn.rsplit("/", 1)[1], fr.name, (fr.line or "").strip()
    fr = tb[-1] if tb else None
    return ("?", fr.name if fr else "?", (fr.line or "").strip() if fr else "?")


# ------------------------------------------------------------------------------------------------ generators
LOWER = ["a", "b", "c", "f", "g", "p", "q", "foo", "bar", "p1", "q_2", "xY", "is_ok", "e", "inf", "nan", "x0"]
QUOTED = ["'hello world'", "'X'", "'_a'", "'a.b'", "'A b'", "'1'", "'+'", "'[]'", "'don t'", "'%c'", "'a,b'"]
VARS = ["X", "Y", "Z", "_", "_G1", "Abc", "X1", "_x"]
STRINGS = ['"abc"', '""', '"a b"', '"x, y"', '"It\'s"', '"%d"', '"(("']


class OpTable(object):
    """The operator table as extracted from parser.py (py2lean_ops.extract)."""

    def __init__(self, table):
        self.bin = []  # (string, prio, spec, builder)
        self.un = []
        seen_b, seen_u = set(), set()
        for e in table["entries"]:
            if e.get("error") or e.get("comment"):
                continue
            if e["binop"] and e["string"] not in seen_b and e["lexeme"] == e["string"]:
                seen_b.add(e["string"])
                self.bin.append((e["string"],) + tuple(e["binop"]))
            if e["unop"] and e["string"] not in seen_u and e["lexeme"] == e["string"]:
                seen_u.add(e["string"])
                self.un.append((e["string"],) + tuple(e["unop"]))
        for s in table["string_operators"]:
            if s["binop"]:
                self.bin.append((s["string"],) + tuple(s["binop"]))
            if s["unop"]:
                self.un.append((s["string"],) + tuple(s["unop"]))
        self.plain_bin = [o for o in self.bin if o[3] == "binop"]
        self.plain_un = [o for o in self.un if o[3] == "unop"]


class Gen(object):
    """Random ASTs "as the parser builds them": operator terms carry the quoted functor and priority/opspec,
    negative numbers are constants, conjunction/disjunction/negation are And/Or/Not objects."""

    def __init__(self, rng, ops, safe=True):
        self.rng = rng
        self.ops = ops
        self.safe = safe  # avoid the shapes of the known printer defects (see known/C17.json)

    # -- leaves
    def atom(self):
        from problog.logic import Term
        r = self.rng.random()
        if r < 0.75:
            return Term(self.rng.choice(LOWER))
        if r < 0.95:
            return Term(self.rng.choice(QUOTED))
        return Term(self.rng.choice(["[]", "!"]))

    def number(self, allow_negative=True):
        from problog.logic import Constant
        r = self.rng.random()
        if r < 0.5:
            v = self.rng.choice([0, 1, 2, 7, 10, 42, 1000, 123456789012345678901234567890])
        else:
            v = self.rng.choice([0.5, 0.25, 1.5, 2.0, 1e-05, 3.25e+20, 0.1, 1e+16, 123.456])
        if allow_negative and self.rng.random() < 0.25:
            v = -v
        return Constant(v)

    def leaf(self, allow_negative=True):
        from problog.logic import Var, Constant
        r = self.rng.random()
        if r < 0.4:
            return self.atom()
        if r < 0.6:
            return Var(self.rng.choice(VARS))
        if r < 0.85:
            return self.number(allow_negative)
        return Constant(self.rng.choice(STRINGS))

    # -- terms (argument positions, priority 999)
    def term(self, depth, allow_negative=True):
        from problog.logic import Term
        rng = self.rng
        if depth <= 0:
            return self.leaf(allow_negative)
        r = rng.random()
        if r < 0.22:
            return self.leaf(allow_negative)
        if r < 0.42:
            f = rng.choice(LOWER) if rng.random() < 0.8 else rng.choice(QUOTED)
            return Term(f, *[self.term(depth - 1) for _ in range(rng.randrange(1, 4))])
        if r < 0.55:
            return self.lst(depth)
        if r < 0.9:
            return self.binop(depth)
        return self.unop(depth)

    def plain(self, depth):
        """operator-free term: the class of C17_roundtrip_partial"""
        from problog.logic import Term, Var, Constant
        rng = self.rng
        r = rng.random()
        if depth <= 0 or r < 0.3:
            k = rng.random()
            if k < 0.35:
                return Term(rng.choice(LOWER)) if rng.random() < 0.8 else Term(rng.choice(QUOTED))
            if k < 0.55:
                return Var(rng.choice(VARS))
            if k < 0.8:
                return self.number(allow_negative=False)
            if k < 0.9:
                return Constant(rng.choice(STRINGS))
            return Term("[]")
        if r < 0.65:
            f = rng.choice(LOWER) if rng.random() < 0.8 else rng.choice(QUOTED)
            return Term(f, *[self.plain(depth - 1) for _ in range(rng.randrange(1, 4))])
        n = rng.randrange(1, 4)
        k = rng.random()
        tail = Term("[]")
        if k < 0.2:
            tail = Var(rng.choice(VARS))
        elif k < 0.3:
            tail = Term(rng.choice(LOWER), self.plain(0))
        for e in reversed([self.plain(depth - 1) for _ in range(n)]):
            tail = Term(".", e, tail)
        return tail

    def lst(self, depth):
        from problog.logic import Term, Var
        rng = self.rng
        n = rng.randrange(0, 4)
        r = rng.random()
        tail = Term("[]")
        if n and r < 0.2:
            tail = Var(rng.choice(VARS))
        elif n and r < 0.27:
            tail = self.atom()
        for e in reversed([self.term(depth - 1) for _ in range(n)]):
            tail = Term(".", e, tail)
        return tail

    def binop(self, depth, maxprio=999):
        from problog.logic import Term
        rng = self.rng
        cands = [o for o in self.ops.plain_bin if o[1] <= maxprio]
        s, prio, spec, _ = rng.choice(cands)
        if self.safe:
            # operands: no negative numbers next to an operator of priority <= 200 (printed `2**-1`)
            neg_ok = prio > 200
        else:
            neg_ok = True
        a = self.operand(depth - 1, neg_ok)
        b = self.operand(depth - 1, neg_ok)
        return Term("'%s'" % s, a, b, priority=prio, opspec=spec)

    def operand(self, depth, neg_ok=True):
        return self.term(depth, allow_negative=neg_ok)

    def unop(self, depth):
        from problog.logic import Term, Constant
        rng = self.rng
        s, prio, spec, _ = rng.choice(self.ops.plain_un)
        a = self.term(depth - 1, allow_negative=False)
        if self.safe:
            # the printer never parenthesises the operand of a prefix operator and does not separate it from the
            # operator: keep the operand a non-operator term that does not start with a symbol character or "("
            tries = 0
            while self._unsafe_unop_operand(a) and tries < 20:
                a = self.term(depth - 1, allow_negative=False)
                tries += 1
            if self._unsafe_unop_operand(a):
                a = Term("a")
        if s == "-" and type(a) is Constant and type(a.functor) in (int, float):
            a = Term("a")  # `- 1` is folded into the constant -1 by the factory: not in the image of the parser
        return Term("'%s'" % s, a, priority=prio, opspec=spec)

    @staticmethod
    def _unsafe_unop_operand(a):
        return getattr(a, "op_spec", None) is not None

    # -- bodies
    def goal(self, depth):
        from problog.logic import Term, Not
        rng = self.rng
        r = rng.random()
        if depth <= 0 or r < 0.5:
            f = rng.choice(LOWER)
            n = rng.randrange(0, 3)
            return Term(f, *[self.term(min(depth, 2) - 1) for _ in range(n)]) if n else Term(f)
        if r < 0.7:
            cands = [o for o in self.ops.plain_bin if o[1] == 700]
            s, prio, spec, _ = rng.choice(cands)
            return Term("'%s'" % s, self.term(depth - 1), self.term(depth - 1), priority=prio, opspec=spec)
        if r < 0.85:
            child = self.goal(depth - 1)
            return Not(rng.choice(["\\+", "not"]), child)
        return Term("findall", self.term(1), self.goal(depth - 1), self.term(1))

    def body(self, depth):
        from problog.logic import And, Or
        rng = self.rng
        r = rng.random()
        if depth <= 0 or r < 0.35:
            return self.goal(depth)
        if self.safe:
            # right-nested chains only: `(a, b), c` is printed `a, b, c` (known finding left-nested-and-or)
            if r < 0.8:
                left = self.body(depth - 1)
                while type(left) is And:
                    left = left.op1
                return And(left, self.body(depth - 1))
            left = self.body(depth - 1)
            while type(left) is Or:
                left = left.op1
            return Or(left, self.body(depth - 1))
        if r < 0.8:
            return And(self.body(depth - 1), self.body(depth - 1))
        return Or(self.body(depth - 1), self.body(depth - 1))

    def head(self, depth, prob=None):
        from problog.logic import Term
        rng = self.rng
        f = rng.choice(LOWER[:10])
        n = rng.randrange(0, 3)
        kw = {}
        if prob is not None:
            kw["p"] = prob
        return Term(f, *[self.term(min(depth, 2)) for _ in range(n)], **kw)

    def prob(self):
        from problog.logic import Constant, Var, Term
        r = self.rng.random()
        if r < 0.7:
            return Constant(self.rng.choice([0.5, 0.1, 0.25, 1.0, 0.3, 1, 0]))
        if r < 0.85:
            return Var(self.rng.choice(["P", "X"]))
        return Term("'/'", Constant(1), Constant(self.rng.choice([2, 3, 4])), priority=400, opspec="yfx")

    def statement(self, depth):
        from problog.logic import Term, Clause, AnnotatedDisjunction
        rng = self.rng
        r = rng.random()
        if r < 0.3:
            return self.term(depth)
        if r < 0.4:
            return self.head(depth, self.prob())
        if r < 0.7:
            return Clause(self.head(depth, self.prob() if rng.random() < 0.3 else None), self.body(depth))
        if r < 0.8:
            return Clause(Term("_directive"), self.body(depth))
        heads = [self.head(1, self.prob()) for _ in range(rng.randrange(2, 4))]
        return AnnotatedDisjunction(heads, self.body(depth) if rng.random() < 0.6 else Term("true"))


# ------------------------------------------------------------------------------------------------ reader of dumps
def _sexp(s):
    """Parse the canonical text into nested lists / atoms (strings keep their quotes)."""
    i, n = 0, len(s)
    stack = [[]]
    while i < n:
        c = s[i]
        if c == "(":
            stack.append([])
            i += 1
        elif c == ")":
            x = stack.pop()
            stack[-1].append(x)
            i += 1
        elif c == " ":
            i += 1
        elif c == '"':
            j = i + 1
            buf = []
            while s[j] != '"':
                if s[j] == "\\":
                    buf.append({"n": "\n"}.get(s[j + 1], s[j + 1]))
                    j += 2
                else:
                    buf.append(s[j])
                    j += 1
            stack[-1].append(("str", "".join(buf)))
            i = j + 1
        else:
            j = i
            while j < n and s[j] not in " ()":
                j += 1
            stack[-1].append(s[i:j])
            i = j
    return stack[0][0]


def undump(d):
    """Inverse of `dump`: build the problog.logic object."""
    from problog.logic import Term, Var, Constant, AggTerm, And, Or, Not, Clause, AnnotatedDisjunction

    def go(x):
        if x == "N":
            return None
        k = x[0]
        if k == "V":
            return Var(x[1][1])
        if k == "I":
            return Constant(int(x[1]))
        if k == "F":
            return Constant(float(x[1][1]))
        if k == "S":
            return Constant(x[1][1])
        if k == "T":
            kw = {}
            if x[3] != "-":
                kw["priority"] = int(x[3][0])
                kw["opspec"] = x[3][1]
            if x[4] != "-":
                kw["p"] = go(x[4])
            return Term(x[1][1], *[go(a) for a in x[2]], **kw)
        if k == "G":
            return AggTerm(x[1][1], *[go(a) for a in x[2]])
        if k == "A":
            return And(go(x[1]), go(x[2]))
        if k == "O":
            return Or(go(x[1]), go(x[2]))
        if k == "X":
            return Not(x[1][1], go(x[2]))
        if k == "C":
            return Clause(go(x[1]), go(x[2]))
        if k == "D":
            return AnnotatedDisjunction([go(a) for a in x[1]], go(x[2]))
        raise Infra("bad dump " + str(x)[:80])
    return go(_sexp(d))
