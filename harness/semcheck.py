"""Program-level comparison of real ProbLog runs (under a configuration) with the Lean specification `Sem`
(shared by C01-C08, C25, C26)."""
import os
import time
import traceback

import spine
from lib import close


def site_of(e):
    for fr_ in reversed(traceback.extract_tb(e.__traceback__)):
        if "/problog/" in fr_.filename:
            return "%s:%s:%s" % (os.path.basename(fr_.filename), fr_.name, (fr_.line or "").strip())
    return ""


def run_cfg(src, cfg=None, timeout=8):
    """Run the real inference under a configuration dict. Returns ("ok", {name: prob}) or ("error", (stage, exc, site)).

    cfg keys: engine (dict of DefaultEngine kwargs), ground (dict passed to LogicFormula.create_from),
    semiring ("prob" | "log" | None = default), kc ("ddnnf" | "default" | "nnf"), sched (int seed or None),
    random_order (int seed: the RandomOrderEngine of docs/source/engine.rst)."""
    cfg = cfg or {}
    from problog.program import PrologString
    from problog import get_evaluatable
    from problog.formula import LogicFormula
    from problog.engine import DefaultEngine
    from problog.evaluator import SemiringProbability, SemiringLogProbability
    import problog.engine_stack as es

    def body():
        if hasattr(es, "_verif_set_schedule"):
            es._verif_set_schedule(cfg.get("sched"))
        try:
            eng_kw = dict(cfg.get("engine") or {})
            if cfg.get("random_order") is not None:
                engine = make_random_order_engine(cfg["random_order"], **eng_kw)
            elif eng_kw:
                engine = DefaultEngine(**eng_kw)
            else:
                engine = None
            if cfg.get("history"):
                return run_history(src, cfg["history"], engine or DefaultEngine())
            gkw = dict(cfg.get("ground") or {})
            if isinstance(gkw.get("propagate_weights"), str):
                gkw["propagate_weights"] = {"prob": SemiringProbability(), "log": SemiringLogProbability()}[gkw["propagate_weights"]]
            if engine is not None:
                gkw["engine"] = engine
            lf = LogicFormula.create_from(PrologString(src), **gkw)
            kc = cfg.get("kc", "default")
            if kc == "ddnnf":
                ev = get_evaluatable("ddnnf")
            elif kc == "nnf":
                from problog.formula import LogicNNF
                ev = LogicNNF
            else:
                ev = get_evaluatable()
            srn = cfg.get("semiring")
            sr = make_semiring(srn)
            if kc == "auto":
                ev = get_evaluatable(None, semiring=sr)
            kb = ev.create_from(lf)
            r = kb.evaluate(semiring=sr) if sr is not None else kb.evaluate()
            if srn == "symbolic":
                return {str(k): float(eval_symbolic(v)) for k, v in r.items()}
            return {str(k): v for k, v in r.items()}
        finally:
            if hasattr(es, "_verif_set_schedule"):
                es._verif_set_schedule(None)
    try:
        return ("ok", spine.with_timeout(timeout, body))
    except spine.Timeout:
        return ("error", ("run", "Timeout", ""))
    except RecursionError as e:
        return ("error", ("run", "RecursionError", site_of(e)))
    except Exception as e:
        return ("error", ("run", type(e).__name__, site_of(e)))


def run_history(src, h, engine):
    """Grounding histories (C08). src = clauses only. h = {mode, seed, queries: [atom text], evidence: [(atom text, bool)]}.

    mode "shared_target": all queries and evidence atoms are grounded one by one, in a seeded random order, into ONE
    target formula (engine.ground(db, term, target=target, label=...)); then the target is evaluated.
    mode "shared_db": one prepared database and one engine object serve a sequence of independent groundings, one per
    query (evidence first), each into a fresh target; the answers are collected.
    mode "ground_all": engine.ground_all(db, queries=..., evidence=...) with shuffled lists."""
    import random
    from problog.program import PrologString
    from problog.logic import Term
    from problog import get_evaluatable
    rng = random.Random(h["seed"])
    db = engine.prepare(PrologString(src))
    def mkterm(txt):
        # anonymous variables are given distinct names: Term.from_string maps every `_` to the same Var('_')
        n = [0]

        def fresh(m):
            n[0] += 1
            return "%sV%d%s" % (m.group(1), n[0], m.group(2))
        import re
        prev = None
        while prev != txt:
            prev = txt
            txt = re.sub(r"([(,])_([,)])", fresh, txt, count=1)
        return Term.from_string(txt)
    qs = [mkterm(q) for q in h["queries"]]
    evs = [(Term.from_string(a), v) for a, v in h["evidence"]]
    if h["mode"] == "shared_target":
        items = [("q", q, None) for q in qs] + [("e", a, v) for a, v in evs]
        rng.shuffle(items)
        target = None
        for kind, t, v in items:
            label = "query" if kind == "q" else ("evidence+" if v else "evidence-")
            target = engine.ground(db, t, target=target, label=label)
        r = get_evaluatable().create_from(target).evaluate()
        return {str(k): v for k, v in r.items()}
    if h["mode"] == "ground_all":
        rng.shuffle(qs)
        rng.shuffle(evs)
        # h["propagate"]: the evidence is grounded first and propagated (LogicFormula.propagate / engine.propagate_evidence),
        # the queries are grounded afterwards against the propagated table
        target = engine.ground_all(db, queries=qs, evidence=[(a, v) for a, v in evs],
                                   **({"propagate_evidence": True} if h.get("propagate") else {}))
        r = get_evaluatable().create_from(target).evaluate()
        return {str(k): v for k, v in r.items()}
    out = {}
    order = list(qs)
    rng.shuffle(order)
    for q in order:
        target = None
        for a, v in evs:
            target = engine.ground(db, a, target=target, label="evidence+" if v else "evidence-")
        target = engine.ground(db, q, target=target, label="query")
        r = get_evaluatable().create_from(target).evaluate()
        out.update({str(k): v for k, v in r.items()})
    return out


def make_semiring(name):
    """prob | log | custom (a user-defined copy of the probability semiring, declared DSP like the original) |
    nsp (its neutral-sum variant) | symbolic."""
    from problog.evaluator import Semiring, SemiringProbability, SemiringLogProbability, SemiringSymbolic
    if name is None:
        return None
    if name == "prob":
        return SemiringProbability()
    if name == "log":
        return SemiringLogProbability()
    if name == "symbolic":
        return SemiringSymbolic()

    class UserProb(Semiring):
        def one(self):
            return 1.0

        def zero(self):
            return 0.0

        def is_one(self, value):
            return 1.0 - 1e-12 < value < 1.0 + 1e-12

        def is_zero(self, value):
            return -1e-12 < value < 1e-12

        def plus(self, a, b):
            return a + b

        def times(self, a, b):
            return a * b

        def negate(self, a):
            return 1.0 - a

        def normalize(self, a, z):
            return a / z

        def value(self, a):
            return float(a)

        def is_dsp(self):
            return True     # a probability semiring is a disjoint-sum-problem semiring

        def is_nsp(self):
            return name == "nsp"
    return UserProb()


def eval_symbolic(expr):
    """Exact value of an expression emitted by SemiringSymbolic: decimal literals, + - * /, parentheses."""
    import ast
    from fractions import Fraction

    def ev(n):
        if isinstance(n, ast.Expression):
            return ev(n.body)
        if isinstance(n, ast.Constant):
            return Fraction(repr(n.value)) if isinstance(n.value, float) else Fraction(n.value)
        if isinstance(n, ast.BinOp):
            a, b = ev(n.left), ev(n.right)
            if isinstance(n.op, ast.Add):
                return a + b
            if isinstance(n.op, ast.Sub):
                return a - b
            if isinstance(n.op, ast.Mult):
                return a * b
            if isinstance(n.op, ast.Div):
                return a / b
        if isinstance(n, ast.UnaryOp) and isinstance(n.op, ast.USub):
            return -ev(n.operand)
        raise ValueError("unexpected symbolic expression: %r" % expr)
    return ev(ast.parse(str(expr), mode="eval"))


def make_random_order_engine(seed, **kw):
    """The RandomOrderEngine documented in docs/source/engine.rst (choice points explored in random order)."""
    import random
    from problog.engine_stack import StackBasedEngine, MessageAnyOrder

    rng = random.Random(seed)

    class RandomOrderQueue(MessageAnyOrder):
        def __init__(self, engine):
            MessageAnyOrder.__init__(self, engine)
            self.messages_rc = []
            self.messages_e = []

        def append(self, message):
            if message[0] == "e":
                self.messages_e.append(message)
            else:
                self.messages_rc.append(message)

        def pop(self):
            if self.messages_rc:
                return self.messages_rc.pop(-1)
            else:
                i = rng.randrange(len(self.messages_e))
                return self.messages_e.pop(i)

        def __nonzero__(self):
            return bool(self.messages_e) or bool(self.messages_rc)

        def __bool__(self):
            return bool(self.messages_e) or bool(self.messages_rc)

        def __len__(self):
            return len(self.messages_e) + len(self.messages_rc)

        def __iter__(self):
            return iter(self.messages_e + self.messages_rc)

    class RandomOrderEngine(StackBasedEngine):
        def __init__(self, **kwdargs):
            kwdargs["unbuffered"] = True
            StackBasedEngine.__init__(self, **kwdargs)

        def init_message_stack(self):
            return RandomOrderQueue(self)

    return RandomOrderEngine(**kw)


def canon_results(val):
    """Canonical observation of a result dict: instances reported with probability 0 and non-ground names are the same
    observation as unreported instances."""
    out = {}
    for k, g in val.items():
        nonground = ("(" in k) and any(c.isupper() or c == "_" for c in k.split("(", 1)[-1])
        if nonground and g == 0:
            continue
        out[k] = g
    return out


def compare(P, sem, run, tag, ctx=None, extra_sig=None):
    """List of (what, signature) for one run against the specification result."""
    out = []
    kind, val = run
    if sem is None or sem["undef"] > 0:
        return out
    if kind == "error":
        stage, name, site = val[0], val[1], val[2]
        if name == "InconsistentEvidenceError":
            if sem["z"] != 0:
                out.append(("%s: InconsistentEvidenceError although P(evidence) = %s" % (tag, sem["z"]),
                            {"kind": "wrong-inconsistent"}))
        elif name == "Timeout":
            if ctx is not None:
                ctx.count("timeout")
        else:
            out.append(("%s: %s raised at %s" % (tag, name, site),
                        {"kind": "exception", "exc": name, "site": site, "spec_negcycle": sem["negcycle"],
                         "f1_shape": spine.f1_condition(P)}))
    elif sem["z"] == 0:
        out.append(("%s: answered %s although P(evidence) = 0" % (tag, val), {"kind": "missing-inconsistent"}))
    else:
        probs = sem["probs"]
        val = canon_results(val)
        for k, v in probs.items():
            g = val.get(k)
            if g is None:
                if v != 0:
                    out.append(("%s: %s not reported but has probability %s" % (tag, k, v), {"kind": "unreported"}))
            elif not close(g, v):
                out.append(("%s: %s reported %r, distribution semantics gives %s = %r" % (tag, k, g, v, float(v)),
                            {"kind": "wrong-probability"}))
        for k, g in val.items():
            if k not in probs:
                out.append(("%s: reported %s = %r which is not an instance of any query" % (tag, k, g),
                            {"kind": "spurious-instance"}))
    for w, s in out:
        s["tag"] = tag.split("#")[0]
        if extra_sig:
            s.update(extra_sig)
    return out


FO_STATS = {"fo": 0, "old-path-only": 0, "seconds": 0.0, "seconds-old-path": 0.0}


def _report_stats():
    if FO_STATS["fo"] or FO_STATS["old-path-only"]:
        import sys
        sys.stderr.write("spec_batch: %r\n" % (FO_STATS,))


if os.environ.get("VERIF_SPEC_STATS") or os.environ.get("VERIF_SPEC_TIMING"):
    import atexit
    atexit.register(_report_stats)


def spec_batch(drv, progs):
    """The specification value of every program. The value comes from op SEMFO: the first-order program is handed to Lean,
    which does the Herbrand instantiation (`SemFO.ground`, proved in Properties/C01FO.lean) and evaluates `Sem.run`.
    It is cross-checked on every program against the former path (Python `spine.reference` + op SEM) - result by result -
    and the Lean ground program is compared textually with `spine.reference` (op GROUNDFO). A disagreement is a defect of
    the verification machinery: `lib.Infra`. Programs `spine.fo_sexp` cannot represent (or that Lean reports as
    ill-formed w.r.t. their declared signature) keep the former path; they are counted in FO_STATS["old-path-only"]."""
    from lib import Infra
    lines, meta = [], []
    old_only = bool(os.environ.get("VERIF_SPEC_OLD"))    # the former path alone (Python grounding), for comparison runs
    for P in progs:
        line, qinst = spine.sem_line(P)
        fo = None if old_only else spine.fo_sexp(P)
        meta.append((len(lines), qinst, fo is not None))
        lines.append(line)
        if fo is not None:
            lines.append("SEMFO " + fo)
            lines.append("GROUNDFO " + fo)
    t0 = time.time()
    outs = drv.run(lines)
    FO_STATS["seconds"] += time.time() - t0
    if os.environ.get("VERIF_SPEC_TIMING"):
        # what the former path alone costs (measurement aid only)
        t0 = time.time()
        drv.run([lines[i] for i, _, _ in meta])
        FO_STATS["seconds-old-path"] += time.time() - t0
    res = []
    for P, (i, qinst, has_fo) in zip(progs, meta):
        old = spine.parse_sem(outs[i], qinst)
        new = spine.parse_sem_fo(outs[i + 1]) if has_fo else None
        if new is None:
            FO_STATS["old-path-only"] += 1
            res.append(old)
            continue
        FO_STATS["fo"] += 1
        fo_res, qnames = new

        def bad(what):
            raise Infra("first-order specification (SEMFO) disagrees with reference+SEM on %s | program: %s | SEM: %s | SEMFO: %s"
                        % (what, spine.to_src(P).replace("\n", " "), outs[i][:300], outs[i + 1][:300]))
        if outs[i + 2] != spine.reference_text(P):
            bad("the ground program")
        if sorted(qnames) != sorted(spine.atom_s(q) for q in qinst) or len(set(qnames)) != len(qnames):
            bad("the set of query instances")
        if (old is None) != (fo_res is None):
            bad("the number of worlds (too big)")
        if old is not None:
            nums = fo_res.pop("nums")
            if nums != spine.sem_numerators(outs[i], qinst):
                bad("a query numerator")
            for k in ("z", "undef", "nworlds", "negcycle", "negcycle_full", "undef_roots", "probs"):
                if old[k] != fo_res[k]:
                    bad(k)
            if set(old) != set(fo_res):
                bad("result keys")
            # same key order as the former path (query order of `query_instances`)
            fo_res["probs"] = {k: fo_res["probs"][k] for k in old["probs"]}
        res.append(fo_res)
    return res


def same_failure(a, b):
    return a["kind"] == b["kind"] and a.get("exc") == b.get("exc") and a.get("site") == b.get("site")
