"""Program-level comparison of real ProbLog runs (under a configuration) with the Lean specification `Sem`
(shared by C01-C08, C25, C26)."""
import os
import traceback

import spine
from lib import close


def site_of(e):
    for fr_ in reversed(traceback.extract_tb(e.__traceback__)):
        if "/problog/" in fr_.filename:
            return "%s:%s:%s" % (os.path.basename(fr_.filename), fr_.name, (fr_.line or "").strip())
    return ""


def run_cfg(src, cfg=None, timeout=8):
    """Run the real inference under a configuration dict. Returns ("ok", {name: prob}) or ("error", (stage, exc, site)).

    cfg keys: engine (dict of DefaultEngine kwargs), ground (dict passed to LogicFormula.create_from),
    semiring ("prob" | "log" | None = default), kc ("ddnnf" | "default" | "nnf"), sched (int seed or None),
    random_order (int seed: the RandomOrderEngine of docs/source/engine.rst)."""
    cfg = cfg or {}
    from problog.program import PrologString
    from problog import get_evaluatable
    from problog.formula import LogicFormula
    from problog.engine import DefaultEngine
    from problog.evaluator import SemiringProbability, SemiringLogProbability
    import problog.engine_stack as es

    def body():
        if hasattr(es, "_verif_set_schedule"):
            es._verif_set_schedule(cfg.get("sched"))
        try:
            eng_kw = dict(cfg.get("engine") or {})
            if cfg.get("random_order") is not None:
                engine = make_random_order_engine(cfg["random_order"], **eng_kw)
            elif eng_kw:
                engine = DefaultEngine(**eng_kw)
            else:
                engine = None
            gkw = dict(cfg.get("ground") or {})
            if isinstance(gkw.get("propagate_weights"), str):
                gkw["propagate_weights"] = {"prob": SemiringProbability(), "log": SemiringLogProbability()}[gkw["propagate_weights"]]
            if engine is not None:
                gkw["engine"] = engine
            lf = LogicFormula.create_from(PrologString(src), **gkw)
            kc = cfg.get("kc", "default")
            if kc == "ddnnf":
                ev = get_evaluatable("ddnnf")
            elif kc == "nnf":
                from problog.formula import LogicNNF
                ev = LogicNNF
            else:
                ev = get_evaluatable()
            sr = {"prob": SemiringProbability(), "log": SemiringLogProbability(), None: None}[cfg.get("semiring")]
            kb = ev.create_from(lf)
            r = kb.evaluate(semiring=sr) if sr is not None else kb.evaluate()
            return {str(k): v for k, v in r.items()}
        finally:
            if hasattr(es, "_verif_set_schedule"):
                es._verif_set_schedule(None)
    try:
        return ("ok", spine.with_timeout(timeout, body))
    except spine.Timeout:
        return ("error", ("run", "Timeout", ""))
    except RecursionError as e:
        return ("error", ("run", "RecursionError", site_of(e)))
    except Exception as e:
        return ("error", ("run", type(e).__name__, site_of(e)))


def make_random_order_engine(seed, **kw):
    """The RandomOrderEngine documented in docs/source/engine.rst (choice points explored in random order)."""
    import random
    from problog.engine_stack import StackBasedEngine, MessageAnyOrder

    rng = random.Random(seed)

    class RandomOrderQueue(MessageAnyOrder):
        def __init__(self, engine):
            MessageAnyOrder.__init__(self, engine)
            self.messages_rc = []
            self.messages_e = []

        def append(self, message):
            if message[0] == "e":
                self.messages_e.append(message)
            else:
                self.messages_rc.append(message)

        def pop(self):
            if self.messages_rc:
                return self.messages_rc.pop(-1)
            else:
                i = rng.randrange(len(self.messages_e))
                return self.messages_e.pop(i)

        def __nonzero__(self):
            return bool(self.messages_e) or bool(self.messages_rc)

        def __bool__(self):
            return bool(self.messages_e) or bool(self.messages_rc)

        def __len__(self):
            return len(self.messages_e) + len(self.messages_rc)

        def __iter__(self):
            return iter(self.messages_e + self.messages_rc)

    class RandomOrderEngine(StackBasedEngine):
        def __init__(self, **kwdargs):
            kwdargs["unbuffered"] = True
            StackBasedEngine.__init__(self, **kwdargs)

        def init_message_stack(self):
            return RandomOrderQueue(self)

    return RandomOrderEngine(**kw)


def canon_results(val):
    """Canonical observation of a result dict: instances reported with probability 0 and non-ground names are the same
    observation as unreported instances."""
    out = {}
    for k, g in val.items():
        nonground = ("(" in k) and any(c.isupper() or c == "_" for c in k.split("(", 1)[-1])
        if nonground and g == 0:
            continue
        out[k] = g
    return out


def compare(P, sem, run, tag, ctx=None, extra_sig=None):
    """List of (what, signature) for one run against the specification result."""
    out = []
    kind, val = run
    if sem is None or sem["undef"] > 0:
        return out
    if kind == "error":
        stage, name, site = val[0], val[1], val[2]
        if name == "InconsistentEvidenceError":
            if sem["z"] != 0:
                out.append(("%s: InconsistentEvidenceError although P(evidence) = %s" % (tag, sem["z"]),
                            {"kind": "wrong-inconsistent"}))
        elif name == "Timeout":
            if ctx is not None:
                ctx.count("timeout")
        else:
            out.append(("%s: %s raised at %s" % (tag, name, site),
                        {"kind": "exception", "exc": name, "site": site, "spec_negcycle": sem["negcycle"],
                         "f1_shape": spine.f1_condition(P)}))
    elif sem["z"] == 0:
        out.append(("%s: answered %s although P(evidence) = 0" % (tag, val), {"kind": "missing-inconsistent"}))
    else:
        probs = sem["probs"]
        val = canon_results(val)
        for k, v in probs.items():
            g = val.get(k)
            if g is None:
                if v != 0:
                    out.append(("%s: %s not reported but has probability %s" % (tag, k, v), {"kind": "unreported"}))
            elif not close(g, v):
                out.append(("%s: %s reported %r, distribution semantics gives %s = %r" % (tag, k, g, v, float(v)),
                            {"kind": "wrong-probability"}))
        for k, g in val.items():
            if k not in probs:
                out.append(("%s: reported %s = %r which is not an instance of any query" % (tag, k, g),
                            {"kind": "spurious-instance"}))
    for w, s in out:
        s["tag"] = tag.split("#")[0]
        if extra_sig:
            s.update(extra_sig)
    return out


def spec_batch(drv, progs):
    lines, qis = [], []
    for P in progs:
        line, qinst = spine.sem_line(P)
        lines.append(line)
        qis.append(qinst)
    outs = drv.run(lines)
    return [spine.parse_sem(o, q) for o, q in zip(outs, qis)]


def same_failure(a, b):
    return a["kind"] == b["kind"] and a.get("exc") == b.get("exc") and a.get("site") == b.get("site")
