"""Shared by C12 and C30: regeneration of lean/ProbLogModel/Generated/Semirings.lean from the CURRENT source at
lib.REPO (harness/py2lean), float <-> protocol helpers, and the grid of probability values."""
import math
import os
import struct
from fractions import Fraction

import lib
import py2lean

GENERATED = os.path.join(lib.LEAN, "ProbLogModel", "Generated", "Semirings.lean")


def regenerate(ctx, required=None):
    """Translate the semiring classes of lib.REPO; write the generated file only when its content changes.

    One obligation per translated item; an item outside the supported subset is a broken obligation.
    Returns (items, changed)."""
    try:
        with lib.LakeLock():
            text, items = py2lean.translate_semirings(lib.REPO)
            old = open(GENERATED).read() if os.path.exists(GENERATED) else None
            changed = old != text
            if changed:
                os.makedirs(os.path.dirname(GENERATED), exist_ok=True)
                tmp = GENERATED + ".tmp"
                open(tmp, "w").write(text)
                os.replace(tmp, GENERATED)
    except (OSError, SyntaxError) as e:  # source file missing / not parseable: nothing to translate
        ctx.obligation("py2lean: semiring sources of %s readable" % lib.REPO, False, "%s: %s" % (type(e).__name__, e))
        return {}, False
    bad = {k: v for k, v in items.items() if v is not None}
    want = required if required is not None else sorted(items)
    for k in want:
        if k not in items:
            ctx.obligation("py2lean translated %s" % k, False, "method not found in the source")
    ok = [k for k in want if items.get(k, "x") is None]
    ctx.obligation("py2lean translated %d methods of %d (generated file %s)" % (
        len(ok), len(want), "rewritten" if changed else "unchanged"), True, "")
    for k in want:
        if k in bad:
            ctx.obligation("py2lean translated %s" % k, False, bad[k])
    if changed:
        ctx.notes.append("Generated/Semirings.lean differed from the committed file and was regenerated from %s" % lib.REPO)
    return items, changed


# ---------------------------------------------------------------------------- driver output
def parse_sexp(s):
    toks, i, n = [], 0, len(s)
    while i < n:
        c = s[i]
        if c in "()":
            toks.append(c)
            i += 1
        elif c == " ":
            i += 1
        elif c == '"':
            j = i + 1
            buf = []
            while j < n and s[j] != '"':
                if s[j] == "\\":
                    j += 1
                    buf.append("\n" if s[j] == "n" else s[j])
                else:
                    buf.append(s[j])
                j += 1
            toks.append(("str", "".join(buf)))
            i = j + 1
        else:
            j = i
            while j < n and s[j] not in "() ":
                j += 1
            toks.append(s[i:j])
            i = j

    def rd(k):
        if toks[k] == "(":
            out = []
            k += 1
            while toks[k] != ")":
                v, k = rd(k)
                out.append(v)
            return out, k + 1
        return toks[k], k + 1

    v, k = rd(0)
    if k != len(toks):
        raise lib.Infra("driver output not one expression: " + s)
    return v



# ---------------------------------------------------------------------------- floats on the wire
def fbits(x):
    """IEEE-754 bits of a Python float as a decimal UInt64 (exact transport to Lean's Float.ofBits)."""
    return str(struct.unpack("<Q", struct.pack("<d", float(x)))[0])


def unbits(s):
    return struct.unpack("<d", struct.pack("<Q", int(s)))[0]


def fclose(a, b, tol=1e-9):
    """Float agreement with tolerance; infinities and NaN must match exactly."""
    if math.isnan(a) or math.isnan(b):
        return math.isnan(a) and math.isnan(b)
    if math.isinf(a) or math.isinf(b):
        return a == b
    return abs(a - b) <= tol * max(1.0, abs(a), abs(b))


def safe_exp(x):
    """math.exp without OverflowError (a wrong implementation may hand us anything)."""
    try:
        return math.exp(x)
    except OverflowError:
        return float("inf")


def frac(text):
    return Fraction(text)


def prob_grid(rng, n_random=6):
    """Decimal texts of probabilities: 0, 1, tiny, near-boundary values, 0.5 and random rationals."""
    g = ["0", "1", "1e-300", "1e-12", "0.999999999999", "0.5", "1e-9", "0.25", "0.75", "0.999999", "0.99999999", "1e-6",
         "1e-8"]
    for _ in range(n_random):
        d = rng.choice([1, 2, 3, 6])
        g.append(("%%.%df" % d) % rng.random())
    return g
