"""C16 — specification oracle in Python: what ISO 13211-1 / SWI-Prolog 7+ / YAP 6 give for `is/2` and for the listed
builtins.  Written from the standard and the two manuals, independently of ProbLog's code and of the Lean model.

Arithmetic: `arith(name, args)` returns a list of acceptable outcomes, or `None` when the reference behaviour is a
type error / implementation defined / differs in a way not worth pinning (then any number or any ProbLog error is
accepted, but never a raw Python exception).  Outcomes: ("I", int), ("F", float), ("E",) (= Prolog raises an
evaluation/type error, so ProbLog must raise a ProbLog error).  Where SWI and YAP differ every reading is listed.
"""
import math

E = ("E",)


def I(n):
    return ("I", int(n))


def F(x):
    return ("F", float(x))


def isint(x):
    return type(x) is int


def trunc_div(a, b):
    """integer quotient truncating toward zero (ISO 9.1.3, integer_rounding_function = toward_zero)"""
    q = abs(a) // abs(b)
    return q if (a >= 0) == (b >= 0) else -q


def floor_div(a, b):
    """floor of the rational a/b, by search from the truncated quotient"""
    q = trunc_div(a, b)
    if q * b != a and ((a < 0) != (b < 0)):
        q -= 1
    return q


def twos(a, b, op):
    """bit operation on infinite two's complement, via a finite width that holds both operands"""
    w = max(a.bit_length(), b.bit_length()) + 2
    m = (1 << w) - 1
    r = op(a & m, b & m) & m
    return r - (1 << w) if r >> (w - 1) else r


def trunc_f(x):
    return math.floor(x) if x >= 0 else math.ceil(x)


def round_away(x):
    f = math.floor(abs(x))
    r = f + 1 if abs(x) - f >= 0.5 else f
    return r if x >= 0 else -r


def round_even(x):
    f = math.floor(x)
    d = x - f
    if d < 0.5:
        return f
    if d > 0.5:
        return f + 1
    return f if f % 2 == 0 else f + 1


def fl(x):
    try:
        return float(x)
    except OverflowError:
        return None


def _pow(a, b, caret):
    if isint(a) and isint(b):
        if b >= 0:
            v = a ** b
            out = [I(v)]
            if not caret and fl(v) is not None:
                out.append(F(fl(v)))          # ISO/YAP `**`: float
            return out
        if a == 0:
            return [E]
        if a in (1, -1):
            return [I(a ** (-b)), F(float(a) ** b)]
        return [F(float(a) ** b), E]          # SWI default: float; ISO `^`: type error
    try:
        return [F(math.pow(a, b))]
    except (ValueError, OverflowError, ZeroDivisionError):
        return [E]


MATH1 = {"exp": math.exp, "log": math.log, "log10": math.log10, "sqrt": math.sqrt, "sin": math.sin, "cos": math.cos,
         "tan": math.tan, "asin": math.asin, "acos": math.acos, "atan": math.atan, "sinh": math.sinh, "cosh": math.cosh,
         "tanh": math.tanh, "asinh": math.asinh, "acosh": math.acosh, "atanh": math.atanh, "lgamma": math.lgamma,
         "gamma": math.gamma, "erf": math.erf, "erfc": math.erfc}


def arith(name, args):
    n = len(args)
    if n == 0:
        return {"pi": [F(math.pi)], "e": [F(math.e)], "epsilon": [F(2.0 ** -52)], "inf": [F(float("inf"))],
                "nan": [F(float("nan"))]}.get(name)
    ints = all(isint(a) for a in args)
    if any(type(a) is float and (a != a or a in (float("inf"), float("-inf"))) for a in args):
        return None                                    # non-finite arguments: not specified here
    if n == 2:
        a, b = args
        if name in ("+", "-", "*"):
            if ints:
                return [I({"+": a + b, "-": a - b, "*": a * b}[name])]
            x, y = fl(a), fl(b)
            if x is None or y is None:
                return None
            return [F({"+": x + y, "-": x - y, "*": x * y}[name])]
        if name == "/":
            if ints:
                if b == 0:
                    return [E]
                out = [F(a / b)]                      # ISO, YAP, SWI iso=true
                if a % b == 0:
                    out.append(I(trunc_div(a, b)))    # SWI default (iso=false)
                return out
            if b == 0:
                return [E, F(float("inf")), F(float("-inf")), F(float("nan"))]   # float_zero_div flag / YAP
            x, y = fl(a), fl(b)
            if x is None or y is None:
                return None
            return [F(x / y)]
        if name == "//":
            if not ints:
                return None                            # type_error(integer, _)
            return [E] if b == 0 else [I(trunc_div(a, b))]
        if name == "div":
            if not ints:
                return None
            return [E] if b == 0 else [I(floor_div(a, b))]
        if name == "mod":
            if not ints:
                return None
            return [E] if b == 0 else [I(a - floor_div(a, b) * b)]
        if name == "rem":
            if not ints:
                return None
            if b == 0:
                return [E]
            return [I(a - trunc_div(a, b) * b), I(a - floor_div(a, b) * b)]  # ISO; documented deviation: as mod
        if name in ("min", "max"):
            if a == b and type(a) is not type(b):
                return None                            # implementation dependent (Cor.2)
            pick = (a if a <= b else b) if name == "min" else (b if a <= b else a)
            if a == b:
                pick = a
            return [I(pick) if isint(pick) else F(pick)]
        if name in ("/\\", "\\/", "xor", "#", "><"):
            if not ints:
                return None
            op = {"/\\": lambda x, y: x & y, "\\/": lambda x, y: x | y}.get(name, lambda x, y: x ^ y)
            return [I(twos(a, b, op))]
        if name == "<<":
            if not ints or b < 0:
                return None
            return [I(a * 2 ** b)]
        if name == ">>":
            if not ints or b < 0:
                return None
            return [I(floor_div(a, 2 ** b))]
        if name == "**":
            return _pow(a, b, False)
        if name == "^":
            return _pow(a, b, True)
        if name == "exp":
            r = _pow(fl(a), fl(b), False) if fl(a) is not None and fl(b) is not None else None
            return r
        if name in ("atan", "atan2"):
            x, y = fl(a), fl(b)
            if x is None or y is None:
                return None
            if x == 0 and y == 0:
                return None                            # atan2(0,0): undefined in ISO, 0.0 in C
            return [F(math.atan2(x, y))]
        return None
    if n == 1:
        a = args[0]
        if name == "+":
            return [I(a) if isint(a) else F(a)]
        if name == "-":
            return [I(-a) if isint(a) else F(-a)]
        if name == "abs":
            return [I(abs(a)) if isint(a) else F(abs(a))]
        if name == "sign":
            s = (a > 0) - (a < 0)
            return [I(s) if isint(a) else F(float(s))]    # the type is kept (ISO Cor.2, SWI, YAP)
        if name == "\\":
            return [I(-a - 1)] if isint(a) else None
        if name == "float":
            return [F(fl(a))] if fl(a) is not None else [E]
        if name == "integer":
            if isint(a):
                return [I(a)]
            return [I(round_away(a)), I(trunc_f(a))]      # SWI: nearest; YAP: toward zero
        if name in ("truncate", "floor", "ceiling", "round"):
            if isint(a):
                return [I(a)]
            if name == "truncate":
                return [I(trunc_f(a))]
            if name == "floor":
                return [I(math.floor(a))]
            if name == "ceiling":
                return [I(math.ceil(a))]
            return [I(round_away(a)), I(round_even(a)), I(math.floor(a + 0.5))]   # SWI; YAP (rint); ISO formula
        if name == "float_integer_part":
            return None if isint(a) else [F(float(trunc_f(a)))]
        if name == "float_fractional_part":
            return None if isint(a) else [F(a - trunc_f(a))]
        if name in MATH1:
            x = fl(a)
            if x is None:
                return None
            try:
                return [F(MATH1[name](x))]
            except (ValueError, OverflowError):
                return [E]
        return None
    return None


def cmp(name, a, b):
    """arithmetic comparison of two numbers (exact)"""
    return {"<": a < b, "=<": a <= b, ">": a > b, ">=": a >= b, "=:=": a == b, "=\\=": a != b}[name]


# ---------------------------------------------------------------------------------------------- terms and builtins
# Terms: ("v", id) | ("i", n) | ("f", x) | ("a", name) | ("c", name, [args]) ; lists are '.'/2 and '[]'.
NIL = ("a", "[]")


def mklist(xs, tail=NIL):
    t = tail
    for x in reversed(xs):
        t = ("c", ".", [x, t])
    return t


def is_var(t):
    return t[0] == "v"


def kind(t):
    return {"v": "var", "i": "integer", "f": "float", "a": "atom", "c": "compound"}[t[0]]


def list_parts(t):
    """(elements, tail)"""
    xs = []
    while t[0] == "c" and t[1] == "." and len(t[2]) == 2:
        xs.append(t[2][0])
        t = t[2][1]
    return xs, t


def ground(t):
    if t[0] == "v":
        return False
    if t[0] == "c":
        return all(ground(x) for x in t[2])
    return True


def type_test(name, t):
    k = kind(t)
    if name == "var":
        return k == "var"
    if name == "nonvar":
        return k != "var"
    if name == "atom":
        return k == "atom"
    if name == "number":
        return k in ("integer", "float")
    if name == "atomic":
        return k in ("atom", "integer", "float")
    if name == "integer":
        return k == "integer"
    if name == "float":
        return k == "float"
    if name == "compound":
        return k == "compound"
    if name == "callable":
        return k in ("atom", "compound")
    if name == "ground":
        return ground(t)
    if name == "is_list":
        xs, tail = list_parts(t)
        return tail == NIL
    raise KeyError(name)


ERR = "ERR"     # Prolog raises an error (or the mode is not one ProbLog documents): any ProbLog error is fine


def builtin(name, args, fresh):
    """Returns (accepted, supported): `accepted` is a list of acceptable results, each either ERR or a list of
    solution tuples; `supported` says the call is in a mode ProbLog supports, so an error is NOT acceptable unless
    listed.  `fresh(k)` makes k fresh distinct variables."""
    if name == "between":
        l, h, v = args
        if l[0] == "i" and h[0] == "i" and v[0] == "i":
            return [[[l, h, v]] if l[1] <= v[1] <= h[1] else []], True
        if l[0] == "i" and h[0] == "i" and is_var(v):
            return [[[l, h, ("i", k)] for k in range(l[1], h[1] + 1)]], True
        return [ERR], False
    if name == "succ":
        a, b = args
        if is_var(a) and b[0] == "i":
            if b[1] > 0:
                return [[[("i", b[1] - 1), b]]], True
            return ([[]] if b[1] == 0 else [[], ERR]), True      # succ(X, 0) fails; negative: error (SWI) / fail
        if a[0] == "i" and is_var(b):
            return ([[[a, ("i", a[1] + 1)]]] if a[1] >= 0 else [[], ERR]), True
        if a[0] == "i" and b[0] == "i":
            if a[1] < 0 or b[1] < 0:
                return [[], ERR], True
            return [[[a, b]] if b[1] == a[1] + 1 else []], True
        return [ERR], False
    if name == "plus":
        a, b, c = args
        ks = [x[0] for x in args]
        if ks == ["i", "i", "i"]:
            return [[[a, b, c]] if a[1] + b[1] == c[1] else []], True
        if ks == ["i", "i", "v"]:
            return [[[a, b, ("i", a[1] + b[1])]]], True
        if ks == ["i", "v", "i"]:
            return [[[a, ("i", c[1] - a[1]), c]]], True
        if ks == ["v", "i", "i"]:
            return [[[("i", c[1] - b[1]), b, c]]], True
        return [ERR], False
    if name == "length":
        l, n = args
        xs, tail = list_parts(l)
        if tail == NIL:
            if is_var(n):
                return [[[l, ("i", len(xs))]]], True
            if n[0] == "i":
                if n[1] < 0:
                    return [[], ERR], True
                return [[[l, n]] if n[1] == len(xs) else []], True
            return [ERR], False
        if is_var(tail) and n[0] == "i":
            if n[1] < len(xs):
                return ([[]] if n[1] >= 0 else [[], ERR]), True
            return [[[mklist(xs + fresh(n[1] - len(xs))), n]]], True
        if is_var(tail):
            return [ERR], False            # unbounded: documented as not allowed
        return [[], ERR], False            # not a list: type error (SWI) / failure (YAP)
    if name == "functor":
        t, f, a = args
        if not is_var(t):
            ft, at = (("a", t[1]), ("i", len(t[2]))) if t[0] == "c" else (t, ("i", 0))
            ok = (is_var(f) or f == ft) and (is_var(a) or a == at)
            return [[[t, ft, at]] if ok else []], True
        if f[0] == "a" and a[0] == "i" and a[1] >= 0:
            return [[[("c", f[1], fresh(a[1])) if a[1] > 0 else f, f, a]]], True
        if f[0] in ("i", "f") and a == ("i", 0):
            return [[[f, f, a]], ERR], False
        return [ERR], False
    if name == "arg":
        n, t, a = args
        if n[0] == "i" and t[0] == "c":
            if 1 <= n[1] <= len(t[2]):
                x = t[2][n[1] - 1]
                if is_var(a):
                    return [[[n, t, x]]], True
                if ground(a) and ground(x):
                    return [[[n, t, x]] if a == x else []], True
                return None, False
            return [[]], True
        if n[0] == "i" and not is_var(t):
            return [[], ERR], True         # type_error(compound, T) in SWI, failure in YAP
        return [ERR], False
    if name == "=..":
        t, l = args
        if not is_var(t):
            parts = mklist([("a", t[1])] + t[2]) if t[0] == "c" else mklist([t])
            if is_var(l):
                return [[[t, parts]]], True
            if ground(l) and ground(t):
                return [[[t, parts]] if l == parts else []], True
            return None, False
        xs, tail = list_parts(l)
        if tail != NIL or not xs:
            return [ERR], False
        if len(xs) == 1:
            if xs[0][0] == "c":
                return [ERR], False
            return [[[xs[0], l]]], True
        if xs[0][0] != "a":
            return [ERR], True
        return [[[("c", xs[0][1], xs[1:]), l]]], True
    raise KeyError(name)


import re
INT_RE = re.compile(r"^-?\d+$")
FLOAT_RE = re.compile(r"^-?\d+\.\d+([eE][+-]?\d+)?$")
WORD_RE = re.compile(r"^[a-z][a-z_]*$")


def atom_number(args):
    a, n = args
    if a[0] == "a":
        text = a[1]
        if INT_RE.match(text):
            val = ("i", int(text))
        elif FLOAT_RE.match(text):
            val = ("f", float(text))
        elif WORD_RE.match(text) and text not in ("inf", "nan", "infinity", "e", "pi", "epsilon"):
            val = None
        else:
            return None, False                 # syntax on which the systems differ (1e3, 0x1A, inf, ' 12' …)
        if is_var(n):
            return [[[a, val]] if val is not None else []], True
        if n[0] in ("i", "f"):
            return [[[a, n]] if val == n else []], True
        return [ERR], False
    if is_var(a) and n[0] == "i":
        return [[[("a", str(n[1])), n]]], True
    if is_var(a) and n[0] == "f":
        return [[[("a", repr(n[1])), n]]], True
    return [ERR], False
