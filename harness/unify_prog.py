"""Program-level unification cases for C14: build a ProbLog program + query from a pair of harness terms, run it on
the real engine, and judge the answers against the reference Robinson unifier (unify_util.ref_unify).

A *case* is a dict {"mode": eq|neq|fact|clause, "t1": term, "t2": term, ...}; everything else is derived."""
from unify_util import (variables, freshen, rename, to_prolog, ref_unify, resolve, canon, instance_of,
                        identify_all_vars, from_engine, show)


def to_query(t):
    """Harness term -> problog Term with Var objects (None for anonymous), as a user would pass to engine.query."""
    from problog.logic import Term, Constant, Var
    k = t[0]
    if k == 'v':
        return Var(t[1])
    if k == '_':
        return None
    if k == 'a':
        return Term(t[1])
    if k == 'i':
        return Constant(t[1])
    if k == 'f':
        return Constant(float(t[1]))
    if k == 's':
        return Constant('"%s"' % t[1])
    return Term(t[1], *[to_query(a) for a in t[2]])


def head_text(name, args):
    return '%s(%s)' % (name, ','.join(args)) if args else name


def build(case, idx=0):
    """-> (program text, query Term, equation system for the reference, output terms)."""
    from problog.logic import Term
    mode, t1, t2 = case['mode'], case['t1'], case['t2']
    c = [0]
    q, p = 'q%d' % idx, 'p%d' % idx
    if mode in ('eq', 'neq'):
        vs = variables(('c', 'p', (t1, t2)))
        if mode == 'eq':
            src = '%s :- %s = %s.' % (head_text(q, vs), to_prolog(t1), to_prolog(t2))
            return src, Term(q, *[None] * len(vs)), [(freshen(t1, c), freshen(t2, c))], tuple(('v', v) for v in vs)
        src = '%s :- %s \\= %s.' % (q, to_prolog(t1), to_prolog(t2))
        return src, Term(q), [(freshen(t1, c), freshen(t2, c))], ()
    hren = lambda v: 'H' + v
    if mode == 'fact':
        # p(T1).  query(p(T2)).   (spread: arguments of equal-signature compounds become the predicate's arguments)
        if case.get('spread') and t1[0] == 'c' and t2[0] == 'c' and t1[1] == t2[1] and len(t1[2]) == len(t2[2]):
            a1, a2 = t1[2], t2[2]
        else:
            a1, a2 = (t1,), (t2,)
        src = '%s.' % head_text(p, [to_prolog(a) for a in a1])
        a2f = tuple(freshen(a, c) for a in a2)
        system = [(rename(freshen(x, c), hren), y) for x, y in zip(a1, a2f)]
        # anonymous variables of the query are given distinct names, as the parser does for `query(p(_,_))`
        return src, Term(p, *[to_query(a) for a in a2f]), system, a2f
    if mode == 'clause':
        # p(T1) :- HV = hc.     q(Vs) :- p(T2), CV = cc.     query(q(_,..)).
        parts = [t2] + ([('v', case['cv']), case['cc']] if case.get('cv') else [])
        vs = variables(('c', 'p', tuple(parts)))
        body1 = 'true'
        system = [(rename(freshen(t1, c), hren), freshen(t2, c))]
        if case.get('hv'):
            body1 = '%s = %s' % (case['hv'], to_prolog(case['hc']))
            system.append((('v', hren(case['hv'])), rename(freshen(case['hc'], c), hren)))
        body2 = '%s(%s)' % (p, to_prolog(t2))
        if case.get('cv'):
            body2 += ', %s = %s' % (case['cv'], to_prolog(case['cc']))
            system.append((('v', case['cv']), freshen(case['cc'], c)))
        src = '%s(%s) :- %s.\n%s :- %s.' % (p, to_prolog(t1), body1, head_text(q, vs), body2)
        return src, Term(q, *[None] * len(vs)), system, tuple(('v', v) for v in vs)
    raise ValueError(mode)


def case_text(case):
    src, qt, system, outs = build(case)
    return '%s  ?- %s' % (src.replace('\n', ' '), qt)


class Runner:
    """Runs batches of (program clause, query) on one engine; a fresh engine after every exception."""

    def __init__(self):
        from problog.engine import DefaultEngine
        from problog.program import PrologString
        from problog.engine_unify import OccursCheck
        self.DefaultEngine, self.PrologString, self.OccursCheck = DefaultEngine, PrologString, OccursCheck

    def run(self, srcs, queries):
        text = '\n'.join(srcs)
        eng = self.DefaultEngine()
        db = eng.prepare(self.PrologString(text))
        out = []
        for qt in queries:
            try:
                res = eng.query(db, qt)
                out.append(('ans', [tuple(from_engine(a) for a in r) for r in res]))
                continue
            except self.OccursCheck:
                out.append(('OccursCheck', None))
            except RecursionError:
                out.append(('error', 'RecursionError'))
            except Exception as e:  # any other escape is judged by `judge`
                out.append(('error', type(e).__name__))
            # the engine object is unusable after an exception (its stack is not reset); the compiled database is fine
            eng = self.DefaultEngine()
            db = eng.prepare(db)
        return out


def occurs_situation(system):
    """Does Robinson's algorithm meet an occurs-check failure anywhere, when it skips failing equations and goes on?"""
    from unify_util import walk, occurs, atom_key, leaf_key
    s = {}
    todo = list(reversed(system))
    while todo:
        a, b = todo.pop()
        a, b = walk(a, s), walk(b, s)
        if a[0] == 'v' and b[0] == 'v' and a[1] == b[1]:
            continue
        if a[0] == 'v' or b[0] == 'v':
            if a[0] != 'v':
                a, b = b, a
            if occurs(a[1], b, s):
                return True
            s[a[1]] = b
        elif a[0] == 'c' and b[0] == 'c' and atom_key(a[1]) == atom_key(b[1]) and len(a[2]) == len(b[2]):
            for x, y in reversed(list(zip(a[2], b[2]))):
                todo.append((x, y))
    return False


def judge(case, res, system, outs):
    """None if the engine's result is what the property demands, else (kind, detail)."""
    r, s = ref_unify(system)
    mode = case['mode']
    if res[0] == 'error':
        if res[1] == 'RecursionError' and r != 'ok' and occurs_situation(system):
            return None  # "fails or raises an error": a RecursionError on a cyclic structure is an error
        return 'engine raised %s' % res[1], ''
    if mode == 'neq':
        if res[0] == 'OccursCheck':
            return None if r != 'ok' else ('OccursCheck raised though the terms are unifiable', '')
        succeeded = bool(res[1])
        if r == 'ok':
            return ('\\= succeeds though the terms are unifiable', '') if succeeded else None
        if r == 'clash':
            return None if succeeded else ('\\= fails though the terms are not unifiable', '')
        # occurs: = must fail or raise; so \= succeeds or raises. (\= failing means = "succeeded" cyclically.)
        return None if succeeded else ('\\= fails though unification needs an occurs-check violation', '')
    if r != 'ok':
        if res[0] == 'OccursCheck' or not res[1]:
            return None
        got = [tuple(show(x) for x in a) for a in res[1]]
        if r == 'occurs':
            return 'success where unification needs an occurs-check violation', 'answers %s' % got
        return 'success though the terms are not unifiable', 'answers %s' % got
    exp = canon(tuple(resolve(o, s) for o in outs))
    exp_txt = '(%s)' % ','.join(show(resolve(o, s)) for o in outs)
    if res[0] == 'OccursCheck':
        return 'OccursCheck raised though the terms are unifiable', 'mgu instance %s' % exp_txt
    if len(res[1]) == 0:
        return 'fails though the terms are unifiable', 'mgu instance %s' % exp_txt
    if len(res[1]) > 1:
        return 'more than one answer', 'answers %s' % [tuple(show(x) for x in a) for a in res[1]]
    got = canon(res[1][0])
    if got == exp:
        return None
    got_txt = '(%s)' % ','.join(show(x) for x in res[1][0])
    detail = 'answer %s, mgu instance %s' % (got_txt, exp_txt)
    if instance_of(got, exp):
        if identify_all_vars(got) == identify_all_vars(exp):
            return 'answer more general than mgu, equal after identifying variables', detail
        return 'answer more general than mgu', detail
    if instance_of(exp, got):
        return 'answer more specific than mgu', detail
    return 'answer is not an instance of the mgu instance', detail


def run_cases(runner, cases, batch=40):
    """-> list of (case, verdict) with verdict None or (kind, detail)."""
    out = []
    for i in range(0, len(cases), batch):
        chunk = cases[i:i + batch]
        built = [build(c, j) for j, c in enumerate(chunk)]
        res = runner.run([b[0] for b in built], [b[1] for b in built])
        for c, b, r in zip(chunk, built, res):
            out.append((c, judge(c, r, b[2], b[3]), r))
    return out
