"""Helpers for C23: instrumented runs of the k-best evaluator and of the explain task."""
import copy
import re

import spine
import mpe_util as mu


def run_kbest(src, explain=False, timeout=40, max_calls=400):
    """-> dict(status, results {name: float | (lo, hi)}, queries [per evaluated node: index, result, calls], dag, exc...).
    Every `Border.update` is recorded: border name, WCNF text and solver answer, translated solution, value."""
    from problog.program import PrologString
    from problog.formula import LogicFormula, LogicDAG
    from problog.engine import DefaultEngine
    import problog.kbest as kb
    out = {"queries": [], "explanation": None}
    state = {"cur": None, "last_call": None, "ncalls": 0}

    orig_gs, orig_update, orig_eval = kb.get_solver, kb.Border.update, kb.KBestEvaluator.evaluate

    def gs(prefer=None):
        real = orig_gs(prefer)

        class RecSolver(object):
            def evaluate(self, formula, **kwargs):
                state["ncalls"] += 1
                if state["ncalls"] > max_calls:
                    raise KeyboardInterrupt()
                entry = {"clauses": [list(c) for c in formula.clauses], "atomcount": formula.atomcount,
                         "logw": mu.ser_wcnf(formula)[1], "kwargs": dict(kwargs),
                         "text": real.prepare_input(formula, **kwargs), "raw": None}
                state["last_call"] = entry
                entry["raw"] = list(real.evaluate(formula, **kwargs))
                return entry["raw"]
        return RecSolver()

    def upd(self):
        state["last_call"] = None
        sol = orig_update(self)
        call = state["last_call"] or {}
        call.update(border=self.name, solution=None if sol is None else list(sol), value=self.value,
                    improvement=self.improvement)
        if state["cur"] is not None:
            state["cur"]["calls"].append(call)
        return sol

    def ev(self, index):
        q = {"index": index, "calls": [], "result": None}
        state["cur"] = q
        out["queries"].append(q)
        try:
            q["result"] = orig_eval(self, index)
        finally:
            state["cur"] = None
        return q["result"]

    def body():
        if explain:
            db = DefaultEngine().prepare(PrologString(src))
            cnf = kb.KBestFormula.create_from(db, label_all=True)
            out["dag"] = None
            expl = []
            res = cnf.evaluate(explain=expl)
            out["explanation"] = expl
        else:
            lf = LogicFormula.create_from(PrologString(src))
            dag = LogicDAG.create_from(lf)
            out["dag"] = dag
            cnf = kb.KBestFormula.create_from(dag)
            res = cnf.evaluate()
        out["cnf"] = cnf
        return {str(k): v for k, v in res.items()}
    kb.get_solver, kb.Border.update, kb.KBestEvaluator.evaluate = gs, upd, ev
    try:
        out["results"] = spine.with_timeout(timeout, body)
        out["status"] = "ok"
    except spine.Timeout:
        out.update(status="error", exc="Timeout", site="")
    except Exception as e:
        out.update(status="error", exc=type(e).__name__, site=mu.site_of(e), msg=str(e)[:200])
    finally:
        kb.get_solver, kb.Border.update, kb.KBestEvaluator.evaluate = orig_gs, orig_update, orig_eval
    return out


def ser_clauses(clauses):
    return "(clauses %s)" % " ".join("(%s %s)" % (mu.head_s(c[0]), " ".join(str(x) for x in c[1:])) for c in clauses)


def parse_explanation(lines):
    """-> {query name: (sum of proof probabilities, number of proofs)}; `name :- fail.` = 0, `name :- true.` = 1."""
    sums = {}
    for l in lines:
        if not l.strip():
            continue
        m = re.match(r"(.*?) :- (.*)\.  % P=([0-9.eE+-]+)$", l)
        if m:
            s, n = sums.get(m.group(1), (0.0, 0))
            sums[m.group(1)] = (s + float(m.group(3)), n + 1)
            continue
        m = re.match(r"(.*?) :- (fail|true)\.$", l)
        if m:
            s, n = sums.get(m.group(1), (0.0, 0))
            sums[m.group(1)] = (s + (1.0 if m.group(2) == "true" else 0.0), n)
    return sums


def ext_weight(g, sol, worlds):
    """Total weight of the worlds (list of (w, true atoms, node values)) extending the literal list `sol`."""
    return sum(w for (w, true, val) in worlds if all((abs(l) in true) == (l > 0) for l in sol))


def load_program(obj):
    """A program dict read back from a JSON replay (lists -> tuples, probabilities -> Fraction)."""
    from fractions import Fraction

    def tup(x):
        return tuple(tup(y) for y in x) if isinstance(x, list) else x

    def stmt(s):
        s = list(s)
        if s[0] in ("pf", "prule"):
            s[1] = Fraction(s[1])
        if s[0] == "ad":
            s[1] = [(Fraction(p), tup(h)) for p, h in s[1]]
            s[2] = [tup(b) for b in s[2]]
            return tuple(s)
        if s[0] == "rule":
            return (s[0], tup(s[1]), [tup(b) for b in s[2]])
        if s[0] == "prule":
            return (s[0], s[1], tup(s[2]), [tup(b) for b in s[3]])
        return tuple(tup(x) for x in s)
    return dict(consts=list(obj["consts"]), preds={k: tuple(v) for k, v in obj["preds"].items()},
                stmts=[stmt(s) for s in obj["stmts"]], queries=[tup(q) for q in obj["queries"]],
                evidence=[(tup(a), bool(v)) for a, v in obj["evidence"]])


def ground_text_to_sem(text):
    """A ground ProbLog text (as written by to_prolog) as a `SEM` driver line: -> (line, [query names]) or None.
    Every probabilistic fact / annotated clause is an independent choice, an annotated disjunction one group."""
    from fractions import Fraction
    from problog.program import PrologString
    from problog.logic import Clause, AnnotatedDisjunction, Not, And, Or, Term
    from lib import rat
    try:
        stmts = list(PrologString(text))
    except Exception:
        return None
    atoms, rules, groups, queries, evidence = {}, [], [], [], []

    def aid(t):
        k = str(t.with_probability(None)) if isinstance(t, Term) else str(t)
        if k not in atoms:
            atoms[k] = len(atoms)
        return atoms[k]

    def conj(b):
        if isinstance(b, And):
            return conj(b.op1) + conj(b.op2)
        return [b]

    def lits(b):
        pos, neg = [], []
        for l in ([] if b is None else conj(b)):
            if isinstance(l, Not):
                neg.append(aid(l.child))
            elif isinstance(l, Or):
                return None
            elif str(l) in ("true",):
                continue
            elif str(l) in ("fail", "false"):
                pos.append(aid(Term("$fail")))
            else:
                pos.append(aid(l))
        return pos, neg
    nch = 0
    for st in stmts:
        if isinstance(st, Clause):
            heads, body = [st.head], st.body
        elif isinstance(st, AnnotatedDisjunction):
            heads, body = list(st.heads), st.body
        elif isinstance(st, Or):
            heads, body = [], None
            x = st
            while isinstance(x, Or):
                heads.append(x.op1)
                x = x.op2
            heads.append(x)
        else:
            heads, body = [st], None
        if len(heads) == 1 and heads[0].functor == "query" and body is None:
            queries.append(heads[0].args[0])
            continue
        if len(heads) == 1 and heads[0].functor == "evidence" and body is None:
            a = heads[0].args
            if len(a) == 2:
                evidence.append((a[0], str(a[1]) == "true"))
            elif isinstance(a[0], Not):
                evidence.append((a[0].child, False))
            else:
                evidence.append((a[0], True))
            continue
        pn = lits(body)
        if pn is None:
            return None
        grp = []
        for h in heads:
            if h.probability is None:
                rules.append((aid(h), pn[0], pn[1], None))
            else:
                try:
                    p = Fraction(str(float(h.probability)))
                except Exception:
                    return None
                rules.append((aid(h), pn[0], pn[1], nch))
                grp.append((p, nch))
                nch += 1
        if grp:
            groups.append(grp)
    qs = [aid(q) for q in queries]
    evs = [(aid(a), v) for a, v in evidence]
    rs = ["(%d (%s) (%s) %s)" % (h, " ".join(map(str, p)), " ".join(map(str, n)), "-" if c is None else c) for h, p, n, c in rules]
    gs = ["(%s)" % " ".join("(%s %d)" % (rat(p), c) for p, c in g) for g in groups]
    line = "SEM (prog %d %d (rules %s) (groups %s)) (%s) (%s)" % (
        len(atoms), nch, " ".join(rs), " ".join(gs), " ".join(map(str, qs)),
        " ".join("(%d %s)" % (a, "t" if v else "f") for a, v in evs))
    return line, [str(q) for q in queries]
