"""Helpers for C23: instrumented runs of the k-best evaluator and of the explain task."""
import copy
import re

import spine
import mpe_util as mu


def run_kbest(src, explain=False, timeout=40, max_calls=400):
    """-> dict(status, results {name: float | (lo, hi)}, queries [per evaluated node: index, result, calls], dag, exc...).
    Every `Border.update` is recorded: border name, WCNF text and solver answer, translated solution, value."""
    from problog.program import PrologString
    from problog.formula import LogicFormula, LogicDAG
    from problog.engine import DefaultEngine
    import problog.kbest as kb
    out = {"queries": [], "explanation": None}
    state = {"cur": None, "last_call": None, "ncalls": 0}

    orig_gs, orig_update, orig_eval = kb.get_solver, kb.Border.update, kb.KBestEvaluator.evaluate

    def gs(prefer=None):
        real = orig_gs(prefer)

        class RecSolver(object):
            def evaluate(self, formula, **kwargs):
                state["ncalls"] += 1
                if state["ncalls"] > max_calls:
                    raise KeyboardInterrupt()
                entry = {"clauses": [list(c) for c in formula.clauses], "atomcount": formula.atomcount,
                         "logw": mu.ser_wcnf(formula)[1], "kwargs": dict(kwargs),
                         "text": real.prepare_input(formula, **kwargs), "raw": None}
                state["last_call"] = entry
                entry["raw"] = list(real.evaluate(formula, **kwargs))
                return entry["raw"]
        return RecSolver()

    def upd(self):
        state["last_call"] = None
        sol = orig_update(self)
        call = state["last_call"] or {}
        call.update(border=self.name, solution=None if sol is None else list(sol), value=self.value,
                    improvement=self.improvement)
        if state["cur"] is not None:
            state["cur"]["calls"].append(call)
        return sol

    def ev(self, index):
        q = {"index": index, "calls": [], "result": None}
        state["cur"] = q
        out["queries"].append(q)
        try:
            q["result"] = orig_eval(self, index)
        finally:
            state["cur"] = None
        return q["result"]

    def body():
        if explain:
            db = DefaultEngine().prepare(PrologString(src))
            cnf = kb.KBestFormula.create_from(db, label_all=True)
            out["dag"] = None
            expl = []
            res = cnf.evaluate(explain=expl)
            out["explanation"] = expl
        else:
            lf = LogicFormula.create_from(PrologString(src))
            dag = LogicDAG.create_from(lf)
            out["dag"] = dag
            cnf = kb.KBestFormula.create_from(dag)
            res = cnf.evaluate()
        out["cnf"] = cnf
        return {str(k): v for k, v in res.items()}
    kb.get_solver, kb.Border.update, kb.KBestEvaluator.evaluate = gs, upd, ev
    try:
        out["results"] = spine.with_timeout(timeout, body)
        out["status"] = "ok"
    except spine.Timeout:
        out.update(status="error", exc="Timeout", site="")
    except Exception as e:
        out.update(status="error", exc=type(e).__name__, site=mu.site_of(e), msg=str(e)[:200])
    finally:
        kb.get_solver, kb.Border.update, kb.KBestEvaluator.evaluate = orig_gs, orig_update, orig_eval
    return out


def ser_clauses(clauses):
    return "(clauses %s)" % " ".join("(%s %s)" % (mu.head_s(c[0]), " ".join(str(x) for x in c[1:])) for c in clauses)


def parse_explanation(lines):
    """-> {query name: (sum of proof probabilities, number of proofs)}; `name :- fail.` = 0, `name :- true.` = 1."""
    sums = {}
    for l in lines:
        if not l.strip():
            continue
        m = re.match(r"(.*?) :- (.*)\.  % P=([0-9.eE+-]+)$", l)
        if m:
            s, n = sums.get(m.group(1), (0.0, 0))
            sums[m.group(1)] = (s + float(m.group(3)), n + 1)
            continue
        m = re.match(r"(.*?) :- (fail|true)\.$", l)
        if m:
            s, n = sums.get(m.group(1), (0.0, 0))
            sums[m.group(1)] = (s + (1.0 if m.group(2) == "true" else 0.0), n)
    return sums


def ext_weight(g, sol, worlds):
    """Total weight of the worlds (list of (w, true atoms, node values)) extending the literal list `sol`."""
    return sum(w for (w, true, val) in worlds if all((abs(l) in true) == (l > 0) for l in sol))


def load_program(obj):
    """A program dict read back from a JSON replay (lists -> tuples, probabilities -> Fraction)."""
    from fractions import Fraction

    def tup(x):
        return tuple(tup(y) for y in x) if isinstance(x, list) else x

    def stmt(s):
        s = list(s)
        if s[0] in ("pf", "prule"):
            s[1] = Fraction(s[1])
        if s[0] == "ad":
            s[1] = [(Fraction(p), tup(h)) for p, h in s[1]]
            s[2] = [tup(b) for b in s[2]]
            return tuple(s)
        if s[0] == "rule":
            return (s[0], tup(s[1]), [tup(b) for b in s[2]])
        if s[0] == "prule":
            return (s[0], s[1], tup(s[2]), [tup(b) for b in s[3]])
        return tuple(tup(x) for x in s)
    return dict(consts=list(obj["consts"]), preds={k: tuple(v) for k, v in obj["preds"].items()},
                stmts=[stmt(s) for s in obj["stmts"]], queries=[tup(q) for q in obj["queries"]],
                evidence=[(tup(a), bool(v)) for a, v in obj["evidence"]])
