"""Term layer, reference Robinson unifier and ProbLog program runners for C14 (harness/props/c14.py).

Harness terms are nested tuples:
  ('v', name)            named variable (name: str such as 'X', or int for engine-level variables)
  ('_',)                 anonymous variable (each occurrence is a fresh variable)
  ('a', text)            atom, text as written in Prolog (quoted atoms keep their quotes)
  ('i', n) ('f', x) ('s', text)   integer, float, string constant (text without the double quotes)
  ('c', functor, (args...))       compound term; lists are '.'/2 cells ending in the atom '[]'
"""
import itertools

NIL = ('a', '[]')


def cons(h, t):
    return ('c', '.', (h, t))


def is_var(t):
    return t[0] == 'v'


def size(t):
    return 1 + (sum(size(a) for a in t[2]) if t[0] == 'c' else 0)


def subterms(t):
    yield t
    if t[0] == 'c':
        for a in t[2]:
            for s in subterms(a):
                yield s


def variables(t, acc=None):
    """Named variables in first-occurrence order (left to right, depth first)."""
    acc = [] if acc is None else acc
    if t[0] == 'v':
        if t[1] not in acc:
            acc.append(t[1])
    elif t[0] == 'c':
        for a in t[2]:
            variables(a, acc)
    return acc


def has_anon(t):
    return any(s[0] == '_' for s in subterms(t))


def freshen(t, counter, prefix='_G'):
    """Replace every anonymous variable by a fresh named variable."""
    if t[0] == '_':
        counter[0] += 1
        return ('v', '%s%d' % (prefix, counter[0]))
    if t[0] == 'c':
        return ('c', t[1], tuple(freshen(a, counter, prefix) for a in t[2]))
    return t


def rename(t, f):
    if t[0] == 'v':
        return ('v', f(t[1]))
    if t[0] == 'c':
        return ('c', t[1], tuple(rename(a, f) for a in t[2]))
    return t


# ----------------------------------------------------------------------------- text
def atom_key(text):
    """Atoms are identified up to their quotes ('a' and a are the same atom)."""
    if len(text) >= 2 and text[0] == "'" and text[-1] == "'":
        return text[1:-1]
    return text


def to_prolog(t):
    k = t[0]
    if k == 'v':
        return str(t[1])
    if k == '_':
        return '_'
    if k == 'a':
        return t[1]
    if k == 'i':
        return str(t[1])
    if k == 'f':
        return repr(float(t[1]))
    if k == 's':
        return '"%s"' % t[1]
    if t[1] == '.' and len(t[2]) == 2:
        return list_text(t)
    return '%s(%s)' % (t[1], ','.join(to_prolog(a) for a in t[2]))


def list_text(t):
    items = []
    while t[0] == 'c' and t[1] == '.' and len(t[2]) == 2:
        items.append(to_prolog(t[2][0]))
        t = t[2][1]
    if t == NIL:
        return '[%s]' % ','.join(items)
    return '[%s|%s]' % (','.join(items), to_prolog(t))


# ----------------------------------------------------------------------------- reference Robinson unifier
class Occurs(Exception):
    pass


class Clash(Exception):
    pass


def walk(t, s):
    while t[0] == 'v' and t[1] in s:
        t = s[t[1]]
    return t


def occurs(v, t, s):
    t = walk(t, s)
    if t[0] == 'v':
        return t[1] == v
    if t[0] == 'c':
        return any(occurs(v, a, s) for a in t[2])
    return False


def leaf_key(t):
    if t[0] == 'a':
        return ('a', atom_key(t[1]))
    if t[0] == 'f':
        return ('f', float(t[1]))
    return t


def ref_unify(eqs, s=None):
    """Robinson on a list of equations (anonymous variables must have been freshened).

    Returns ('ok', subst) | ('clash', None) | ('occurs', None); subst is triangular (use `resolve`)."""
    s = dict(s or {})
    todo = list(reversed(eqs))
    while todo:
        a, b = todo.pop()
        a, b = walk(a, s), walk(b, s)
        if a[0] == 'v' and b[0] == 'v' and a[1] == b[1]:
            continue
        if a[0] == 'v':
            if occurs(a[1], b, s):
                return 'occurs', None
            s[a[1]] = b
        elif b[0] == 'v':
            if occurs(b[1], a, s):
                return 'occurs', None
            s[b[1]] = a
        elif a[0] == 'c' and b[0] == 'c':
            if atom_key(a[1]) != atom_key(b[1]) or len(a[2]) != len(b[2]):
                return 'clash', None
            for x, y in reversed(list(zip(a[2], b[2]))):
                todo.append((x, y))
        elif a[0] == 'c' or b[0] == 'c':
            return 'clash', None
        elif a[0] == '_' or b[0] == '_':
            raise ValueError('anonymous variable given to the reference unifier')
        elif leaf_key(a) != leaf_key(b):
            return 'clash', None
    return 'ok', s


def resolve(t, s):
    t = walk(t, s)
    if t[0] == 'c':
        return ('c', t[1], tuple(resolve(a, s) for a in t[2]))
    return t


def canon(ts):
    """Canonical form of a tuple of terms up to variable renaming: variables numbered by first occurrence;
    atoms without quotes; floats by value. Anonymous variables count as distinct variables."""
    m = {}
    n = [0]

    def go(t):
        k = t[0]
        if k == 'v':
            if t[1] not in m:
                m[t[1]] = len(m) + n[0]
            return ('v', m[t[1]])
        if k == '_':
            n[0] += 1
            return ('v', len(m) + n[0] - 1)
        if k == 'a':
            return ('a', atom_key(t[1]))
        if k == 'f':
            return ('f', float(t[1]))
        if k == 'c':
            return ('c', atom_key(t[1]), tuple(go(a) for a in t[2]))
        return t
    return tuple(go(t) for t in ts)


def show(t):
    k = t[0]
    if k == 'v':
        return '_%s' % t[1] if isinstance(t[1], int) else str(t[1])
    return to_prolog(t)


def identify_all_vars(ts):
    """The tuple with all variables identified (used to classify 'answer more general than mgu')."""
    def go(t):
        if t[0] in ('v', '_'):
            return ('v', 0)
        if t[0] == 'c':
            return ('c', t[1], tuple(go(a) for a in t[2]))
        return t
    return tuple(go(t) for t in ts)


def instance_of(general, specific):
    """One-way matching: is `specific` an instance of `general` (tuples of canon terms)?"""
    m = {}

    def go(g, s):
        if g[0] == 'v':
            if g[1] in m:
                return m[g[1]] == s
            m[g[1]] = s
            return True
        if g[0] != s[0]:
            return False
        if g[0] == 'c':
            return g[1] == s[1] and len(g[2]) == len(s[2]) and all(go(x, y) for x, y in zip(g[2], s[2]))
        return g == s
    return all(go(g, s) for g, s in zip(general, specific))


# ----------------------------------------------------------------------------- engine-level terms
def to_engine(t, varmap):
    """Harness term -> problog Term/Constant/int/None; named variables -> negative ints via varmap (dict, extended)."""
    from problog.logic import Term, Constant
    k = t[0]
    if k == 'v':
        if isinstance(t[1], int):
            return t[1]
        if t[1] not in varmap:
            varmap[t[1]] = -(len(varmap) + 1)
        return varmap[t[1]]
    if k == '_':
        return None
    if k == 'a':
        return Term(t[1])
    if k == 'i':
        return Constant(t[1])
    if k == 'f':
        return Constant(float(t[1]))
    if k == 's':
        return Constant('"%s"' % t[1])
    return Term(t[1], *[to_engine(a, varmap) for a in t[2]])


def from_engine(x):
    """problog engine value -> harness term (variables keep their int names)."""
    from problog.logic import Constant, Term
    if x is None:
        return ('_',)
    if type(x) == int:
        return ('v', x)
    if isinstance(x, Constant):
        v = x.functor
        if isinstance(v, bool):
            return ('a', str(v))
        if isinstance(v, int):
            return ('i', v)
        if isinstance(v, float):
            return ('f', v)
        s = str(v)
        if len(s) >= 2 and s[0] == '"' and s[-1] == '"':
            return ('s', s[1:-1])
        return ('s', s)
    if x.is_var():
        return ('v', x.name)
    if x.arity == 0:
        return ('a', str(x.functor))
    return ('c', str(x.functor), tuple(from_engine(a) for a in x.args))


# ----------------------------------------------------------------------------- protocol text (S-expressions for the Lean driver)
def sx(t):
    from lib import q
    k = t[0]
    if k == 'v':
        return '(v %d)' % t[1]
    if k == '_':
        return '_'
    if k == 'a':
        return '(c %s)' % q(t[1])
    if k == 'i':
        return '(i %d)' % t[1]
    if k == 'f':
        return '(f %s)' % q(repr(float(t[1])))
    if k == 's':
        return '(s %s)' % q('"%s"' % t[1])
    return '(c %s %s)' % (q(t[1]), ' '.join(sx(a) for a in t[2]))


def sx_list(ts):
    return '(' + ' '.join(sx(t) for t in ts) + ')'


def sx_key(k):
    return '_' if k is None else '%d' % k


def sx_dict(d):
    """dict {int|None: engine value} in insertion order."""
    return '(' + ' '.join('(%s %s)' % (sx_key(k), sx(from_engine(v))) for k, v in d.items()) + ')'


def sx_kk(d):
    return '(' + ' '.join('(%s %s)' % (sx_key(k), sx_key(v)) for k, v in d.items()) + ')'


def parse_sx(text):
    """Parse one protocol line into nested lists of tokens (strings keep their quotes)."""
    toks = []
    i, n = 0, len(text)
    while i < n:
        c = text[i]
        if c in '()':
            toks.append(c)
            i += 1
        elif c.isspace():
            i += 1
        elif c == '"':
            j = i + 1
            buf = []
            while text[j] != '"':
                if text[j] == '\\':
                    j += 1
                    buf.append('\n' if text[j] == 'n' else text[j])
                else:
                    buf.append(text[j])
                j += 1
            toks.append(('str', ''.join(buf)))
            i = j + 1
        else:
            j = i
            while j < n and not text[j].isspace() and text[j] not in '()':
                j += 1
            toks.append(text[i:j])
            i = j
    pos = [0]

    def item():
        t = toks[pos[0]]
        pos[0] += 1
        if t == '(':
            out = []
            while toks[pos[0]] != ')':
                out.append(item())
            pos[0] += 1
            return out
        return t
    out = []
    while pos[0] < len(toks):
        out.append(item())
    return out


def term_of_sx(e):
    """Protocol term -> harness term."""
    if e == '_':
        return ('_',)
    h = e[0]
    if h == 'v':
        return ('v', int(e[1]))
    if h == 'i':
        return ('i', int(e[1]))
    if h == 'f':
        return ('f', float(e[1][1]))
    if h == 's':
        txt = e[1][1]
        return ('s', txt[1:-1] if len(txt) >= 2 and txt[0] == '"' and txt[-1] == '"' else txt)
    if h == 'c':
        if len(e) == 2:
            return ('a', e[1][1])
        return ('c', e[1][1], tuple(term_of_sx(a) for a in e[2:]))
    raise ValueError('bad protocol term %r' % (e,))


def norm(t):
    """Harness term with floats by value (for exact comparison of model and implementation)."""
    if t[0] == 'f':
        return ('f', float(t[1]))
    if t[0] == 'c':
        return ('c', t[1], tuple(norm(a) for a in t[2]))
    return t


# ----------------------------------------------------------------------------- enumeration
LEAVES = [('a', 'a'), ('a', 'b'), ('i', 1), ('f', 1.0), ('a', "'A b'"), ('s', 's'), NIL,
          ('v', 'X'), ('v', 'Y'), ('v', 'Z'), ('_',)]


def terms_of_size(n, memo={}):
    """All terms with exactly n symbols over LEAVES, f/1, g/2 and list cells."""
    if n in memo:
        return memo[n]
    if n == 1:
        out = list(LEAVES)
    else:
        out = [('c', 'f', (a,)) for a in terms_of_size(n - 1)]
        for i in range(1, n - 1):
            for a in terms_of_size(i):
                for b in terms_of_size(n - 1 - i):
                    out.append(('c', 'g', (a, b)))
                    out.append(cons(a, b))
    memo[n] = out
    return out


def random_term(rng, depth, vars_=('X', 'Y', 'Z'), pvar=0.4):
    r = rng.random()
    if depth <= 0 or r < 0.25:
        if rng.random() < pvar:
            return rng.choice([('v', v) for v in vars_] + [('_',)])
        return rng.choice(LEAVES[:7])
    r = rng.random()
    if r < 0.3:
        return ('c', 'f', (random_term(rng, depth - 1, vars_, pvar),))
    if r < 0.7:
        return ('c', 'g', (random_term(rng, depth - 1, vars_, pvar), random_term(rng, depth - 1, vars_, pvar)))
    if r < 0.8:
        return ('c', 'h', tuple(random_term(rng, depth - 1, vars_, pvar) for _ in range(3)))
    return cons(random_term(rng, depth - 1, vars_, pvar), random_term(rng, depth - 1, vars_, pvar))


def mutate(rng, t, vars_=('X', 'Y', 'Z')):
    """A term similar to t (so that unification often gets deep before it succeeds or fails)."""
    r = rng.random()
    if r < 0.15:
        return rng.choice([('v', v) for v in vars_] + [('_',)])
    if r < 0.22:
        return random_term(rng, 1, vars_)
    if t[0] == 'c':
        return ('c', t[1], tuple(mutate(rng, a, vars_) if rng.random() < 0.6 else a for a in t[2]))
    return t
