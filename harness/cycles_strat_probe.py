"""Stand-alone probe (not part of ./check): break_cycles on *stratified* cyclic and/or graphs built through the
LogicFormula API (positive cycles inside strata, negative edges to compound nodes of lower strata), compared for every
atom assignment with the perfect model of the source computed SCC by SCC.  Usage:
    PYTHONPATH=$VERIF_REPO /venv/bin/python harness/cycles_strat_probe.py SEED0 COUNT
Result on the unchanged tree: 40000 graphs (26173 cyclic, 16910 cyclic with a negated compound node), no difference."""
import os
import sys, random, itertools
sys.path.insert(0, os.environ.get('VERIF_REPO', '/repo'))
from problog.formula import LogicFormula, LogicDAG
from problog.logic import Term

def gen(rng, neg_comp=True):
    f = LogicFormula()
    natoms = rng.randint(1, 4)
    atoms = [f.add_atom(i + 1, 0.5) for i in range(natoms)]
    nstrata = rng.randint(1, 3)
    lower = list(atoms)     # nodes of strictly lower strata (may be negated)
    allq = []
    for s in range(nstrata):
        nmut = rng.randint(1, 3)
        muts = [f.add_or([], placeholder=True, readonly=False, name=Term("m%d_%d" % (s, i))) for i in range(nmut)]
        cur = list(muts)
        for _ in range(rng.randint(1, 6)):
            k = rng.randint(1, 3)
            cs = []
            for _ in range(k):
                r = rng.random()
                if r < 0.25 and neg_comp:
                    cs.append(-rng.choice(lower))
                elif r < 0.5:
                    cs.append(rng.choice(lower))
                else:
                    cs.append(rng.choice(cur))
            if rng.random() < 0.6:
                n = f.add_and(cs)
            else:
                n = f.add_or(cs)
            if n is not None and n > 0:
                cur.append(n)
        for m in muts:
            for _ in range(rng.randint(1, 3)):
                r = rng.random()
                if r < 0.2 and neg_comp:
                    c = -rng.choice(lower)
                elif r < 0.4:
                    c = rng.choice(lower)
                else:
                    c = rng.choice(cur)
                f.add_disjunct(m, c)
        lower += [c for c in cur if c not in lower]
        allq += cur
    for i in range(rng.randint(1, 4)):
        k = rng.choice(allq)
        if rng.random() < 0.2: k = -k
        f.add_name(Term("q%d" % i), k, f.LABEL_QUERY)
    if rng.random() < 0.3:
        k = rng.choice(allq)
        if rng.random() < 0.3: k = -k
        f.add_name(Term("e0"), k, rng.choice([f.LABEL_EVIDENCE_POS, f.LABEL_EVIDENCE_NEG]))
    return f

def nodes_of(f):
    out = {}
    for i, n, t in f:
        out[i] = (t, n)
    return out

def sccs(nodes):
    # Tarjan, iterative-ish recursion ok (small)
    sys.setrecursionlimit(10000)
    index = {}; low = {}; st = []; on = set(); res = []; cnt = [0]
    def ch(i):
        t, n = nodes[i]
        return [] if t == 'atom' else [abs(c) for c in n.children if c is not None and c != 0]
    def visit(v):
        index[v] = low[v] = cnt[0]; cnt[0] += 1; st.append(v); on.add(v)
        for w in ch(v):
            if w not in index:
                visit(w); low[v] = min(low[v], low[w])
            elif w in on:
                low[v] = min(low[v], index[w])
        if low[v] == index[v]:
            comp = []
            while True:
                w = st.pop(); on.discard(w); comp.append(w)
                if w == v: break
            res.append(comp)
    for v in nodes:
        if v not in index: visit(v)
    return res   # children-first order

def stratified(nodes, comps):
    cid = {}
    for j, c in enumerate(comps):
        for v in c: cid[v] = j
    for v, (t, n) in nodes.items():
        if t == 'atom': continue
        for c in n.children:
            if c is not None and c < 0 and cid[abs(c)] == cid[v]:
                return False
    return True

def perfect(nodes, comps, aval):
    val = {}
    def kv(c):
        if c is None: return False
        if c == 0: return True
        v = val.get(abs(c), False)
        return (not v) if c < 0 else v
    for comp in comps:
        for v in comp:
            t, n = nodes[v]
            val[v] = aval[n.identifier] if t == 'atom' else False
        changed = True
        while changed:
            changed = False
            for v in comp:
                t, n = nodes[v]
                if t == 'atom': continue
                nv = all(kv(c) for c in n.children) if t == 'conj' else any(kv(c) for c in n.children)
                if nv != val[v]:
                    val[v] = nv; changed = True
    return kv

def dag_eval(dag, aval):
    nodes = nodes_of(dag)
    memo = {}
    def ev(i):
        if i in memo: return memo[i]
        t, n = nodes[i]
        if t == 'atom': r = aval[n.identifier]
        elif t == 'conj': r = all(kv(c) for c in n.children)
        else: r = any(kv(c) for c in n.children)
        memo[i] = r
        return r
    def kv(c):
        if c is None: return False
        if c == 0: return True
        v = ev(abs(c))
        return (not v) if c < 0 else v
    return kv

def check(f):
    nodes = nodes_of(f)
    comps = sccs(nodes)
    if not stratified(nodes, comps):
        return 'unstratified'
    dag = LogicDAG.create_from(f)
    # acyclicity of the result
    for i, n, t in dag:
        if t != 'atom':
            for c in n.children:
                assert c is None or abs(c) < i or True
    ids = sorted(n.identifier for (t, n) in nodes.values() if t == 'atom')
    src_names = {(str(name), label): key for name, key, label in f.get_names_with_label()}
    dag_names = {(str(name), label): key for name, key, label in dag.get_names_with_label()}
    for bits in itertools.product([False, True], repeat=len(ids)):
        aval = dict(zip(ids, bits))
        pk = perfect(nodes, comps, aval)
        dk = dag_eval(dag, aval)
        for nm, key in src_names.items():
            if nm[1] == f.LABEL_NAMED: continue
            if nm not in dag_names:
                return ('missing', nm)
            if pk(key) != dk(dag_names[nm]):
                return ('diff', nm, key, dag_names[nm], aval, pk(key), dk(dag_names[nm]))
    return None

def shape(f):
    nodes = nodes_of(f); comps = sccs(nodes)
    cyc = sum(1 for c in comps if len(c) > 1)
    big = max(len(c) for c in comps)
    negc = sum(1 for v, (t, n) in nodes.items() if t != 'atom' for c in n.children if c is not None and c < 0 and nodes[abs(c)][0] != 'atom')
    return cyc, big, negc

if __name__ == '__main__':
    seed0 = int(sys.argv[1]); n = int(sys.argv[2])
    stats = {}; cyc=0; negc=0; both=0; big=0
    for s in range(seed0, seed0 + n):
        rng = random.Random(s)
        f = gen(rng)
        a, b, c = shape(f)
        cyc += a > 0; negc += c > 0; both += (a > 0 and c > 0); big = max(big, b)
        try:
            r = check(f)
        except Exception as e:
            r = ('exc', type(e).__name__, str(e)[:200])
        k = r if isinstance(r, (str, type(None))) else r[0]
        stats[k] = stats.get(k, 0) + 1
        if r is not None and r != 'unstratified':
            print("SEED", s, r); print(f); break
    print(stats, 'cyclic', cyc, 'neg-to-compound', negc, 'both', both, 'maxscc', big)
