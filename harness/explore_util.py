"""Helpers of the exploration-order properties C03 (schedules) and C04 (unbuffered engine modes):

* `parse(text)`            - hand-written programs of the spine fragment as program dicts (the format of spine.gen_program),
* `hand_shapes_*()`        - hand-written shapes inside the regions of the known findings (recursion + negation of a lower
                             stratum, complementary proofs, goals called again inside an open cycle, negative loops),
* `gen_cyclic(rng)`        - many SMALL cyclic programs: mutual recursion through 1-3 predicates, several clauses per
                             predicate, body disjunctions, negated lower-stratum goals inside the recursive clause,
                             complementary single-literal clauses,
* `gen_negloop(rng)`       - small programs with a loop through negation next to an ordinary proof (must-reject candidates),
* `corpus_replay(...)`     - replay of a pinned regression corpus: programs inside the region of the known findings on which
                             EVERY variant of the tree gave the specification's answer when the corpus was built
                             (tools/gen_c04_corpus.py, tools/gen_c03_corpus.py). A changed outcome is reported with signature
                             {"kind": "corpus-regression"}, which no known finding matches.
* `cheap_stream(...)`      - a second stream of programs with the cheap comparison only (engine outcome vs `Sem`).
"""
import json
import os
import random
import re
from fractions import Fraction as F

import semcheck
import spine
from lib import VERIF, pmap

VARSET = spine.VARSET


# ------------------------------------------------------------------------------------------------ text -> program dict
def _split_top(s, sep):
    out, depth, cur = [], 0, ""
    for ch in s:
        if ch == "(":
            depth += 1
        elif ch == ")":
            depth -= 1
        if ch == sep and depth == 0:
            out.append(cur)
            cur = ""
        else:
            cur += ch
    out.append(cur)
    return [x.strip() for x in out]


def _atom(t):
    t = t.strip()
    m = re.match(r"^([a-z][A-Za-z0-9_]*)(?:\((.*)\))?$", t)
    if not m:
        raise ValueError("atom %r" % t)
    args = tuple(x.strip() for x in m.group(2).split(",")) if m.group(2) else ()
    return (m.group(1), args)


def _lit(t):
    t = t.strip()
    if t.startswith("\\+"):
        return ("neg", _atom(t[2:]))
    if t.startswith("(") and t.endswith(")"):
        a, b = _split_top(t[1:-1], ";")
        return ("or", (_atom(a), _atom(b)))
    return ("pos", _atom(t))


def parse(text, consts=None):
    """Program text of the fragment (facts, p::facts, rules, p::rules, annotated disjunctions, (a ; b) body literals of two
    atoms with the same arguments, \\+atom, query/evidence) -> program dict. Variables are X, Y, Z; `_` in queries."""
    stmts, queries, evidence = [], [], []
    for st in re.split(r"\.\s+|\.$", text.strip()):
        st = st.strip()
        if not st:
            continue
        m = re.match(r"^query\((.*)\)$", st)
        if m:
            queries.append(_atom(m.group(1)))
            continue
        m = re.match(r"^evidence\((.*)\)$", st)
        if m:
            l = _lit(m.group(1))
            evidence.append((l[1], l[0] == "pos"))
            continue
        head, body = (st.split(":-", 1) + [None])[:2] if ":-" in st else (st, None)
        body = [_lit(x) for x in _split_top(body, ",")] if body is not None else None
        heads = []
        for h in _split_top(head, ";"):
            if "::" in h:
                p, a = h.split("::", 1)
                heads.append((F(p.strip()), _atom(a)))
            else:
                heads.append((None, _atom(h)))
        if len(heads) > 1:
            stmts.append(("ad", [(p, a) for p, a in heads], body or []))
        elif body is None:
            stmts.append(("fact", heads[0][1]) if heads[0][0] is None else ("pf", heads[0][0], heads[0][1]))
        elif heads[0][0] is None:
            stmts.append(("rule", heads[0][1], body))
        else:
            stmts.append(("prule", heads[0][0], heads[0][1], body))
    return finish_program(stmts, queries, evidence, consts)


def _heads_body(s):
    if s[0] in ("pf", "fact"):
        return [s[-1]], []
    if s[0] == "rule":
        return [s[1]], s[2]
    if s[0] == "prule":
        return [s[2]], s[3]
    return [h for _, h in s[1]], s[2]


def finish_program(stmts, queries, evidence=(), consts=None):
    """consts / preds (arity, level) of a list of statements; level = 0 for predicates without rules, otherwise the
    stratum (1 + the levels of negated predicates, >= the levels of positive ones)."""
    ar, cs, rules = {}, [], {}
    for s in stmts:
        hs, body = _heads_body(s)
        atoms = list(hs) + [a for l in body for a in spine.lit_atoms(l)]
        for p, args in atoms:
            ar.setdefault(p, len(args))
            for x in args:
                if x not in VARSET and x != "_" and x not in cs:
                    cs.append(x)
        if s[0] in ("rule", "prule") or (s[0] == "ad" and body):
            for h in hs:
                rules.setdefault(h[0], []).append(body)
    for p, args in list(queries) + [a for a, v in evidence]:
        ar.setdefault(p, len(args))
        for x in args:
            if x not in VARSET and x != "_" and x not in cs:
                cs.append(x)
    lvl = {p: (1 if p in rules else 0) for p in ar}
    for _ in range(len(ar) + 2):
        for p, bodies in rules.items():
            for b in bodies:
                for l in b:
                    for a in spine.lit_atoms(l):
                        need = lvl[a[0]] + (1 if l[0] == "neg" else 0)
                        if lvl[p] < need <= len(ar) + 1:
                            lvl[p] = need
    consts = list(consts) if consts else (sorted(cs) or ["a"])
    return dict(consts=consts, preds={p: (ar[p], lvl[p]) for p in ar}, stmts=list(stmts), queries=list(queries),
                evidence=list(evidence))


# ------------------------------------------------------------------------------------------------ hand-written shapes
UNBUFFERED_SHAPES = [
    # recursion with a negated lower-stratum goal inside the recursive clause (seeded defect C04_4: cycle closed too early)
    "0.3::e(a,b). 0.4::e(b,c). 0.5::e(c,a). 0.2::blocked(b). 0.1::blocked(c). reach(a). "
    "reach(X) :- reach(Y), e(Y,X), \\+blocked(X). query(reach(_)).",
    "0.3::e(a,b). 0.4::e(b,c). 0.2::blocked(b). reach(X) :- reach(Y), e(Y,X), \\+blocked(X). reach(a). query(reach(c)).",
    "0.3::e(a,b). 0.4::e(b,c). 0.5::e(c,a). 0.2::blocked(b). reach(a). reach(X) :- e(Y,X), reach(Y), \\+blocked(X). query(reach(_)).",
    "0.3::e(a,b). 0.4::e(b,a). 0.2::blocked(b). reach(a). reach(X) :- reach(Y), e(Y,X), \\+blocked(Y). query(reach(b)).",
    "0.5::c. 0.4::d. s :- c. w :- w, d. w :- \\+s. query(w).",
    "0.5::c. 0.4::d. s :- c. w :- \\+s. w :- w, d. query(w).",
    "0.5::c. 0.4::d. 0.3::g. s :- c. w :- v, d. v :- w. v :- g, \\+s. query(w). query(v).",
    "0.3::e(a,b). 0.4::e(b,a). 0.2::bl(a). 0.6::bl(b). odd(X) :- even(Y), e(Y,X), \\+bl(X). even(a). even(X) :- odd(Y), e(Y,X). "
    "query(odd(_)). query(even(_)).",
    "0.6::f(a). 0.7::f(b). 0.2::g(a). t(X) :- f(X), \\+g(X). t(X) :- t(Y), f(X), \\+g(Y). query(t(_)).",
    "0.6::f(a). 0.7::f(b). 0.2::g(a). n(X) :- g(X). t(X) :- f(X). t(X) :- f(X), t(Y), \\+n(Y). query(t(_)).",
    "0.6::f(a). 0.7::f(b). 0.2::g(a). 0.1::g(b). n(X) :- g(X). t(X) :- f(X). t(X) :- f(X), \\+n(X), t(Y). query(t(b)).",
    "0.4::f. 0.5::g. 0.6::h. n :- g. p :- q, \\+n. q :- p. q :- f. p :- h. query(p). query(q).",
    "0.4::f. 0.5::g. n :- g. p :- (q ; f), \\+n. q :- p. query(p).",
    "0.1::h(a); 0.2::h(b). 0.5::e(a,b). 0.5::e(b,a). 0.3::g(a). r(X) :- h(X). r(X) :- r(Y), e(Y,X), \\+g(X). query(r(_)).",
    "0.3::e(a,b). 0.4::e(b,c). 0.5::e(c,a). 0.2::blocked(b). reach(a). 0.8::reach(X) :- reach(Y), e(Y,X), \\+blocked(X). "
    "query(reach(_)). evidence(reach(b)).",
    # complementary proofs that reach the same OR node as bare literals (seeded defect C04_3)
    "0.3::a. p :- a. p :- \\+a. query(p).",
    "0.3::a. p :- \\+a. p :- a. query(p).",
    "0.5::c(a). 0.5::c(b). d(a). d(b). q(X) :- c(X). q(X) :- d(X), \\+c(X). query(q(_)).",
    "0.5::c(a). 0.4::c(b). q(a) :- c(a). q(a) :- \\+c(a). q(b) :- \\+c(b). query(q(_)).",
    "0.2::r. 0.7::g. t :- r. t :- \\+r. s :- g, t. query(s). query(t).",
    "0.3::a. 0.6::g. p :- a. p :- g. p :- \\+a. query(p).",
    "0.3::a. 0.6::g. p :- g. p :- \\+a. p :- a. query(p).",
    "0.3::a. 0.6::g. r :- g, a. r :- g, \\+a. query(r).",
    "0.3::a. s :- a. p :- s. p :- \\+s. query(p).",
    "0.3::a. 0.5::g. s :- a. p :- s. p :- g, p. p :- \\+s. query(p).",
    "0.3::a. na :- \\+a. p :- a. p :- na. query(p). query(na).",
    "0.3::a; 0.5::g. p :- a. p :- \\+a. q :- g. q :- \\+g. query(p). query(q).",
    "0.3::f(a). 0.6::f(b). p(a) :- f(a). p(a) :- \\+f(a). p(b) :- f(b). p(b) :- \\+f(a). query(p(_)).",
    "0.3::a. p :- a. p :- \\+a. query(p). evidence(\\+a).",
    # plain positive recursion (controls)
    "0.3::e(a,b). 0.4::e(b,c). 0.5::e(c,a). reach(a). reach(X) :- reach(Y), e(Y,X). query(reach(_)).",
    "0.3::e(a,b). 0.4::e(b,c). 0.5::e(c,a). path(X,Y) :- e(X,Y). path(X,Y) :- e(X,Z), path(Z,Y). query(path(a,_)).",
]

SCHEDULE_SHAPES = [
    # a goal called again while an earlier call is open inside an active cycle (seeded defect C03_4)
    "0.9::f(b). 0.4::d. 0.2::f(a). q(X) :- (p(X) ; f(X)). p(X) :- q(X), d. q(X) :- p(X), \\+f(X). query(q(_)). query(p(a)).",
    "0.3::g(b). 0.7::e(b,c). 0.5::e(c,b). u(X) :- e(X,Y), u(Y). u(c) :- (g(b) ; u(b)). query(u(c)).",
    "0.3::g(b). 0.7::e(b,c). 0.5::e(c,b). u(c) :- (g(b) ; u(b)). u(X) :- e(X,Y), u(Y). query(u(_)).",
    "0.9::f(b). 0.4::d. 0.2::f(a). q(X) :- p(X). q(X) :- f(X). p(X) :- q(X), d. q(X) :- p(X), \\+f(X). query(q(_)).",
    "0.4::f. 0.5::g. 0.6::h. p :- (q ; f). q :- (r ; g). r :- (p ; h). q :- p. query(p). query(r).",
    "0.4::f. 0.5::g. p :- q, r. q :- (p ; f). r :- (q ; g). r :- p. query(p).",
    "0.3::e(a,b). 0.4::e(b,c). 0.5::e(c,a). r(a). r(X) :- r(Y), e(Y,X). query(r(_)).",
    "0.3::e(a,b). 0.4::e(b,a). 0.6::f(a). s(X) :- t(X). s(X) :- f(X). t(X) :- e(X,Y), s(Y). t(X) :- s(X), f(X). query(s(_)). query(t(a)).",
] + UNBUFFERED_SHAPES[:14]

NEGLOOP_SHAPES = [
    # a loop through negation next to an ordinary proof: rejected whatever clause is explored first (seeded defect C03_3)
    "0.3::a. 0.5::g. p :- a. p :- g, \\+p. query(p).",
    "0.3::a. 0.5::g. p :- g, \\+p. p :- a. query(p).",
    "0.3::f(a). 0.4::f(b). 0.5::e(a,a). active(X) :- f(X). active(X) :- e(X,X), \\+active(X). query(active(a)).",
    "0.3::a. 0.5::g. 0.2::c. q :- c. q :- \\+p, g. p :- a. p :- g, q. query(p).",
    "0.3::a. 0.5::g. p :- a. p :- g, \\+q. q :- r. r :- p. query(p).",
    "0.3::a. 0.5::g. p :- a. p :- \\+q. q :- g. q :- \\+p. query(p).",
    "0.3::a. p :- a. p :- \\+p. query(p).",
    "0.3::a. 0.5::g. 0.6::h. p :- a. p :- h. p :- g, \\+p. query(p).",
    "0.3::a. 0.5::g. p :- a. q :- p. p :- g, \\+q. query(q).",
    "0.3::f(a). 0.5::f(b). 0.5::g(a). p(X) :- f(X). p(X) :- g(X), \\+p(X). query(p(_)).",
]


def shapes(texts):
    return [parse(t) for t in texts]


# ------------------------------------------------------------------------------------------------ small cyclic programs
def _base(rng, consts, preds, stmts, n, pmax=3):
    names = []
    for i in range(n):
        name = "f%d" % i
        a = rng.choice([0, 1, 1, 2])
        preds[name] = (a, 0)
        names.append(name)
        import itertools
        insts = list(itertools.product(consts, repeat=a))
        rng.shuffle(insts)
        for args in insts[:rng.randint(1, min(len(insts), pmax))]:
            if rng.random() < 0.8:
                stmts.append(("pf", F(rng.randint(1, 9), 10), (name, args)))
            else:
                stmts.append(("fact", (name, args)))
    return names


def gen_cyclic(rng, negation=True, disjunction=True, max_choices=6, light=False):
    """`_gen_cyclic` restricted to programs with at most `max_choices` probabilistic choices after instantiation (the
    specification enumerates the worlds; the engine's work does not depend on the number of choices). light: no binary
    recursive predicates over three constants (used by the quick streams)."""
    while True:
        P = _gen_cyclic(rng, negation, disjunction, light)
        if len(spine.reference(P)[1]) <= max_choices:
            return P


def _gen_cyclic(rng, negation=True, disjunction=True, light=False):
    """Small program whose derived predicates p0..pk (one level, same arity, 2-3 clauses each) call each other: mutual
    recursion through 1-3 predicates, body disjunctions, a negated base goal inside recursive clauses, complementary
    single-literal clauses."""
    consts = spine.CONSTS[:rng.choice([2, 2, 3])]
    preds, stmts = {}, []
    base = _base(rng, consts, preds, stmts, rng.randint(2, 3), pmax=2)
    k = rng.choice([1, 2, 2, 3, 3])
    par = rng.choice([0, 0, 1, 1, 1, 2])
    if light and par == 2 and len(consts) > 2:
        par = 1     # (binary recursive predicates over 3 constants: cycle breaking of the ground formula can take minutes)
    der = ["p%d" % i for i in range(k)]
    for p in der:
        preds[p] = (par, 1)
    negp = rng.choice([0.0, 0.25, 0.5]) if negation else 0.0
    disp = rng.choice([0.0, 0.3, 0.5]) if disjunction else 0.0
    unary = [b for b in base if preds[b][0] >= 1]

    def args_for(p, bound, fresh=True):
        out = []
        for _ in range(preds[p][0]):
            r = rng.random()
            if bound and r < 0.5:
                out.append(rng.choice(sorted(bound)))
            elif fresh and r < 0.9:
                out.append(rng.choice(spine.VARS))
            else:
                out.append(rng.choice(consts))
        return tuple(out)

    def mk_rule(head, recursive):
        hargs = tuple(rng.choice(spine.VARS[:2]) if rng.random() < 0.85 else rng.choice(consts) for _ in range(par))
        body, bound = [], set()
        nlit = rng.randint(1, 3)
        pos_rec = rng.randrange(nlit) if recursive else -1
        for j in range(nlit):
            if j == pos_rec or (recursive and rng.random() < 0.25):
                p = rng.choice(der)
                args = tuple(hargs) if (par and rng.random() < 0.3) else args_for(p, bound)
                alt = [q for q in der + base if preds[q][0] == par and q != p]
                if alt and rng.random() < disp:
                    pair = [(p, args), (rng.choice(alt), args)]
                    rng.shuffle(pair)
                    body.append(("or", tuple(pair)))
                else:
                    body.append(("pos", (p, args)))
                bound.update(x for x in args if x in VARSET)
            elif j > 0 and rng.random() < negp:
                p = rng.choice(base)
                args = tuple((rng.choice(sorted(bound)) if bound and rng.random() < 0.8 else rng.choice(consts))
                             for _ in range(preds[p][0]))
                body.append(("neg", (p, args)))
            else:
                p = rng.choice(base)
                args = args_for(p, bound)
                body.append(("pos", (p, args)))
                bound.update(x for x in args if x in VARSET)
        for x in [x for x in hargs if x in VARSET and x not in bound]:
            if not unary:
                return None
            p = rng.choice(unary)
            body.insert(0, ("pos", (p, tuple([x] + [rng.choice(consts) for _ in range(preds[p][0] - 1)]))))
            bound.add(x)
        if rng.random() < 0.7:
            body = [b for b in body if b[0] != "neg"] + [b for b in body if b[0] == "neg"]
        seen = set()
        for t, a in body:
            if t == "neg" and any(x in VARSET and x not in seen for x in a[1]):
                return None
            if t != "neg":
                for at in spine.lit_atoms((t, a)):
                    seen.update(x for x in at[1] if x in VARSET)
        return (head, hargs), body

    for i, p in enumerate(der):
        nrec = 0
        for c in range(rng.randint(2, 3)):
            recursive = (c > 0) or rng.random() < 0.3
            if k > 1 and c == 0 and i > 0 and rng.random() < 0.5:
                recursive = True          # no base case of its own: depends on the other predicates
            r = mk_rule(p, recursive)
            if r is None:
                continue
            nrec += recursive
            nv = len(spine.vars_of([r[0]] + [a for l in r[1] for a in spine.lit_atoms(l)]))
            if nv <= 1 and rng.random() < 0.2:
                stmts.append(("prule", F(rng.randint(1, 9), 10), r[0], r[1]))
            else:
                stmts.append(("rule", r[0], r[1]))
    if negation and rng.random() < 0.35:
        # complementary single-literal clauses: `p :- f. p :- \+f.` (ground)
        b = rng.choice(base)
        args = tuple(rng.choice(consts) for _ in range(preds[b][0]))
        p = rng.choice(der)
        hargs = tuple(rng.choice(consts) for _ in range(par))
        pair = [("rule", (p, hargs), [("pos", (b, args))]), ("rule", (p, hargs), [("neg", (b, args))])]
        rng.shuffle(pair)
        stmts.extend(pair)
    if rng.random() < 0.3:
        # a caller on top of the recursive predicates (the cycle is entered from an outer goal, twice)
        preds["t0"] = (0, 2)
        p, q = rng.choice(der), rng.choice(der)
        body = [("pos", (p, tuple(rng.choice(consts) for _ in range(par)))), ("pos", (q, tuple(rng.choice(consts) for _ in range(par))))]
        if negation and rng.random() < 0.4:
            body[1] = ("neg", body[1][1])
        stmts.append(("rule", ("t0", ()), body))
    if rng.random() < 0.25 and unary:
        nh = 2
        ps = [F(rng.randint(1, 4), 10) for _ in range(nh)]
        for i in range(nh):
            preds["h%d" % i] = (1, 0)
        stmts.append(("ad", [(ps[i], ("h%d" % i, (rng.choice(consts),))) for i in range(nh)], []))
        p = rng.choice(der)
        if par == 1:
            stmts.append(("rule", (p, ("X",)), [("pos", ("h%d" % rng.randrange(nh), ("X",)))]))
        elif par == 0:
            stmts.append(("rule", (p, ()), [("pos", ("h%d" % rng.randrange(nh), (rng.choice(consts),)))]))
    defined = set()
    for s in stmts:
        defined.update(h[0] for h in _heads_body(s)[0])
    for p, (a, l) in list(preds.items()):
        if p not in defined:
            stmts.append(("pf", F(rng.randint(1, 9), 10), (p, tuple(rng.choice(consts) for _ in range(a)))))
    rng.shuffle(stmts)
    qs = []
    for _ in range(rng.randint(1, 2)):
        p = rng.choice(der + (["t0"] if "t0" in preds else []))
        args = tuple((rng.choice(consts) if rng.random() < 0.35 else "_") for _ in range(preds[p][0]))
        if (p, args) not in qs:
            qs.append((p, args))
    P = dict(consts=consts, preds=preds, stmts=stmts, queries=qs, evidence=[])
    if rng.random() < 0.15:
        spine.add_evidence(P, rng)
    return P


def gen_negloop(rng):
    """Small program with a loop through negation next to ordinary proofs: 0-ary / unary predicates p0..pk with 1-3 clauses,
    at least one clause `p :- ..., \\+q` closing a loop; the specification decides the class (must-reject / ...)."""
    consts = spine.CONSTS[:2]
    preds, stmts = {}, []
    base = _base(rng, consts, preds, stmts, rng.randint(2, 3))
    k = rng.randint(1, 3)
    par = rng.choice([0, 0, 0, 1])
    der = ["p%d" % i for i in range(k)]
    for p in der:
        preds[p] = (par, 1)
    hargs = ("X",) if par else ()
    guard = [b for b in base if preds[b][0] >= 1]
    if par and not guard:
        par, hargs = 0, ()
        for p in der:
            preds[p] = (0, 1)

    def blit(p):
        return (p, tuple(["X"] * min(1, preds[p][0]) + [rng.choice(consts) for _ in range(max(0, preds[p][0] - 1))])) if par else \
               (p, tuple(rng.choice(consts) for _ in range(preds[p][0])))
    anypos = rng.random() < 0.15
    for i, p in enumerate(der):
        for c in range(rng.randint(1, 3)):
            body = []
            if par:
                body.append(("pos", blit(rng.choice(guard))))
            for _ in range(rng.randint(0, 2)):
                # positive calls of derived predicates go to LOWER ones (no positive cycle: see `has_positive_cycle`), rarely anywhere
                lower = der if anypos else der[:i]
                body.append(("pos", blit(rng.choice(base))) if (rng.random() < 0.6 or not lower) else ("pos", (rng.choice(lower), hargs)))
            if c > 0 or rng.random() < 0.3:
                body.append(("neg", (rng.choice(der), hargs)))
            if not body:
                body.append(("pos", blit(rng.choice(base))))
            stmts.append(("rule", (p, hargs), body))
    rng.shuffle(stmts)
    p = rng.choice(der)
    qs = [(p, tuple(rng.choice(consts + ["_"]) for _ in range(par)))]
    return dict(consts=consts, preds=preds, stmts=stmts, queries=qs, evidence=[])


# ------------------------------------------------------------------------------------------------ running
def _cheap_work(item):
    return [(tag, ground_eval(src, cfg)) for tag, src, cfg in item]


def _cheap_work2(item):
    return [(tag, ground_eval(src, cfg, timeout=1)) for tag, src, cfg in item]


def _full_work(item):
    return [(tag, semcheck.run_cfg(src, cfg)) for tag, src, cfg in item]


def settled(runs, item, runner, timeout=120):
    """Runs that ran out of time (loaded machine) repeated with a long limit (corpus builders)."""
    return [(t, runner(src, cfg, timeout=timeout) if is_timeout(r) else r) for (tag, src, cfg), (t, r) in zip(item, runs)]


def is_timeout(r):
    return r[0] == "error" and r[1][1] == "Timeout"


def grounding_error(r):
    from props import c02
    return r[0] == "error" and c02.is_grounding_error(r[1][1])


def corpus_path(pid, name):
    return os.path.join(VERIF, "corpus", pid, name)


def load_corpus(path):
    import cfgprop
    if not os.path.exists(path):
        return []
    return [(cfgprop.load_program(e["program"]), e["seed"], e.get("class", "agree")) for e in json.load(open(path))]


def judge_one(P, sem, cls, tag, r):
    """Problems [(what, signature)] of ONE run. class "agree": the run must give the specification's answer (signatures of
    semcheck.compare); class "reject" (a query/evidence atom is undefined in the well-founded model of some world: loop
    through negation): the run must end in a grounding error."""
    if is_timeout(r) or r[0] == "big":
        return []
    if cls == "reject":
        if grounding_error(r) or (r[0] == "error" and r[1][1] == "InconsistentEvidenceError"):
            return []
        if r[0] == "ok":
            return [("%s: answered %s although in %d possible world(s) a query/evidence atom is undefined in the well-founded "
                     "model (loop through negation)" % (tag, r[1], sem["undef_roots"]),
                     {"kind": "answered-must-reject", "poscycle_in_negcycle_scc": spine.poscycle_in_negcycle_scc(P),
                      "tag": tag.split("#")[0]})]
        return [("%s: raised %s at %s instead of a grounding error" % (tag, r[1][1], r[1][2]),
                 {"kind": "exception", "exc": r[1][1], "site": r[1][2], "class": "must-reject", "tag": tag.split("#")[0]})]
    return semcheck.compare(P, sem, r, tag)


def confirmed(ctx, P, sem, cls, item, runs, long_timeout=120, rerun_undecided=True):
    """Problems of the runs of one program, each CONFIRMED by the full pipeline (semcheck.run_cfg): the cheap runs
    (`ground_eval`) only select candidates, so that the independent evaluator can never be the cause of an alarm. Runs that
    were not decided cheaply (too many choices) or ran out of time (loaded machine) are repeated in full, alone, with a long
    limit; a timeout is never a failure."""
    out = []
    for (tag, src, cfg), (t2, r) in zip(item, runs):
        full = False
        if (r[0] == "big" or is_timeout(r)) and not rerun_undecided:
            if ctx is not None:
                ctx.count("timeout" if is_timeout(r) else "too many choices for the cheap comparison (skipped)")
            continue
        if r[0] == "big" or is_timeout(r):
            r = semcheck.run_cfg(src, cfg, timeout=long_timeout)
            full = True
            if ctx is not None:
                ctx.count("runs repeated with the full pipeline (undecided / timeout)")
        if is_timeout(r):
            if ctx is not None:
                ctx.count("timeout")
            continue
        probs = judge_one(P, sem, cls, tag, r)
        if probs and not full:
            r = semcheck.run_cfg(src, cfg, timeout=long_timeout)
            probs = judge_one(P, sem, cls, tag, r)
            if not probs and ctx is not None:
                ctx.count("cheap run differs, full pipeline agrees (not reported)")
        for what, sig in probs:
            out.append((tag, what, sig))
    return out


def corpus_replay(ctx, drv, path, variants, label):
    """Replay the pinned corpus at `path` (entries: program, variant seed, class) under `variants(P, seed)`. A problem is
    reported with signature {"kind": "corpus-regression"}: the tree handled the program when the corpus was built, so no
    known finding applies."""
    entries = load_corpus(path)
    if not entries:
        return
    import time
    t0 = time.time()
    sems = semcheck.spec_batch(drv, [P for P, _, _ in entries])
    items = [variants(P, sd) for P, sd, _ in entries]
    work = pmap(_cheap_work, items, chunksize=4)
    nok = nrun = 0
    for (P, sd, cls), sem, item, runs in zip(entries, sems, items, work):
        src = spine.to_src(P)
        ctx.case("corpus:%s#%d" % (src, sd), nontrivial=True, n=len(runs))
        nrun += len(runs)
        if sem is None:
            continue
        bad = confirmed(ctx, P, sem, cls, item, runs)
        if bad:
            tag, what, _ = bad[0]
            ctx.fail("corpus program (%s; every variant %s when the corpus was built): %s | program: %s" % (
                label, "rejected it" if cls == "reject" else "gave the specification's answer", what, src.replace("\n", " ")),
                {"program": P, "src": src, "tag": tag, "variant_seed": sd, "stream": "corpus", "class": cls},
                {"kind": "corpus-regression"})
            if len(ctx.failures) >= 3:
                break
        else:
            nok += 1
    ctx.count("corpus programs (%s) unchanged" % label, nok)
    ctx.count("corpus variant runs", nrun)
    ctx.extra.setdefault("phase_seconds", {})["corpus"] = round(time.time() - t0, 1)


def cheap_stream(ctx, drv, progs, seeds, variants, label, cls="agree", max_shrink=1):
    """Second stream: many small programs, each under a few variants, with the cheap comparison only (engine outcome vs the
    specification `Sem`; numbers by enumeration of the ground formula). class "agree": two-valued programs, every variant
    must give the specification's answer (known findings are matched as in the main stream). class "reject": programs in
    which a query atom is undefined in the well-founded model of some world and that have no positive cycle (`reject_region`):
    every variant must end in a grounding error."""
    import time
    t0 = time.time()
    sems = semcheck.spec_batch(drv, progs)
    t1 = time.time()
    sel = []
    for P, sd, sem in zip(progs, seeds, sems):
        if sem is None:
            ctx.count("%s: skipped(too many worlds)" % label)
        elif cls == "agree" and sem["undef"] > 0:
            ctx.count("%s: outside-fragment(non-two-valued)" % label)
        elif cls == "reject" and (sem["undef_roots"] == 0 or not reject_region(P)):
            ctx.count("%s: not must-reject / has a positive cycle" % label)
        else:
            sel.append((P, sd, sem))
    items = [variants(P, sd) for P, sd, _ in sel]
    work = pmap(_cheap_work2, items, chunksize=16)
    ctx.extra.setdefault("phase_seconds", {})[label] = {"specification": round(t1 - t0, 1), "runs": round(time.time() - t1, 1)}
    nshrunk = 0
    for (P, sd, sem), item, runs in zip(sel, items, work):
        src = spine.to_src(P)
        ctx.case("%s:%s#%d" % (label, src, sd), nontrivial=(cls == "reject") or (len(sem["probs"]) > 0 and sem["nworlds"] > 1),
                 n=len(runs))
        ctx.count("%s: programs" % label)
        for tag, r in runs:
            if r[0] == "error":
                ctx.count("%s: outcome:%s" % (label, r[1][1]))
        seen = []
        for tag, what, sig in confirmed(ctx, P, sem, cls, item, runs, long_timeout=30, rerun_undecided=False):
            if any(semcheck.same_failure(sig, s) and sig.get("tag") == s.get("tag") for s in seen):
                continue
            seen.append(sig)
            small = P
            if nshrunk < max_shrink and ctx.known_match(sig) is None:
                nshrunk += 1

                def still(c, tag=tag, sig=sig, sd=sd):
                    s2 = semcheck.spec_batch(drv, [c])[0]
                    if s2 is None or (cls == "agree" and s2["undef"] > 0) or (cls == "reject" and s2["undef_roots"] == 0):
                        return False
                    if cls == "reject" and not reject_region(c):
                        return False
                    for t2, src2, cfg2 in variants(c, sd):
                        if t2 == tag:
                            r2 = semcheck.run_cfg(src2, cfg2)
                            return any(semcheck.same_failure(s, sig) for _, s in judge_one(c, s2, cls, t2, r2))
                    return False
                try:
                    import cfgprop
                    small = cfgprop.shrink(P, still)
                except Exception:
                    small = P
            ctx.fail(what + " | program: " + spine.to_src(small).replace("\n", " "),
                     {"program": small, "src": spine.to_src(small), "tag": tag, "variant_seed": sd, "stream": label, "class": cls},
                     sig)


def replay_case(ctx, drv, variants):
    """--replay of a failure reported by `corpus_replay` / `cheap_stream`. True if the replay file is one (handled here)."""
    if not ctx.replay_in:
        return False
    import cfgprop
    rp = json.load(open(ctx.replay_in)).get("replay", {})
    if not isinstance(rp, dict) or not rp.get("stream"):
        return False
    P = cfgprop.load_program(rp["program"])
    sd, cls = rp.get("variant_seed", 0), rp.get("class", "agree")
    sem = semcheck.spec_batch(drv, [P])[0]
    item = variants(P, sd)
    runs = _full_work(item)
    ctx.case("replay:" + spine.to_src(P), nontrivial=True, n=len(runs))
    for tag, what, sig in confirmed(ctx, P, sem, cls, item, runs)[:1]:
        ctx.fail("%s | program: %s" % (what, spine.to_src(P).replace("\n", " ")),
                 {"program": P, "src": spine.to_src(P), "tag": tag, "variant_seed": sd, "stream": rp["stream"], "class": cls},
                 {"kind": "corpus-regression"} if rp["stream"] == "corpus" else sig)
    return True


# ------------------------------------------------------------------------------------------------ structure
def pred_graph(P):
    """Predicate dependency graph: {head predicate: {(body predicate, negated?)}}."""
    g = {}
    for s in P["stmts"]:
        hs, body = _heads_body(s)
        for h in hs:
            for l in body:
                for a in spine.lit_atoms(l):
                    g.setdefault(h[0], set()).add((a[0], l[0] == "neg"))
    return g


def recursive_preds(P):
    g = pred_graph(P)

    def reach(p):
        seen, st = set(), [p]
        while st:
            x = st.pop()
            for y, _ in g.get(x, ()):
                if y not in seen:
                    seen.add(y)
                    st.append(y)
        return seen
    return {p for p in g if p in reach(p)}


def has_positive_cycle(P):
    """Some ground atom depends on itself through positive body literals only (instantiation over the constants)."""
    rules, _ = spine.reference(P)
    dep = {}
    for h, b, c in rules:
        dep.setdefault(h, set()).update(a for t, a in b if t == "pos")
    state = {}
    for root in dep:
        if root in state:
            continue
        stack = [(root, iter(dep.get(root, ())))]
        state[root] = 1
        while stack:
            node, it = stack[-1]
            for y in it:
                st = state.get(y)
                if st == 1:
                    return True
                if st is None:
                    state[y] = 1
                    stack.append((y, iter(dep.get(y, ()))))
                    break
            else:
                state[node] = 2
                stack.pop()
    return False


def reject_region(P):
    """Programs of the must-reject stream / corpus: no ground atom depends positively on itself. (With a positive cycle next
    to the loop through negation the current engine may close the positive cycle first and answer: known finding
    C02-missed-negative-cycle when both lie in one component, and - rarely - also when they do not, e.g.
    `p0 :- f1, \\+p0. p0 :- p1. p3 :- p3. p3 :- p0, \\+p0. query(p3).`; that is C02's subject, not the order's.)"""
    return not has_positive_cycle(P)


def region(P):
    """Coarse structural class of a program (for the composition of the corpora): recursion, recursion through several
    predicates, a negated goal in a clause of a recursive predicate, annotated disjunctions, body disjunctions."""
    rec = recursive_preds(P)
    g = pred_graph(P)
    out = set()
    if rec:
        out.add("recursion")
    if any(q in rec and q != p for p in rec for q, n in g.get(p, ())):
        out.add("mutual-recursion")
    if any(n for p in rec for q, n in g.get(p, ())):
        out.add("negation-in-recursive-predicate")
    if any(s[0] == "ad" for s in P["stmts"]):
        out.add("ad")
    if any(l[0] == "or" for s in P["stmts"] for l in _heads_body(s)[1]):
        out.add("body-disjunction")
    single = {}
    for s in P["stmts"]:
        if s[0] == "rule" and len(s[2]) >= 1 and sum(1 for l in s[2] if l[0] == "neg") == 1:
            single.setdefault(s[1][0], set()).update(l[1] for l in s[2] if l[0] == "neg")
    for s in P["stmts"]:
        if s[0] == "rule" and any(l[0] == "pos" and l[1] in single.get(s[1][0], ()) for l in s[2]):
            out.add("complementary-proofs")
    return out


def gen_tight(rng, negation=True):
    """Tight cyclic program: 2-4 derived predicates of ONE shape (0-ary, or unary over the same variable X), 2-3 clauses
    each with 1-2 body literals taken from {p_i, f_j, (p_i ; p_j), (p_i ; f_j), \\+f_j}; unit clauses `p :- q.` and
    disjunctions directly below a head are frequent, so that a goal is called again from another clause / disjunct while
    its first call is still open inside an active cycle. Cheap for the engine and for the specification."""
    par = rng.choice([0, 0, 1])
    consts = spine.CONSTS[:2]
    preds, stmts = {}, []
    nb = rng.randint(2, 3)
    base = ["f%d" % i for i in range(nb)]
    for b in base:
        preds[b] = (par, 0)
        insts = [()] if par == 0 else [(c,) for c in consts]
        rng.shuffle(insts)
        for args in insts[:rng.randint(1, len(insts))]:
            stmts.append(("pf", F(rng.randint(1, 9), 10), (b, args)) if rng.random() < 0.85 else ("fact", (b, args)))
    k = rng.randint(2, 4)
    der = ["p%d" % i for i in range(k)]
    for p in der:
        preds[p] = (par, 1)
    hargs = ("X",) if par else ()
    disp = rng.choice([0.2, 0.4, 0.6])
    negp = rng.choice([0.0, 0.15, 0.3]) if negation else 0.0

    def lit(first):
        r = rng.random()
        if r < disp:
            a = rng.choice(der)
            b = rng.choice([q for q in der + base if q != a])
            pair = [(a, hargs), (b, hargs)]
            rng.shuffle(pair)
            return ("or", tuple(pair))
        if not first and rng.random() < negp:
            return ("neg", (rng.choice(base), hargs))
        if rng.random() < 0.65:
            return ("pos", (rng.choice(der), hargs))
        return ("pos", (rng.choice(base), hargs))
    for p in der:
        for c in range(rng.randint(2, 3)):
            body = [lit(True)]
            if rng.random() < 0.5:
                body.append(lit(False))
            if par:
                bound = {x for l in body if l[0] != "neg" for a in spine.lit_atoms(l) for x in a[1]}
                if "X" not in bound:
                    body.insert(0, ("pos", (rng.choice(base), hargs)))
            if par and rng.random() < 0.15:
                # a ground clause inside the non-ground recursion
                c0 = rng.choice(consts)
                body = [(t, tuple((q, (c0,)) for q, _ in a) if t == "or" else (a[0], (c0,))) for t, a in body]
                stmts.append(("rule", (p, (c0,)), body))
            elif rng.random() < 0.12:
                stmts.append(("prule", F(rng.randint(1, 9), 10), (p, hargs), body))
            else:
                stmts.append(("rule", (p, hargs), body))
    rng.shuffle(stmts)
    qs = []
    for _ in range(rng.randint(1, 2)):
        q = (rng.choice(der), tuple(rng.choice(consts + ["_"]) for _ in range(par)))
        if q not in qs:
            qs.append(q)
    return dict(consts=consts, preds=preds, stmts=stmts, queries=qs, evidence=[])


# ------------------------------------------------------------------------------------------------ cheap evaluation
class TooBig(Exception):
    pass


def brute_force(dag, max_worlds=4096):
    """Exact query probabilities of an acyclic ground formula (LogicDAG) by enumeration of its choices: atoms of one group
    are mutually exclusive (annotated disjunction, `none of them` has the remaining mass), atoms without a group are
    independent. Conditional on the evidence; None if the evidence has probability 0. Independent of ProbLog's compilers."""
    groups, order = {}, []
    nodes = {}
    for i, n, t in dag:
        nodes[i] = (t, n)
        if t == "atom":
            key = ("g", n.group) if n.group is not None else ("a", i)
            if key not in groups:
                groups[key] = []
                order.append(key)
            groups[key].append(i)
    opts = []
    nw = 1
    for key in order:
        ids = groups[key]
        o = []
        tot = 0.0
        for i in ids:
            n = nodes[i][1]
            if n.is_extra or n.probability is True:
                continue
            p = float(n.probability)
            tot += p
            o.append((i, p))
        o.append((None, 1.0 - tot))
        extra = [i for i in ids if nodes[i][1].is_extra or nodes[i][1].probability is True]
        opts.append((ids, extra, o))
        nw *= len(o)
        if nw > max_worlds:
            raise TooBig()
    qs = [(str(name), node) for name, node in dag.queries()]
    evs = [node for name, node in dag.evidence()]
    import itertools
    z = 0.0
    acc = [0.0] * len(qs)
    for choice in itertools.product(*[o for _, _, o in opts]):
        w = 1.0
        val = {}
        for (ids, extra, _), (ci, p) in zip(opts, choice):
            w *= p
            for i in ids:
                val[i] = (i == ci)
            for i in extra:
                val[i] = ci is None
        if w == 0.0:
            continue

        def ev(k):
            if k == 0:
                return True
            if k is None:
                return False
            a = abs(k)
            v = val.get(a)
            if v is None:
                t, n = nodes[a]
                v = all(ev(c) for c in n.children) if t == "conj" else any(ev(c) for c in n.children)
                val[a] = v
            return v if k > 0 else not v
        if not all(ev(e) for e in evs):
            continue
        z += w
        for j, (_, node) in enumerate(qs):
            if ev(node):
                acc[j] += w
    if z == 0.0:
        return None
    return {name: a / z for (name, _), a in zip(qs, acc)}


def ground_eval(src, cfg=None, timeout=3):
    """Cheap run: ground with the real engine (under the schedule / engine options of cfg), break cycles with ProbLog's
    LogicDAG, evaluate by `brute_force`. Same result shape as semcheck.run_cfg; ("big", None) if there are too many choices."""
    cfg = cfg or {}
    from problog.program import PrologString
    from problog.formula import LogicFormula, LogicDAG
    from problog.engine import DefaultEngine
    import problog.engine_stack as es

    def body():
        if hasattr(es, "_verif_set_schedule"):
            es._verif_set_schedule(cfg.get("sched"))
        try:
            gkw = dict(cfg.get("ground") or {})
            eng_kw = dict(cfg.get("engine") or {})
            if cfg.get("random_order") is not None:
                gkw["engine"] = semcheck.make_random_order_engine(cfg["random_order"], **eng_kw)
            elif eng_kw:
                gkw["engine"] = DefaultEngine(**eng_kw)
            lf = LogicFormula.create_from(PrologString(src), **gkw)
        finally:
            if hasattr(es, "_verif_set_schedule"):
                es._verif_set_schedule(None)
        return lf
    try:
        lf = spine.with_timeout(timeout, body)
    except spine.Timeout:
        return ("error", ("run", "Timeout", ""))
    except RecursionError as e:
        return ("error", ("run", "RecursionError", semcheck.site_of(e)))
    except Exception as e:
        return ("error", ("run", type(e).__name__, semcheck.site_of(e)))
    try:
        r = spine.with_timeout(timeout, lambda: brute_force(LogicDAG.create_from(lf)))
    except Exception:
        return ("big", None)      # not decided here: the caller uses the full pipeline
    if r is None:
        return ("error", ("run", "InconsistentEvidenceError", ""))
    return ("ok", r)
