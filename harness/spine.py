"""Shared helpers for the pipeline properties (C01, C05-C10, C20, C25, ...):

* a typed generator of ProbLog programs of the C01 fragment (+ `to_src`),
* their full grounding into a propositional program for the Lean specification `Sem` (driver op SEM),
* serialisation of real `LogicFormula`/`LogicDAG`/`CNF`/`DDNNF` objects for the Lean models (driver Drivers.Spine),
* staged execution of the real pipeline with every intermediate artefact kept (incl. dsharp's .nnf file).
"""
import itertools
import os
import random
import re
import signal
import subprocess
import tempfile
from fractions import Fraction as F

from lib import Infra, rat

CONSTS = ["a", "b", "c"]
VARS = ["X", "Y", "Z"]
VARSET = set(VARS)


class Timeout(Exception):
    pass


def _alarm(sig, frm):
    raise Timeout()


def with_timeout(seconds, fn, *a, **kw):
    old = signal.signal(signal.SIGALRM, _alarm)
    signal.alarm(seconds)
    try:
        return fn(*a, **kw)
    finally:
        signal.alarm(0)
        signal.signal(signal.SIGALRM, old)


# ------------------------------------------------------------------------------------------------ generator
def gen_program(rng, cyclic=True, negation=True, ads=True, evidence=True, max_level=2, negloops=0.0, big=False,
                disjunction=False, numeric=False):
    """Typed random program: base facts (probabilistic/deterministic), derived predicates on levels (negation only on
    strictly lower levels => predicate-level stratified; positive recursion allowed within a level), ADs with and
    without bodies, ground and non-ground queries, evidence that holds in a sampled world (consistent by construction,
    see `add_evidence`)."""
    ncons = 3 if big else rng.choice([2, 2, 3])
    consts = CONSTS[:ncons]
    preds = {}
    stmts = []
    base = []
    for i in range(rng.randint(2, 3)):
        ar = rng.choice([0, 1, 1, 1, 2])
        name = "f%d" % i
        preds[name] = (ar, 0)
        base.append(name)
        insts = list(itertools.product(consts, repeat=ar))
        rng.shuffle(insts)
        for args in insts[:rng.randint(1, min(len(insts), 4))]:
            if rng.random() < 0.8:
                stmts.append(("pf", F(rng.randint(1, 9), 10), (name, args)))
            else:
                stmts.append(("fact", (name, args)))
    der = []
    for i in range(rng.randint(2, 4)):
        name = "p%d" % i
        preds[name] = (rng.choice([0, 1, 1, 2]), rng.randint(1, max_level))
        der.append(name)

    def mk_rule(head):
        har, hl = preds[head]
        hargs = tuple(rng.choice(VARS[:2]) if rng.random() < 0.9 else rng.choice(consts) for _ in range(har))
        body = []
        bound = set()
        cands_pos = [p for p, (a, l) in preds.items() if (l <= hl if cyclic else l < hl)]
        cands_neg = [p for p, (a, l) in preds.items() if l < hl]
        if negloops and rng.random() < negloops:
            # C02: negation on the same or a higher level may close a cycle through negation
            cands_neg = [p for p, (a, l) in preds.items() if l > 0] or cands_neg
        for j in range(rng.randint(1, 3)):
            if negation and j > 0 and cands_neg and rng.random() < 0.3:
                p = rng.choice(cands_neg)
                args = tuple((rng.choice(sorted(bound)) if bound and rng.random() < 0.8 else rng.choice(consts))
                             for _ in range(preds[p][0]))
                body.append(("neg", (p, args)))
            else:
                p = rng.choice(cands_pos)
                args = tuple((rng.choice(VARS) if rng.random() < 0.9 else rng.choice(consts)) for _ in range(preds[p][0]))
                if len(args) == 2 and rng.random() < 0.15:
                    args = (args[0], args[0])     # repeated variable in a call: p(X,X) vs p(X,Y) are different table entries
                bound.update(x for x in args if x in VARSET)
                alt = [q for q in cands_pos if preds[q][0] == preds[p][0] and q != p]
                if disjunction and alt and rng.random() < 0.2:
                    # body disjunction (p(Args) ; q(Args)): both alternatives bind the same variables
                    body.append(("or", ((p, args), (rng.choice(alt), args))))
                else:
                    body.append(("pos", (p, args)))
        if negation and body and rng.random() < 0.08:
            # contradictory body (f(X), \+f(X)): proofs that the ground formula simplifies to FALSE
            t0, a0 = rng.choice(body)
            if t0 == "pos" and preds[a0[0]][1] < hl:    # keep predicate-level stratification (never for "or" literals)
                body.append(("neg", a0))
        for x in [x for x in hargs if x in VARSET and x not in bound]:
            cs = [p for p in base if preds[p][0] >= 1]
            if not cs:
                return None
            p = rng.choice(cs)
            args = tuple([x] + [rng.choice(consts) for _ in range(preds[p][0] - 1)])
            body.insert(0, ("pos", (p, args)))
            bound.add(x)
        body = [b for b in body if b[0] != "neg"] + [b for b in body if b[0] == "neg"]
        for t, a in body:
            if t == "neg" and any(x in VARSET and x not in bound for x in a[1]):
                return None
        return (head, hargs), body

    for name in der:
        for _ in range(rng.randint(1, 3)):
            r = mk_rule(name)
            if r is None:
                continue
            if rng.random() < (0.5 if big else 0.2):
                stmts.append(("prule", F(rng.randint(1, 9), 10), r[0], r[1]))
            else:
                stmts.append(("rule", r[0], r[1]))
    if ads and rng.random() < 0.6:
        nh = rng.choice([2, 3, 3, 4])
        ps = [F(rng.randint(1, 3 if nh < 4 else 2), 10) for _ in range(nh)]
        if sum(p.numerator * (10 // p.denominator) for p in ps) % 3 == 0:
            # an annotated disjunction WITHOUT a "none of the heads" choice: the probabilities sum to exactly 1
            # (decided from the numbers already drawn, so that the rest of the program does not change)
            ps[-1] = 1 - sum(ps[:-1])
        heads = []
        for i in range(nh):
            name = "h%d" % i
            preds.setdefault(name, (1, 0))
            heads.append((name, (rng.choice(consts),)))
        if rng.random() < 0.5:
            stmts.append(("ad", list(zip(ps, heads)), []))
        else:
            cs = [p for p in base if preds[p][0] >= 1]
            if cs:
                p = rng.choice(cs)
                bargs = tuple(["X"] + [rng.choice(["Y"] + consts) for _ in range(preds[p][0] - 1)])
                heads = [(h, ("X",)) for h, _ in heads]
                stmts.append(("ad", list(zip(ps, heads)), [("pos", (p, bargs))]))
    hp = [p for p in preds if p.startswith("h")]
    if len(hp) >= 2 and der and rng.random() < 0.35:
        # a rule that needs TWO heads of the annotated disjunction (mutually exclusive when they belong to the same
        # group instance, independent otherwise)
        name = rng.choice(der)
        if preds[name][0] == 0:
            h1, h2 = rng.sample(hp, 2)
            stmts.append(("rule", (name, ()), [("pos", (h1, (rng.choice(consts),))), ("pos", (h2, (rng.choice(consts),)))]))
        elif preds[name][0] == 1:
            h1, h2 = rng.sample(hp, 2)
            stmts.append(("rule", (name, ("X",)), [("pos", (h1, ("X",))), ("pos", (h2, (rng.choice(["X"] + consts),)))]))
    if hp and der and rng.random() < 0.7:
        name = rng.choice(der)
        har = preds[name][0]
        h = rng.choice(hp)
        if har == 0:
            stmts.append(("rule", (name, ()), [("pos", (h, (rng.choice(consts),)))]))
        elif har == 1:
            stmts.append(("rule", (name, ("X",)), [("pos", (h, ("X",)))]))
    # alias predicates: `al :- q(c).` / `nal :- \\+q(c).` share (the negation of) an existing ground node
    aliases = []
    for k in range(2):
        if rng.random() < 0.25:
            q = rng.choice([p for p in preds if not p.startswith("al")])
            ar, lvl = preds[q]
            args = tuple(rng.choice(consts) for _ in range(ar))
            name = "al%d" % k
            neg = rng.random() < 0.5
            preds[name] = (0, max_level + 1)
            if neg:
                # `nal :- \+q(c)` alone is not range-restriction relevant (ground), level above everything: stratified
                stmts.append(("rule", (name, ()), [("neg", (q, args))]))
            else:
                stmts.append(("rule", (name, ()), [("pos", (q, args))]))
            aliases.append((name, (q, args), neg))
            der.append(name)
    # every predicate that can be called must have at least one clause (otherwise UnknownClause: wasted case)
    defined = set()
    for s in stmts:
        if s[0] in ("pf", "fact"):
            defined.add(s[-1][0])
        elif s[0] == "rule":
            defined.add(s[1][0])
        elif s[0] == "prule":
            defined.add(s[2][0])
        else:
            defined.update(h[0] for _, h in s[1])
    for p, (ar, lvl) in list(preds.items()):
        if p not in defined:
            stmts.append(("fact", (p, tuple(rng.choice(consts) for _ in range(ar)))) if rng.random() < 0.5 else
                         ("pf", F(rng.randint(1, 9), 10), (p, tuple(rng.choice(consts) for _ in range(ar)))))
    rng.shuffle(stmts)
    qs = []
    for _ in range(rng.randint(1, 3)):
        p = rng.choice(der + hp if (der + hp) else list(preds))
        args = tuple((rng.choice(consts) if rng.random() < 0.35 else "_") for _ in range(preds[p][0]))
        if (p, args) not in qs:
            qs.append((p, args))
    P = dict(consts=consts, preds=preds, stmts=stmts, queries=qs, evidence=[])
    if evidence and rng.random() < 0.5:
        add_evidence(P, rng, inconsistent=rng.random() < 0.06)
        if aliases and rng.random() < 0.5:
            # evidence on an alias and on the atom it stands for (same ground node, possibly negated): consistent values
            # from the sampled world, or - 30% - contradictory values (evidence of probability 0)
            name, at, neg = rng.choice(aliases)
            ev = dict((a, v) for a, v in P["evidence"])
            base = ev.get(at, rng.random() < 0.5)
            alias_val = (not base) if neg else base
            if rng.random() < 0.3:
                alias_val = not alias_val
            P["evidence"] = [(a, v) for a, v in P["evidence"] if a != at and a != (name, ())] + [(at, base), ((name, ()), alias_val)]
    _post_shapes(P, random.Random("post|" + repr((stmts, qs, P["evidence"]))), max_level, evidence, numeric, negation)
    P.pop("_world", None)
    return P


def _post_shapes(P, r2, max_level, evidence=True, numeric=False, negation=True):
    """Shapes added AFTER the main draw, from a generator seeded by the program text (the main random stream, and with it
    every program of every seed, stays what it was): (1) a new predicate whose clause body is a single NEGATIVE ground
    literal, optionally with the complementary positive clause (`nb :- \\+f(c). nb :- f(c).`: two bare-literal proofs that
    are each other's complement), a user of it, queries, and evidence on it where that is consistent by construction;
    (2) numeric constants (an integer and a float) instead of two of the atoms."""
    pfs = [st[2] for st in P["stmts"] if st[0] == "pf" and 0 < st[1] < 1]
    if pfs and negation and r2.random() < 0.3:
        at = r2.choice(pfs)
        lvl = 1 + max(l for a, l in P["preds"].values())
        P["preds"]["nb"] = (0, lvl)
        new = [("rule", ("nb", ()), [("neg", at)])]
        compl = r2.random() < 0.5
        if compl:
            new.append(("rule", ("nb", ()), [("pos", at)]))
            r2.shuffle(new)
        if r2.random() < 0.5:
            other = r2.choice(pfs)
            P["preds"]["nu"] = (0, lvl + 1)
            new.append(("rule", ("nu", ()), [("pos", ("nb", ())), ("pos", other)]))
            if r2.random() < 0.7:
                P["queries"].append(("nu", ()))
        if r2.random() < 0.6 or "nu" not in P["preds"]:
            P["queries"].append(("nb", ()))
        for st in new:
            P["stmts"].insert(r2.randrange(len(P["stmts"]) + 1), st)
        if not evidence:
            pass                                                          # the caller asked for programs without evidence
        elif compl and r2.random() < 0.4:
            P["evidence"] = P["evidence"] + [(("nb", ()), True)]          # nb is certainly true: consistent with anything
        elif not compl and not P["evidence"] and r2.random() < 0.4:
            P["evidence"] = [(("nb", ()), r2.random() < 0.5)]            # the fact is open: both values have probability > 0
        elif not compl and P.get("_world") is not None and r2.random() < 0.5:
            # the value nb has in the world the other evidence was sampled from: jointly consistent
            P["evidence"] = P["evidence"] + [(("nb", ()), at not in P["_world"])]
    if numeric and r2.random() < 0.12 and len(P["consts"]) >= 2:
        ren = dict(zip(P["consts"][1:], ["1", "2.5"]))
        f = lambda at: (at[0], tuple(ren.get(x, x) for x in at[1]))

        def fl(l):
            return (l[0], (f(l[1][0]), f(l[1][1]))) if l[0] == "or" else (l[0], f(l[1]))
        out = []
        for st in P["stmts"]:
            if st[0] == "pf":
                out.append(("pf", st[1], f(st[2])))
            elif st[0] == "fact":
                out.append(("fact", f(st[1])))
            elif st[0] == "rule":
                out.append(("rule", f(st[1]), [fl(l) for l in st[2]]))
            elif st[0] == "prule":
                out.append(("prule", st[1], f(st[2]), [fl(l) for l in st[3]]))
            else:
                out.append(("ad", [(p, f(h)) for p, h in st[1]], [fl(l) for l in st[2]]))
        P["stmts"] = out
        P["queries"] = [f(q) for q in P["queries"]]
        P["evidence"] = [(f(a), v) for a, v in P["evidence"]]
        P["consts"] = [ren.get(c, c) for c in P["consts"]]


def add_evidence(P, rng, inconsistent=False):
    """Evidence literals that hold in one sampled world (so P(e) > 0), or - rarely - arbitrary ones."""
    rules, groups = reference(P)
    chosen = set()
    for g in groups:
        r = rng.random()
        acc = 0.0
        for p, cid in g:
            acc += float(p)
            if r < acc:
                chosen.add(cid)
                break
    m = lfp(rules, P["preds"], chosen)
    allp = list(P["preds"])
    evs = []
    for _ in range(rng.randint(1, 3)):
        p = rng.choice(allp)
        args = tuple(rng.choice(P["consts"]) for _ in range(P["preds"][p][0]))
        if evs and rng.random() < 0.5:
            # an atom related to the previous evidence atom by a ground rule (head <-> body): evidence on a disjunction
            # and on one of its disjuncts, on a conjunction and a conjunct, ...
            prev = evs[-1][0]
            rel = [a for h, b, c in rules if h == prev for t, a in b] + [h for h, b, c in rules if any(a == prev for t, a in b)]
            if rel:
                p, args = rng.choice(rel)
        val = ((p, args) in m)
        if inconsistent:
            val = rng.random() < 0.5
        if all(e[0] != (p, args) for e in evs):
            evs.append(((p, args), val))
    P["evidence"] = evs
    if not inconsistent:
        P["_world"] = m     # the sampled world's true atoms (removed again by gen_program)


def atom_s(at):
    p, args = at
    return p if not args else "%s(%s)" % (p, ",".join(args))


def lit_s(l):
    t, at = l
    if t == "or":
        return "(%s ; %s)" % (atom_s(at[0]), atom_s(at[1]))
    return atom_s(at) if t == "pos" else "\\+" + atom_s(at)


def expand_or(body):
    """All alternatives of a body with ("or", (A, B)) literals, as bodies of pos/neg literals."""
    alts = [[]]
    for t, a in body:
        if t == "or":
            alts = [b + [("pos", x)] for b in alts for x in a]
        else:
            alts = [b + [(t, a)] for b in alts]
    return alts


def lit_atoms(l):
    """The atoms a body literal mentions."""
    return list(l[1]) if l[0] == "or" else [l[1]]


def fr(p):
    t = repr(float(F(p)))
    if "e" in t or "E" in t:   # no exponent notation in program text
        from decimal import Decimal
        t = format(Decimal(t), "f")
    return t


def stmt_src(s):
    if s[0] == "pf":
        return "%s::%s." % (fr(s[1]), atom_s(s[2]))
    if s[0] == "fact":
        return "%s." % atom_s(s[1])
    if s[0] == "rule":
        return "%s :- %s." % (atom_s(s[1]), ", ".join(map(lit_s, s[2])))
    if s[0] == "prule":
        return "%s::%s :- %s." % (fr(s[1]), atom_s(s[2]), ", ".join(map(lit_s, s[3])))
    hd = "; ".join("%s::%s" % (fr(p), atom_s(h)) for p, h in s[1])
    return hd + ("." if not s[2] else " :- %s." % ", ".join(map(lit_s, s[2])))


def to_src(P, evidence_style=0):
    L = [stmt_src(s) for s in P["stmts"]]
    for q in P["queries"]:
        L.append("query(%s)." % atom_s(q))
    for (at, v) in P["evidence"]:
        if evidence_style == 0:
            L.append("evidence(%s)." % atom_s(at) if v else "evidence(\\+%s)." % atom_s(at))
        else:
            L.append("evidence(%s,%s)." % (atom_s(at), "true" if v else "false"))
    return "\n".join(L)


# ------------------------------------------------------------------------------------------------ reference grounding
def vars_of(atoms):
    vs = []
    for p, args in atoms:
        for x in args:
            if x in VARSET and x not in vs:
                vs.append(x)
    return vs


def subst(at, th):
    return (at[0], tuple(th.get(x, x) for x in at[1]))


def reference(P):
    """Full instantiation over the constants. Returns (rules, groups): rules = (head, body, choice id or None),
    groups = lists of (prob, choice id). An AD with a body has one group per instantiation of ALL its variables;
    two probabilistic facts with the same atom are two independent choices."""
    consts = P["consts"]
    rules, groups = [], []
    for si, s in enumerate(P["stmts"]):
        if s[0] == "fact":
            rules.append((s[1], [], None))
        elif s[0] == "pf":
            cid = ("pf", si)
            groups.append([(F(s[1]), cid)])
            rules.append((s[2], [], cid))
        else:
            if s[0] == "rule":
                heads, body = [(None, s[1])], s[2]
            elif s[0] == "prule":
                heads, body = [(F(s[1]), s[2])], s[3]
            else:
                heads, body = [(F(p), h) for p, h in s[1]], s[2]
            vs = vars_of([h for _, h in heads] + [a for l in body for a in lit_atoms(l)])
            for vals in itertools.product(consts, repeat=len(vs)):
                th = dict(zip(vs, vals))
                gbs = [[(t, subst(a, th)) for t, a in alt] for alt in expand_or(body)]
                if heads[0][0] is None:
                    for gb in gbs:
                        rules.append((subst(heads[0][1], th), gb, None))
                else:
                    grp = []
                    for hi, (p, h) in enumerate(heads):
                        cid = ("ad", si, vals, hi)
                        grp.append((p, cid))
                        for gb in gbs:
                            rules.append((subst(h, th), gb, cid))
                    groups.append(grp)
    return rules, groups


def lfp(rules, preds, chosen):
    """Stratified least model (python-side helper for evidence sampling only; the oracle is Lean's Sem)."""
    true = set()
    maxl = max(l for a, l in preds.values())
    for lvl in range(0, maxl + 1):
        rs = [r for r in rules if preds[r[0][0]][1] == lvl]
        changed = True
        while changed:
            changed = False
            for h, b, c in rs:
                if h in true or (c is not None and c not in chosen):
                    continue
                if all((a in true) if t == "pos" else (a not in true) for t, a in b):
                    true.add(h)
                    changed = True
    return true


def valid_program(P):
    """Range restriction (every head variable and every variable of a negative literal occurs in a positive body
    literal) and every called/queried predicate has a clause: the conditions the generator guarantees."""
    defined = set()
    for s in P["stmts"]:
        if s[0] in ("pf", "fact"):
            heads, body = [s[-1]], []
        elif s[0] == "rule":
            heads, body = [s[1]], s[2]
        elif s[0] == "prule":
            heads, body = [s[2]], s[3]
        else:
            heads, body = [h for _, h in s[1]], s[2]
        defined.update(h[0] for h in heads)
        bound = {x for l in body if l[0] != "neg" for a in lit_atoms(l) for x in a[1] if x in VARSET}
        for h in heads:
            if any(x in VARSET and x not in bound for x in h[1]):
                return False
        for l in body:
            if l[0] == "neg" and any(x in VARSET and x not in bound for x in l[1][1]):
                return False
            if l[0] == "or" and l[1][0][1] != l[1][1][1]:
                return False
    called = set()
    for s in P["stmts"]:
        body = s[2] if s[0] in ("rule", "ad") else (s[3] if s[0] == "prule" else [])
        called.update(a[0] for l in body for a in lit_atoms(l))
    called.update(q[0] for q in P["queries"])
    called.update(a[0] for a, v in P["evidence"])
    return called <= defined


def f1_condition(P):
    """Structural condition of known finding F1 (false NegativeCycle): some ground rule whose head lies on a cycle of
    the dependency graph, or is called (directly or not) from an atom on a cycle, negates an atom that depends on an
    atom lying on a cycle — the negated goal's own cycle is detected while the outer cycle is still active and the
    engine joins the two through the negation node (witness for the "called from" case:
    p1 :- p1. p2 :- f2, \\+p1. p0 :- f0, p0. p0 :- f1, p2. query(p0).)."""
    rules, _ = reference(P)
    dep = {}
    for h, b, c in rules:
        dep.setdefault(h, set()).update(a for t, a in b)

    def reach(a):
        seen, st = set(), [a]
        while st:
            x = st.pop()
            for y in dep.get(x, ()):
                if y not in seen:
                    seen.add(y)
                    st.append(y)
        return seen
    memo = {}

    def R(a):
        if a not in memo:
            memo[a] = reach(a)
        return memo[a]
    oncycle = {a for a in dep if a in R(a)}
    # heads that can be evaluated while a positive cycle is active: atoms on a cycle and everything they call
    below = set(oncycle)
    for a in oncycle:
        below |= R(a)
    for h, b, c in rules:
        if h in below:
            for t, a in b:
                if t == "neg" and (a in oncycle or (R(a) & oncycle)):
                    return True
    return False


def poscycle_in_negcycle_scc(P):
    """Structural condition of known finding C02-missed-negative-cycle: a strongly connected component of the ground
    dependency graph that contains a cycle through negation also contains a cycle through positive edges only."""
    rules, _ = reference(P)
    dep, pdep = {}, {}
    for h, b, c in rules:
        dep.setdefault(h, set()).update(a for t, a in b)
        pdep.setdefault(h, set()).update(a for t, a in b if t == "pos")

    def reach(g, a):
        seen, st = set(), [a]
        while st:
            x = st.pop()
            for y in g.get(x, ()):
                if y not in seen:
                    seen.add(y)
                    st.append(y)
        return seen
    R = {a: reach(dep, a) for a in dep}
    for h, b, c in rules:
        for t, a in b:
            if t == "neg" and h in R.get(a, set()):
                scc = {x for x in R[h] if h in R.get(x, set())} | {h}
                for x in scc:
                    if x in reach({k: v & scc for k, v in pdep.items() if k in scc}, x):
                        return True
    return False


def negedge_after_poscycle_clause(P):
    """Finer structural condition of known finding C02-missed-negative-cycle: some ground rule `h :- ..., \\+b` whose negative
    edge lies on a cycle (b reaches h) is preceded - in source order, among the clauses for the same atom h - by a clause
    through which h lies on a POSITIVE cycle (a positive body atom of that earlier clause positively reaches h): the engine
    has already closed that positive cycle on h when the negation is called."""
    consts = P["consts"]
    grules = []   # (stmt index, head, body)
    for si, st in enumerate(P["stmts"]):
        if st[0] in ("fact", "pf"):
            grules.append((si, st[-1], []))
            continue
        if st[0] == "rule":
            heads, body = [st[1]], st[2]
        elif st[0] == "prule":
            heads, body = [st[2]], st[3]
        else:
            heads, body = [h for _, h in st[1]], st[2]
        vs = vars_of(heads + [a for l in body for a in lit_atoms(l)])
        for vals in itertools.product(consts, repeat=len(vs)):
            th = dict(zip(vs, vals))
            for alt in expand_or(body):
                gb = [(t, subst(a, th)) for t, a in alt]
                for h in heads:
                    grules.append((si, subst(h, th), gb))
    dep, pdep = {}, {}
    for si, h, b in grules:
        dep.setdefault(h, set()).update(a for t, a in b)
        pdep.setdefault(h, set()).update(a for t, a in b if t == "pos")

    def reach(g, a):
        seen, st = set(), [a]
        while st:
            x = st.pop()
            for y in g.get(x, ()):
                if y not in seen:
                    seen.add(y)
                    st.append(y)
        return seen
    memo, pmemo = {}, {}
    for si, h, b in grules:
        for t, a in b:
            if t != "neg":
                continue
            if a not in memo:
                memo[a] = reach(dep, a)
            if h not in memo[a]:
                continue
            # negative edge on a cycle; look for an earlier clause of h closing a positive cycle on h
            for sj, h2, b2 in grules:
                if h2 == h and sj < si:
                    for t2, a2 in b2:
                        if t2 == "pos":
                            if a2 not in pmemo:
                                pmemo[a2] = reach(pdep, a2) | {a2}
                            if h in pmemo[a2]:
                                return True
    return False


def query_instances(P):
    q = []
    for p, args in P["queries"]:
        slots = [P["consts"] if x == "_" else [x] for x in args]
        for vals in itertools.product(*slots):
            if (p, vals) not in q:
                q.append((p, vals))
    return q


def sem_line(P, queries=None, evidence=None):
    """The driver line `SEM prog queries evidence` and the list of query atoms (in order)."""
    rules, groups = reference(P)
    qinst = query_instances(P) if queries is None else queries
    ev = P["evidence"] if evidence is None else evidence
    atoms = {}

    def aid(a):
        if a not in atoms:
            atoms[a] = len(atoms)
        return atoms[a]
    cids = {}
    for g in groups:
        for p, c in g:
            cids[c] = len(cids)
    rs = []
    for h, b, c in rules:
        rs.append("(%d (%s) (%s) %s)" % (aid(h), " ".join(str(aid(a)) for t, a in b if t == "pos"),
                                         " ".join(str(aid(a)) for t, a in b if t == "neg"), "-" if c is None else cids[c]))
    qs = [aid(q) for q in qinst]
    evs = [(aid(a), v) for a, v in ev]
    gs = ["(%s)" % " ".join("(%s %d)" % (rat(p), cids[c]) for p, c in g) for g in groups]
    line = "SEM (prog %d %d (rules %s) (groups %s)) (%s) (%s)" % (
        len(atoms), len(cids), " ".join(rs), " ".join(gs), " ".join(map(str, qs)),
        " ".join("(%d %s)" % (a, "t" if v else "f") for a, v in evs))
    return line, qinst


def parse_sem(out, qinst):
    """-> dict(z, probs{atom_s: Fraction or None}, undef, nworlds, negcycle)"""
    if out.startswith("toobig"):
        return None
    m = re.match(r"(\S+) \(([^)]*)\) (\d+) (\d+) (\w+) (\w+) (\d+)$", out)
    if not m:
        raise Infra("bad SEM output: " + out[:200])
    z = F(m.group(1))
    nums = [F(x) for x in m.group(2).split()]
    res = dict(z=z, undef=int(m.group(3)), nworlds=int(m.group(4)), negcycle=(m.group(5) == "true"),
               negcycle_full=(m.group(6) == "true"), undef_roots=int(m.group(7)))
    res["probs"] = {atom_s(q): (n / z if z != 0 else None) for q, n in zip(qinst, nums)}
    return res


def sem_numerators(out, qinst):
    """The raw query numerators of a SEM output line (parse_sem only keeps the quotients)."""
    if out.startswith("toobig"):
        return None
    m = re.match(r"(\S+) \(([^)]*)\) ", out)
    if not m:
        raise Infra("bad SEM output: " + out[:200])
    return {atom_s(q): F(x) for q, x in zip(qinst, m.group(2).split())}


# ------------------------------------------------------------------------------------------------ first-order specification
_NAME = re.compile(r"[a-z][A-Za-z0-9_]*$")


def _fo_term(x, query=False):
    if x in VARSET or (query and x == "_"):
        return "(v %s)" % x
    if not isinstance(x, str) or not _NAME.match(x):
        raise ValueError("term %r" % (x,))
    return "(c %s)" % x


def _fo_atom(at, query=False):
    p, args = at
    if not isinstance(p, str) or not _NAME.match(p) or p in ("v", "c"):
        raise ValueError("predicate %r" % (p,))
    return "(%s)" % " ".join([p] + [_fo_term(x, query) for x in args])


def _fo_lit(l):
    t, a = l
    if t == "or":
        return "(or %s %s)" % (_fo_atom(a[0]), _fo_atom(a[1]))
    if t not in ("pos", "neg"):
        raise ValueError("literal %r" % (t,))
    return "(%s %s)" % (t, _fo_atom(a))


def _fo_stmt(s):
    body = lambda b: "(body %s)" % " ".join(_fo_lit(l) for l in b)   # noqa: E731
    if s[0] in ("fact", "pf"):
        if any(x in VARSET for x in s[-1][1]):
            raise ValueError("non-ground fact")     # `reference` does not instantiate facts
        return "(fact %s)" % _fo_atom(s[1]) if s[0] == "fact" else "(pf %s %s)" % (rat(F(s[1])), _fo_atom(s[2]))
    if s[0] == "rule":
        return "(rule %s %s)" % (_fo_atom(s[1]), body(s[2]))
    if s[0] == "prule":
        return "(prule %s %s %s)" % (rat(F(s[1])), _fo_atom(s[2]), body(s[3]))
    if s[0] == "ad" and len(s[1]) > 0:
        return "(ad (heads %s) %s)" % (" ".join("(%s %s)" % (rat(F(p)), _fo_atom(h)) for p, h in s[1]), body(s[2]))
    raise ValueError("statement %r" % (s[0],))


def fo_sexp(P):
    """The program dict as the S-expression read by the Lean driver (ops SEMFO, GROUNDFO): a purely syntactic rendering,
    nothing is instantiated or numbered here. None if P is outside what `SemFO.FOProgram` represents with the meaning of
    `reference` (odd names, non-ground facts, duplicate constants, named variables in queries, empty ADs)."""
    try:
        consts = list(P["consts"])
        if len(set(consts)) != len(consts) or any(c in VARSET or not _NAME.match(c) for c in consts):
            raise ValueError("constants")
        for q in P["queries"]:
            if any(x in VARSET for x in q[1]):
                raise ValueError("named variable in a query")
        for a, v in P["evidence"]:
            if any(x in VARSET or x == "_" for x in a[1]):
                raise ValueError("non-ground evidence")
        preds = " ".join("(%s %d)" % (p, ar[0]) for p, ar in P["preds"].items() if _NAME.match(p))
        return "(fo (consts %s) (preds %s) (stmts %s) (queries %s) (evidence %s))" % (
            " ".join(consts), preds, " ".join(_fo_stmt(s) for s in P["stmts"]),
            " ".join(_fo_atom(q, query=True) for q in P["queries"]),
            " ".join("(%s %s)" % (_fo_atom(a), "t" if v else "f") for a, v in P["evidence"]))
    except (ValueError, KeyError, TypeError, IndexError):
        return None


def sem_line_fo(P):
    """Driver line `SEMFO <fo program>`: the specification value of the first-order program P, the Herbrand instantiation
    done in Lean (`SemFO.ground`, `SemFO.queryInstances`). None if P is not representable (see `fo_sexp`)."""
    fo = fo_sexp(P)
    return None if fo is None else "SEMFO " + fo


def ground_line_fo(P):
    fo = fo_sexp(P)
    return None if fo is None else "GROUNDFO " + fo


def reference_text(P):
    """`reference(P)` rendered like the output of op GROUNDFO (choice ids numbered in group order, as in `sem_line`)."""
    rules, groups = reference(P)
    cids = {}
    for g in groups:
        for p, c in g:
            cids[c] = len(cids)
    rs = ["(%s (%s) %s)" % (atom_s(h), " ".join(("+" if t == "pos" else "-") + atom_s(a) for t, a in b),
                            "-" if c is None else cids[c]) for h, b, c in rules]
    gs = ["(%s)" % " ".join("(%s %d)" % (rat(p), cids[c]) for p, c in g) for g in groups]
    return "(rules %s) (groups %s) %d" % (" ".join(rs), " ".join(gs), len(cids))


def parse_sem_fo(out):
    """Output of op SEMFO -> (result dict as `parse_sem` (None if too big), [query instance text]); "illformed" -> None."""
    if out == "illformed":
        return None
    if " | " not in out:
        raise Infra("bad SEMFO output: " + out[:200])
    res, qs = out.rsplit(" | ", 1)
    if not (qs.startswith("(") and qs.endswith(")")):
        raise Infra("bad SEMFO output: " + out[:200])
    qnames = qs[1:-1].split()
    if res.startswith("toobig"):
        return None, qnames
    m = re.match(r"(\S+) \(([^)]*)\) (\d+) (\d+) (\w+) (\w+) (\d+)$", res)
    if not m:
        raise Infra("bad SEMFO output: " + out[:200])
    z = F(m.group(1))
    nums = [F(x) for x in m.group(2).split()]
    if len(nums) != len(qnames):
        raise Infra("bad SEMFO output (numerators/instances): " + out[:200])
    r = dict(z=z, undef=int(m.group(3)), nworlds=int(m.group(4)), negcycle=(m.group(5) == "true"),
             negcycle_full=(m.group(6) == "true"), undef_roots=int(m.group(7)), nums=dict(zip(qnames, nums)))
    r["probs"] = {q: (n / z if z != 0 else None) for q, n in zip(qnames, nums)}
    return r, qnames


# ------------------------------------------------------------------------------------------------ store serialisation
class Mapper:
    """Injective maps from Python atom identifiers / AD groups / node names to the model's small types."""

    def __init__(self):
        self.ids = {}
        self.groups = {}
        self.names = {}
        self.extra_names = {}

    def group(self, g):
        k = repr(g)
        if k not in self.groups:
            self.groups[k] = len(self.groups) + 1
            try:
                from problog.logic import Term, Constant
                nm = Term("choice", Constant(g[0]), Term("e"), Term("null"), *g[1])
                self.extra_names[str(nm)] = self.groups[k]
            except Exception:
                pass
            self.ids["%s_extra" % (g,)] = "x%d" % self.groups[k]
        return self.groups[k]

    def ident(self, i):
        k = i if isinstance(i, str) else repr(i)
        if k not in self.ids:
            self.ids[k] = str(len(self.ids) + 1)
        return self.ids[k]

    def name(self, n):
        if n is None:
            return "-"
        s = str(n)
        neg = ""
        if s.startswith("\\+"):
            neg, s = "~", s[2:]
        if s in self.extra_names:
            return "%sx%d" % (neg, self.extra_names[s])
        m = re.match(r"problog_cv_(.*)_cb_(\d+)(\(.*\))?$", s)
        if m:
            k = int(m.group(2))
            if m.group(1) == "\\+" and m.group(3):
                # renamed negated name: problog_cv_\+_cb_k(t)
                return "%sn%d" % (neg, self._n(m.group(3)[1:-1]) + 500000 + 1000 * (k + 1))
            base = m.group(1) + (m.group(3) or "")
            return "%sn%d" % (neg, self._n(base) + 1000 * (k + 1))
        return "%sn%d" % (neg, self._n(s))

    def _n(self, s):
        if s not in self.names:
            self.names[s] = len(self.names) + 1
        return self.names[s]


def k2s(k):
    return "N" if k is None else str(k)


def w2s(w):
    if w is True:
        return "T"
    if w is None:
        return "None"
    if w is False:
        return "False"
    try:
        return rat(str(w)) if not isinstance(w, (int, float, F)) else rat(F(str(w)) if isinstance(w, float) else w)
    except Exception:
        return rat(F(str(float(w))))


LABELS = {"query": "query", "evidence+": "ev+", "evidence-": "ev-", "evidence?": "ev?", "named": "named"}


def label_s(l):
    if l in LABELS:
        return LABELS[l]
    return "l%d" % (sum(map(ord, str(l))) % 1000)


def ser_store(f, m, opts=None, with_names=True, ads=None, raw_ident=False):
    """Serialise a LogicFormula (or subclass) for the Lean side."""
    nodes = []
    for n in f._nodes:
        ty = type(n).__name__
        if ty == "atom":
            g = "-" if n.group is None else str(m.group(n.group))
            idt = str(n.identifier) if raw_ident and isinstance(n.identifier, int) else m.ident(n.identifier)
            nodes.append("(atom %s %s %s %s)" % (idt, g, "t" if n.is_extra else "f", m.name(n.name)))
        else:
            nodes.append("(%s (%s) %s)" % (ty, " ".join(k2s(c) for c in n.children), m.name(n.name)))
    ws = ["(%d %s)" % (i, w2s(w)) for i, w in f.get_weights().items()]
    names = []
    if with_names:
        for n, k, l in f.get_names_with_label():
            names.append("(%s %s %s)" % (label_s(l), m.name(n), k2s(k)))
    cons = f.constraints() if ads is None else ads
    adl = []
    for c in cons:
        if type(c).__name__ == "ConstraintAD":
            adl.append("(%d (%s) %s)" % (m.group(c.group), " ".join(str(x) for x in sorted(c.nodes)),
                                         "-" if c.extra_node is None else c.extra_node))
    o = opts or (getattr(f, "_auto_compact", True), getattr(f, "_avoid_name_clash", False), getattr(f, "_keep_order", False),
                 getattr(f, "keep_all", False), getattr(f, "_max_arity", 0), getattr(f, "_keep_duplicates", False))
    return "(store (opts %s %s %s %s %d %s) (nodes %s) (weights %s) (names %s) (ads %s))" % (
        tf(o[0]), tf(o[1]), tf(o[2]), tf(o[3]), o[4], tf(o[5]), " ".join(nodes), " ".join(ws), " ".join(names), " ".join(adl))


def tf(b):
    return "t" if b else "f"


def canon_store(s):
    """Order-insensitive parts of a serialised store sorted (weights, names per label, AD node sets)."""
    m = re.match(r"\(store \(opts[^)]*\) \(nodes(.*)\) \(weights(.*)\) \(names(.*)\) \(ads(.*)\)\)$", s)
    if not m:
        return s
    nodes, ws, names, ads = m.groups()
    ws = sorted(re.findall(r"\([^()]*\)", ws))
    names = sorted(re.findall(r"\([^()]*\)", names))
    adl = []
    for a in re.finditer(r"\((\d+) \(([^)]*)\) (\S+)\)", ads):
        adl.append("(%s (%s) %s)" % (a.group(1), " ".join(sorted(a.group(2).split(), key=int)), a.group(3)))
    return "nodes %s | W %s | N %s | A %s" % (" ".join(nodes.split()), " ".join(ws), " ".join(names), " ".join(sorted(adl)))


# ------------------------------------------------------------------------------------------------ real pipeline, staged
def dsharp_path():
    from problog import root_path  # noqa
    import problog
    base = os.path.join(os.path.dirname(problog.__file__), "bin", "linux", "dsharp")
    return base


def read_nnf(path):
    lines = []
    for line in open(path):
        t = line.split()
        if not t or t[0] == "nnf":
            continue
        if t[0] == "L":
            lines.append("(L %s)" % t[1])
        elif t[0] == "A":
            lines.append("(A %s)" % " ".join(t[2:]))
        elif t[0] == "O":
            lines.append("(O %s %s)" % (t[1], " ".join(t[3:])))
        else:
            raise Infra("unknown nnf line " + line)
    return "(" + " ".join(lines) + ")"


class Stages:
    """All artefacts of one run of the real pipeline."""
    pass


def run_pipeline(src, propagate_evidence=False, ground_opts=None, keep_nnf=True, timeout=30):
    """PrologString -> LogicFormula -> LogicDAG -> CNF -> (dsharp) -> DDNNF -> results; every stage kept.
    Exceptions are returned as st.error = (stage, exception)."""
    from problog.program import PrologString
    from problog.formula import LogicFormula, LogicDAG
    from problog.cnf_formula import CNF
    from problog.ddnnf_formula import DDNNF, _compile
    from problog.evaluator import SemiringProbability
    st = Stages()
    st.error = None
    st.nnf_text = None
    stage = "parse"

    def body():
        nonlocal stage
        db = PrologString(src)
        stage = "ground"
        st.lf = LogicFormula.create_from(db, propagate_evidence=propagate_evidence, **(ground_opts or {}))
        stage = "cycles"
        st.dag = LogicDAG.create_from(st.lf)
        stage = "clark"
        st.cnf = CNF.create_from(st.dag)
        stage = "compile"
        if keep_nnf and not st.cnf.is_trivial():
            d = tempfile.mkdtemp(prefix="verif_nnf_")
            try:
                cnf_file, nnf_file = os.path.join(d, "f.cnf"), os.path.join(d, "f.nnf")
                open(nnf_file, "w").close()
                cmd = ["dsharp", "-Fnnf", nnf_file, "-smoothNNF", "-disableAllLits", cnf_file]
                st.ddnnf = _compile(st.cnf, cmd, cnf_file, nnf_file)
                st.nnf_text = read_nnf(nnf_file)
                st.dimacs = open(cnf_file).read()
            finally:
                for fn in os.listdir(d):
                    os.unlink(os.path.join(d, fn))
                os.rmdir(d)
        else:
            st.ddnnf = DDNNF.create_from(st.cnf)
        stage = "evaluate"
        st.results = st.ddnnf.evaluate(semiring=SemiringProbability())
    try:
        with_timeout(timeout, body)
    except Timeout:
        st.error = (stage, "Timeout", "")
    except Exception as e:  # classified by the caller
        import traceback
        tb = traceback.extract_tb(e.__traceback__)
        site = ""
        for fr_ in reversed(tb):
            if "/problog/" in fr_.filename:
                site = "%s:%s:%s" % (os.path.basename(fr_.filename), fr_.name, (fr_.line or "").strip())
                break
        st.error = (stage, type(e).__name__, site, str(e)[:200])
    return st


def is_problog_error(name):
    import problog.errors as pe
    import problog.engine as en
    for mod in (pe, en):
        c = getattr(mod, name, None)
        if c is not None and isinstance(c, type) and issubclass(c, pe.ProbLogError):
            return True
    try:
        from problog.engine_stack import NegativeCycle  # noqa
    except Exception:
        pass
    return name in ("NegativeCycle", "InconsistentEvidenceError", "InvalidValue", "UnknownClause", "GroundingError",
                    "NonGroundProbabilisticClause", "NonGroundQuery", "IndirectCallCycleError", "InvalidEngineState",
                    "ParseError", "UnknownExternal", "ConsultError", "UnboundProgramError", "ArithmeticError",
                    "CallModeError", "UserError")
