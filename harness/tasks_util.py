"""Helpers shared by the task-level checks C21 (DT-ProbLog/MAP), C22 (sampling), C32 (lists library).

* a random ProbLog program generator (probabilistic facts, deterministic facts, stratified rules with negation,
  annotated disjunctions with and without body, optional decision facts, queries, evidence) -- adapted from the
  round-0 scratch probe `scratch_c01probe.py`;
* an *independent* brute-force semantics: grounding over the constants, stratified least model per total choice,
  possible-world enumeration with exact `Fraction` arithmetic (conditional query probabilities, expected utility
  of a decision strategy).

Nothing here imports problog: it is the specification side of the checks."""
import itertools
from fractions import Fraction as F

CONSTS = ['a', 'b', 'c']
VARS = ['X', 'Y', 'Z']
VARSET = set(VARS)


# ----------------------------------------------------------------------------------------------- generator
def gen_program(rng, dec_prob=0.0, want_queries=True, max_base=3, max_der=4):
    """Structured random program.  Statements:
      ('pf', p, atom) ('fact', atom) ('dec', atom) ('rule', head, body) ('prule', p, head, body) ('ad', [(p, atom)], body)
    atoms are (functor, args-tuple); body literals ('pos'|'neg', atom)."""
    ncons = rng.choice([2, 2, 3])
    consts = CONSTS[:ncons]
    preds = {}
    nbase = rng.randint(1, max_base)
    stmts = []
    base = []
    for i in range(nbase):
        ar = rng.choice([0, 1, 1, 2])
        name = 'f%d' % i
        preds[name] = (ar, 0)
        base.append(name)
        insts = list(itertools.product(consts, repeat=ar))
        rng.shuffle(insts)
        k = rng.randint(1, min(len(insts), 3))
        for args in insts[:k]:
            r = rng.random()
            if r < dec_prob:
                stmts.append(('dec', (name, args)))
            elif r < dec_prob + (1 - dec_prob) * 0.75:
                stmts.append(('pf', F(rng.randint(1, 9), 10), (name, args)))
            else:
                stmts.append(('fact', (name, args)))
    nder = rng.randint(1, max_der)
    der = []
    for i in range(nder):
        ar = rng.choice([0, 1, 1, 2])
        lvl = rng.randint(1, 2)
        name = 'p%d' % i
        preds[name] = (ar, lvl)
        der.append(name)

    def mk_rule(head):
        har, hl = preds[head]
        hargs = tuple(rng.choice(VARS[:2]) if rng.random() < 0.8 else rng.choice(consts) for _ in range(har))
        body = []
        nb = rng.randint(1, 3)
        bound = set()
        cands_pos = [p for p, (a, l) in preds.items() if l <= hl]
        cands_neg = [p for p, (a, l) in preds.items() if l < hl]
        for j in range(nb):
            if j > 0 and cands_neg and rng.random() < 0.3:
                p = rng.choice(cands_neg)
                a = preds[p][0]
                args = tuple((rng.choice(sorted(bound)) if bound and rng.random() < 0.8 else rng.choice(consts))
                             for _ in range(a))
                body.append(('neg', (p, args)))
            else:
                p = rng.choice(cands_pos)
                a = preds[p][0]
                args = tuple((rng.choice(VARS) if rng.random() < 0.8 else rng.choice(consts)) for _ in range(a))
                for x in args:
                    if x in VARSET:
                        bound.add(x)
                body.append(('pos', (p, args)))
        hv = [x for x in hargs if x in VARSET and x not in bound]
        for x in hv:
            cs = [p for p in base if preds[p][0] >= 1]
            if not cs:
                return None
            p = rng.choice(cs)
            a = preds[p][0]
            args = tuple([x] + [rng.choice(consts) for _ in range(a - 1)])
            body.insert(0, ('pos', (p, args)))
            bound.add(x)
        body = [b for b in body if b[0] == 'pos'] + [b for b in body if b[0] == 'neg']
        for t, (p, args) in body:
            if t == 'neg' and any(x in VARSET and x not in bound for x in args):
                return None
        return (head, hargs), body

    for name in der:
        for _ in range(rng.randint(1, 2)):
            r = mk_rule(name)
            if r is None:
                continue
            if rng.random() < 0.2:
                stmts.append(('prule', F(rng.randint(1, 9), 10), r[0], r[1]))
            else:
                stmts.append(('rule', r[0], r[1]))
    if rng.random() < 0.6:
        nh = rng.randint(2, 3)
        ps = [F(rng.randint(1, 3), 10) for _ in range(nh)]
        heads = []
        for i in range(nh):
            name = 'h%d' % i
            if name not in preds:
                preds[name] = (1, 0)
            heads.append((name, (rng.choice(consts),)))
        if rng.random() < 0.5:
            stmts.append(('ad', list(zip(ps, heads)), []))
        else:
            cs = [p for p in base if preds[p][0] >= 1]
            if cs:
                p = rng.choice(cs)
                a = preds[p][0]
                bargs = tuple(['X'] + [rng.choice(['Y'] + consts) for _ in range(a - 1)])
                heads = [(h, ('X',)) for h, _ in heads]
                stmts.append(('ad', list(zip(ps, heads)), [('pos', (p, bargs))]))
    hp = [p for p in preds if p.startswith('h')]
    if hp and der and rng.random() < 0.7:
        name = rng.choice(der)
        har, hl = preds[name]
        h = rng.choice(hp)
        if har == 0:
            stmts.append(('rule', (name, ()), [('pos', (h, (rng.choice(consts),)))]))
        elif har == 1:
            stmts.append(('rule', (name, ('X',)), [('pos', (h, ('X',)))]))
    rng.shuffle(stmts)
    allp = [p for p in preds]
    qs = []
    evs = []
    if want_queries:
        for _ in range(rng.randint(1, 3)):
            p = rng.choice(der + hp if (der + hp) else allp)
            a = preds[p][0]
            args = tuple((rng.choice(consts) if rng.random() < 0.6 else '_') for _ in range(a))
            qs.append((p, args))
        if rng.random() < 0.5:
            for _ in range(rng.randint(1, 2)):
                p = rng.choice(allp)
                a = preds[p][0]
                args = tuple(rng.choice(consts) for _ in range(a))
                evs.append(((p, args), rng.random() < 0.6))
    return dict(consts=consts, preds=preds, stmts=stmts, queries=qs, evidence=evs, utilities=[])


def atom_s(at):
    p, args = at
    return p if not args else '%s(%s)' % (p, ','.join(args))


def lit_s(l):
    t, at = l
    return atom_s(at) if t == 'pos' else '\\+' + atom_s(at)


def fr(p):
    return repr(float(p))


def stmt_src(s):
    if s[0] == 'pf':
        return '%s::%s.' % (fr(s[1]), atom_s(s[2]))
    if s[0] == 'fact':
        return '%s.' % atom_s(s[1])
    if s[0] == 'dec':
        return '?::%s.' % atom_s(s[1])
    if s[0] == 'decad':
        return '; '.join('?::%s' % atom_s(a) for a in s[1]) + '.'
    if s[0] == 'rule':
        return '%s :- %s.' % (atom_s(s[1]), ', '.join(map(lit_s, s[2])))
    if s[0] == 'prule':
        return '%s::%s :- %s.' % (fr(s[1]), atom_s(s[2]), ', '.join(map(lit_s, s[3])))
    if s[0] == 'ad':
        hd = '; '.join('%s::%s' % (fr(p), atom_s(h)) for p, h in s[1])
        return hd + ('.' if not s[2] else ' :- %s.' % ', '.join(map(lit_s, s[2])))
    raise ValueError(s)


def to_src(P):
    L = [stmt_src(s) for s in P['stmts']]
    for q in P['queries']:
        L.append('query(%s).' % atom_s(q))
    for (at, v) in P['evidence']:
        L.append('evidence(%s).' % atom_s(at) if v else 'evidence(\\+%s).' % atom_s(at))
    for (pos, at, val) in P.get('utilities', []):
        L.append('utility(%s, %s).' % (atom_s(at) if pos else '\\+' + atom_s(at), val))
    return '\n'.join(L)


# ----------------------------------------------------------------------------------------------- reference semantics
def vars_of(stmt_atoms):
    vs = []
    for p, args in stmt_atoms:
        for x in args:
            if x in VARSET and x not in vs:
                vs.append(x)
    return vs


def subst(at, th):
    return (at[0], tuple(th.get(x, x) for x in at[1]))


def reference(P):
    """Ground rules (head, body, choice-id or None), probabilistic choice groups [[(p, cid)]], decisions [(cid, atom)],
    decision ADs [[cid]]."""
    consts = P['consts']
    rules = []
    groups = []
    decisions = []
    decads = []
    for si, s in enumerate(P['stmts']):
        if s[0] == 'fact':
            rules.append((s[1], [], None))
        elif s[0] == 'pf':
            cid = ('pf', si)
            groups.append([(s[1], cid)])
            rules.append((s[2], [], cid))
        elif s[0] == 'dec':
            cid = ('dec', si)
            decisions.append((cid, s[1]))
            rules.append((s[1], [], cid))
        elif s[0] == 'decad':
            grp = []
            for hi, a in enumerate(s[1]):
                cid = ('dec', si, hi)
                decisions.append((cid, a))
                rules.append((a, [], cid))
                grp.append(cid)
            decads.append(grp)
        elif s[0] in ('rule', 'prule', 'ad'):
            if s[0] == 'rule':
                heads = [(None, s[1])]
                body = s[2]
            elif s[0] == 'prule':
                heads = [(s[1], s[2])]
                body = s[3]
            else:
                heads = s[1]
                body = s[2]
            vs = vars_of([h for _, h in heads] + [a for _, a in body])
            for vals in itertools.product(consts, repeat=len(vs)):
                th = dict(zip(vs, vals))
                gb = [(t, subst(a, th)) for t, a in body]
                if heads[0][0] is None:
                    rules.append((subst(heads[0][1], th), gb, None))
                else:
                    grp = []
                    for hi, (p, h) in enumerate(heads):
                        cid = ('ad', si, vals, hi)
                        grp.append((p, cid))
                        rules.append((subst(h, th), gb, cid))
                    groups.append(grp)
    return rules, groups, decisions, decads


def lfp(rules, preds, chosen):
    true = set()
    maxl = max(l for a, l in preds.values())
    for lvl in range(0, maxl + 1):
        rs = [r for r in rules if preds[r[0][0]][1] == lvl]
        changed = True
        while changed:
            changed = False
            for h, b, c in rs:
                if h in true:
                    continue
                if c is not None and c not in chosen:
                    continue
                ok = True
                for t, a in b:
                    if t == 'pos':
                        if a not in true:
                            ok = False
                            break
                    else:
                        if a in true:
                            ok = False
                            break
                if ok:
                    true.add(h)
                    changed = True
    return true


def relevant_cids(rules, roots):
    byhead = {}
    for h, b, c in rules:
        byhead.setdefault(h, []).append((b, c))
    seen = set()
    stack = list(roots)
    cids = set()
    while stack:
        a = stack.pop()
        if a in seen:
            continue
        seen.add(a)
        for b, c in byhead.get(a, []):
            if c is not None:
                cids.add(c)
            for t, x in b:
                stack.append(x)
    return cids


def world_options(groups):
    opts = []
    for g in groups:
        o = [(p, {cid}) for p, cid in g]
        rest = 1 - sum(p for p, _ in g)
        o.append((rest, set()))
        opts.append(o)
    return opts


def query_instances(P):
    qinst = []
    for p, args in P['queries']:
        slots = [P['consts'] if x == '_' else [x] for x in args]
        for vals in itertools.product(*slots):
            if (p, vals) not in qinst:
                qinst.append((p, vals))
    return qinst


def semantics(P, maxworlds=1 << 12):
    """Exact conditional probabilities of the query instances given the evidence.
    Returns None (too big), 'inconsistent', or ({atom-string: Fraction}, nworlds, P(evidence))."""
    rules, groups, _, _ = reference(P)
    preds = P['preds']
    qinst = query_instances(P)
    roots = set(qinst) | set(a for a, v in P['evidence'])
    cids = relevant_cids(rules, roots)
    groups = [g for g in groups if any(cid in cids for p, cid in g)]
    nworlds = 1
    for g in groups:
        nworlds *= (len(g) + 1)
    if nworlds > maxworlds:
        return None
    Z = F(0)
    num = {q: F(0) for q in qinst}
    for combo in itertools.product(*world_options(groups)):
        w = F(1)
        chosen = set()
        for p, c in combo:
            w *= p
            chosen |= c
        if w == 0:
            continue
        m = lfp(rules, preds, chosen)
        if all((a in m) == v for a, v in P['evidence']):
            Z += w
            for q in qinst:
                if q in m:
                    num[q] += w
    if Z == 0:
        return 'inconsistent'
    return {atom_s(q): num[q] / Z for q in qinst}, nworlds, Z


# ----------------------------------------------------------------------------------------------- decision programs
def gen_conj_decision_program(rng):
    """Template with interacting decisions: w_j :- (±d_i)*, [c]; utilities on the w_j (and small ones on decisions)."""
    k = rng.randint(2, 4)
    preds = {}
    stmts = []
    decs = []
    for i in range(k):
        preds['d%d' % i] = (0, 0)
        decs.append(('d%d' % i, ()))
        stmts.append(('dec', decs[-1]))
    nc = rng.randint(0, 2)
    cs = []
    for i in range(nc):
        preds['c%d' % i] = (0, 0)
        cs.append(('c%d' % i, ()))
        stmts.append(('pf', F(rng.randint(1, 9), 10), cs[-1]))
    utils = []
    for j in range(rng.randint(1, 4)):
        preds['p%d' % j] = (0, 1)
        for _ in range(rng.randint(1, 2)):
            body = []
            for d in rng.sample(decs, rng.randint(1, min(3, k))):
                body.append(('pos' if rng.random() < 0.75 else 'neg', d))
            if cs and rng.random() < 0.6:
                body.append(('pos' if rng.random() < 0.8 else 'neg', rng.choice(cs)))
            stmts.append(('rule', ('p%d' % j, ()), body))
        utils.append((rng.random() < 0.8, ('p%d' % j, ()), rng.randint(-6, 12)))
    for d in decs:
        if rng.random() < 0.5:
            utils.append((True, d, rng.choice([-3, -2, -1, -0.5, 0.5, 1])))
    rng.shuffle(stmts)
    return dict(consts=['a'], preds=preds, stmts=stmts, queries=[], evidence=[], utilities=utils)


def gen_decision_program(rng):
    """A program with decision facts and ground utility/2 facts (on atoms and on negated atoms)."""
    if rng.random() < 0.25:
        return gen_conj_decision_program(rng)
    P = gen_program(rng, dec_prob=rng.choice([0.3, 0.5, 0.7]), want_queries=False)
    consts, preds = P['consts'], P['preds']
    # sometimes an extra decision that nothing uses, sometimes a decision AD
    if rng.random() < 0.25:
        preds['dx'] = (0, 0)
        P['stmts'].append(('dec', ('dx', ())))
    if rng.random() < 0.15:
        preds['da'] = (1, 0)
        k = rng.randint(2, min(3, len(consts) + 1))
        heads = [('da', (c,)) for c in (consts + ['z'])[:k]]
        P['stmts'].append(('decad', heads))
        der = [p for p in preds if p.startswith('p') and preds[p][0] == 0]
        for h in heads:
            if rng.random() < 0.7:
                hd = (rng.choice(der), ()) if der and rng.random() < 0.7 else None
                if hd is None:
                    preds.setdefault('pz', (0, 2))
                    hd = ('pz', ())
                body = [('pos', h)]
                fs = [s[2] for s in P['stmts'] if s[0] == 'pf']
                if fs and rng.random() < 0.7:
                    body.append(('pos', rng.choice(fs)))
                P['stmts'].append(('rule', hd, body))
    rng.shuffle(P['stmts'])
    defined = set()
    for s in P['stmts']:
        if s[0] in ('pf', 'prule'):
            defined.add(s[2][0])
        elif s[0] in ('fact', 'dec', 'rule'):
            defined.add(s[1][0])
        elif s[0] == 'ad':
            defined |= set(h[0] for _, h in s[1])
        elif s[0] == 'decad':
            defined |= set(h[0] for h in s[1])
    ground_atoms = []
    for p, (ar, l) in preds.items():
        if p not in defined:        # a utility on an undefined predicate is an UnknownClause error, not a DT question
            continue
        for args in itertools.product(consts, repeat=ar):
            ground_atoms.append((p, args))
    decs = [s[1] for s in P['stmts'] if s[0] == 'dec'] + [a for s in P['stmts'] if s[0] == 'decad' for a in s[1]]
    der = [a for a in ground_atoms if a[0].startswith('p')]
    utils = []
    seen = set()
    for _ in range(rng.randint(1, 4)):
        r = rng.random()
        pool = der if (r < 0.55 and der) else (decs if (r < 0.85 and decs) else ground_atoms)
        at = rng.choice(pool)
        pos = rng.random() < 0.7
        if (pos, at) in seen:
            continue
        seen.add((pos, at))
        val = rng.choice([rng.randint(-5, 10), rng.randint(-5, 10), rng.randint(-30, 60) / 10.0])
        utils.append((pos, at, val))
    for s in P['stmts']:                  # every head of a decision AD gets a utility (so that all heads are grounded)
        if s[0] == 'decad':
            for h in s[1]:
                if (True, h) not in seen:
                    seen.add((True, h))
                    utils.append((True, h, rng.randint(-3, 2)))
    if utils and rng.random() < 0.15:     # both polarities of one atom
        pos, at, val = utils[0]
        if (not pos, at) not in seen:
            utils.append((not pos, at, rng.randint(-4, 6)))
    P['utilities'] = utils
    return P


def eu_table(P, max_cost=1 << 13):
    """Brute-force expected utility of every strategy over the *relevant* declared decisions.

    Returns None if too expensive, else (rel_decisions [(cid, atom)], {bits-tuple: Fraction}, decads restricted)."""
    rules, groups, decisions, decads = reference(P)
    preds = P['preds']
    roots = set(at for _, at, _ in P['utilities'])
    cids = relevant_cids(rules, roots)
    groups = [g for g in groups if any(cid in cids for p, cid in g)]
    # a decision AD is relevant as a whole (its constraint couples the heads)
    rel = set(c for c, _ in decisions if c in cids)
    for g in decads:
        if any(c in rel for c in g):
            rel |= set(g)
    rdec = [(c, a) for c, a in decisions if c in rel]
    nworlds = 1
    for g in groups:
        nworlds *= (len(g) + 1)
    if nworlds * (1 << len(rdec)) > max_cost or len(rdec) > 8:
        return None
    opts = world_options(groups)
    table = {}
    for bits in itertools.product([0, 1], repeat=len(rdec)):
        dchosen = set(c for (c, _), b in zip(rdec, bits) if b)
        eu = F(0)
        for combo in itertools.product(*opts):
            w = F(1)
            chosen = set(dchosen)
            for p, c in combo:
                w *= p
                chosen |= c
            if w == 0:
                continue
            m = lfp(rules, preds, chosen)
            for pos, at, val in P['utilities']:
                if (at in m) == pos:
                    eu += w * F(str(val))
        table[bits] = eu
    return rdec, table, [[c for c in g] for g in decads if any(c in rel for c in g)]


# ----------------------------------------------------------------------------------------------- (de)serialisation
def P_to_json(P):
    def enc(x):
        if isinstance(x, F):
            return {'F': '%d/%d' % (x.numerator, x.denominator)}
        if isinstance(x, tuple):
            return {'T': [enc(y) for y in x]}
        if isinstance(x, list):
            return [enc(y) for y in x]
        if isinstance(x, dict):
            return {'D': [[k, enc(v)] for k, v in x.items()]}
        return x
    return enc(P)


def P_from_json(j):
    def dec(x):
        if isinstance(x, dict):
            if 'F' in x:
                return F(x['F'])
            if 'T' in x:
                return tuple(dec(y) for y in x['T'])
            if 'D' in x:
                return {k: dec(v) for k, v in x['D']}
        if isinstance(x, list):
            return [dec(y) for y in x]
        return x
    return dec(j)


def shrink_program(P, still_fails, keys=('stmts', 'utilities', 'queries', 'evidence'), deadline=None):
    """Greedy delta debugging on the statement lists of a generated program (stops at `deadline`, a time.time())."""
    import time
    cur = dict(P)
    changed = True
    while changed and (deadline is None or time.time() < deadline):
        changed = False
        for key in keys:
            i = len(cur.get(key, [])) - 1
            while i >= 0 and (deadline is None or time.time() < deadline):
                cand = dict(cur)
                cand[key] = cur[key][:i] + cur[key][i + 1:]
                try:
                    ok = still_fails(cand)
                except Exception:
                    ok = False
                if ok:
                    cur = cand
                    changed = True
                i -= 1
    return cur


def gen_map_program(rng):
    """Program for the MAP task: queries are probabilistic facts (each declared once), evidence on derived atoms."""
    P = gen_program(rng, want_queries=False)
    pf = [s[2] for s in P['stmts'] if s[0] == 'pf']
    once = [a for a in pf if pf.count(a) == 1 and
            not any(s[0] == 'fact' and s[1] == a for s in P['stmts'])]
    if not once:
        return None
    rng.shuffle(once)
    P['queries'] = once[:rng.randint(1, min(4, len(once)))]
    consts, preds = P['consts'], P['preds']
    defined = set(s[1][0] for s in P['stmts'] if s[0] == 'rule') | set(s[2][0] for s in P['stmts'] if s[0] == 'prule')
    der = [(p, args) for p in sorted(defined) for args in itertools.product(consts, repeat=preds[p][0])]
    evs = []
    if der and rng.random() < 0.8:
        # evidence that holds in one randomly chosen possible world (so that it is consistent)
        rules, groups, _, _ = reference(P)
        chosen = set()
        for g in groups:
            k = rng.randrange(len(g) + 1)
            if k < len(g):
                chosen.add(g[k][1])
        m = lfp(rules, preds, chosen)
        true_der = [a for a in der if a in m]
        for _ in range(rng.randint(1, 2)):
            a = rng.choice(true_der) if true_der and rng.random() < 0.6 else rng.choice(der)
            if all(a != b for b, _ in evs):
                evs.append((a, a in m))
    P['evidence'] = evs
    return P


def witness_map_objective():
    """The pinned witness of finding C21-map-objective."""
    P = dict(consts=['a'], preds={'a': (0, 0), 'b': (0, 0), 'c': (0, 0), 'e': (0, 1)}, utilities=[],
             stmts=[('pf', F(6, 10), ('a', ())), ('pf', F(3, 10), ('b', ())), ('pf', F(5, 10), ('c', ())),
                    ('rule', ('e', ()), [('pos', ('a', ())), ('pos', ('b', ()))]),
                    ('rule', ('e', ()), [('neg', ('a', ())), ('pos', ('c', ()))])],
             queries=[('a', ()), ('b', ())], evidence=[(('e', ()), True)])
    return P


def witness_double_count():
    """Witness of the Lean refutation C21_score_is_eu_unpatched_refuted (utilities on w and on \\+w)."""
    return dict(consts=['a'], preds={'a': (0, 0), 'c': (0, 0), 'w': (0, 1)}, queries=[], evidence=[],
                stmts=[('dec', ('a', ())), ('pf', F(3, 10), ('c', ())),
                       ('rule', ('w', ()), [('pos', ('a', ())), ('pos', ('c', ()))])],
                utilities=[(True, ('w', ()), 5), (False, ('w', ()), 1), (True, ('a', ()), -1)])


def witness_alias():
    """The pinned witness of finding C21-decision-alias-name."""
    return dict(consts=['a'], preds={'f0': (1, 0), 'p0': (1, 1)}, queries=[], evidence=[],
                stmts=[('rule', ('p0', ('X',)), [('pos', ('f0', ('X',))), ('pos', ('f0', ('Y',)))]),
                       ('dec', ('f0', ('a',)))],
                utilities=[(False, ('p0', ('a',)), 5)])


def map_tables(P, maxworlds=1 << 12):
    """Brute force for MAP: posterior marginals of the query facts and the joint posterior of every assignment.
    Returns None / 'inconsistent' / (marginals [Fraction], joint {bits: Fraction})."""
    rules, groups, _, _ = reference(P)
    preds = P['preds']
    qs = list(P['queries'])
    roots = set(qs) | set(a for a, v in P['evidence'])
    cids = relevant_cids(rules, roots)
    groups = [g for g in groups if any(cid in cids for p, cid in g)]
    nworlds = 1
    for g in groups:
        nworlds *= (len(g) + 1)
    if nworlds > maxworlds:
        return None
    Z = F(0)
    joint = {}
    for combo in itertools.product(*world_options(groups)):
        w = F(1)
        chosen = set()
        for p, c in combo:
            w *= p
            chosen |= c
        if w == 0:
            continue
        m = lfp(rules, preds, chosen)
        if all((a in m) == v for a, v in P['evidence']):
            Z += w
            bits = tuple(1 if q in m else 0 for q in qs)
            joint[bits] = joint.get(bits, F(0)) + w
    if Z == 0:
        return 'inconsistent'
    joint = {b: joint.get(b, F(0)) / Z for b in itertools.product([0, 1], repeat=len(qs))}
    marg = [sum(v for b, v in joint.items() if b[i]) for i in range(len(qs))]
    return marg, joint


# ----------------------------------------------------------------------------------------------- time guard
class CaseTimeout(BaseException):
    pass


def with_timeout(seconds, fn, *args, **kw):
    """Run fn under SIGALRM; raises CaseTimeout (the real engine does not terminate on some generated programs)."""
    import signal

    def handler(signum, frame):
        raise CaseTimeout()

    old = signal.signal(signal.SIGALRM, handler)
    signal.alarm(seconds)
    try:
        return fn(*args, **kw)
    finally:
        signal.alarm(0)
        signal.signal(signal.SIGALRM, old)
