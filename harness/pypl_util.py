"""Helpers for C28 (and reusable by other term-level checks): S-expression encoding of Python values and of
problog terms for the Lean drivers, a small S-expression reader, strict (type-aware) equality of Python values."""
from fractions import Fraction
import math

from lib import q, Infra


# --------------------------------------------------------------------------- S-expressions
def parse_sexp(text):
    """Parse one S-expression (atoms stay strings, string tokens keep their quotes)."""
    toks = []
    i, n = 0, len(text)
    while i < n:
        c = text[i]
        if c in "()":
            toks.append(c)
            i += 1
        elif c in " \t":
            i += 1
        elif c == '"':
            j = i + 1
            while j < n and text[j] != '"':
                j += 2 if text[j] == "\\" else 1
            toks.append(text[i:j + 1])
            i = j + 1
        else:
            j = i
            while j < n and text[j] not in "() \t":
                j += 1
            toks.append(text[i:j])
            i = j
    pos = [0]

    def rd():
        t = toks[pos[0]]
        pos[0] += 1
        if t == "(":
            out = []
            while toks[pos[0]] != ")":
                out.append(rd())
            pos[0] += 1
            return out
        if t == ")":
            raise Infra("unbalanced s-expression: " + text)
        return t

    try:
        r = rd()
    except IndexError:
        raise Infra("truncated s-expression: " + text)
    if pos[0] != len(toks):
        raise Infra("trailing tokens in s-expression: " + text)
    return r


def unq(tok):
    """Inverse of lib.q."""
    if not (len(tok) >= 2 and tok[0] == '"' and tok[-1] == '"'):
        raise Infra("not a string token: " + tok)
    out, i, body = [], 0, tok[1:-1]
    while i < len(body):
        if body[i] == "\\" and i + 1 < len(body):
            out.append("\n" if body[i + 1] == "n" else body[i + 1])
            i += 2
        else:
            out.append(body[i])
            i += 1
    return "".join(out)


def frac(x):
    f = Fraction(x)
    return "%d/%d" % (f.numerator, f.denominator) if f.denominator != 1 else "%d" % f.numerator


# --------------------------------------------------------------------------- encoders
class NotEncodable(Exception):
    pass


def enc_pl(t):
    """A problog object (Term / Constant / Var / int) as a `P` expression of Drivers/C28."""
    from problog.logic import Term, Constant, Var
    if type(t) is int:
        return "(iv %d)" % t
    if isinstance(t, Var):
        return "(pv %s)" % q(t.name)
    if isinstance(t, Constant):
        v = t.functor
        if type(v) is int:
            return "(ci %d)" % v
        if type(v) is float:
            if not math.isfinite(v):
                raise NotEncodable("non-finite float")
            return "(cf %s)" % frac(v)
        if type(v) is str:
            return "(cs %s)" % q(v)
        raise NotEncodable("Constant of %s" % type(v))
    if isinstance(t, Term):
        if type(t.functor) is not str:
            raise NotEncodable("functor of %s" % type(t.functor))
        if t.arity == 0:
            return "(a %s)" % q(t.functor)
        if t.arity == 2:
            return "(a2 %s %s %s)" % (q(t.functor), enc_pl(t.args[0]), enc_pl(t.args[1]))
        return "(o %s %d %s)" % (q(t.functor), t.arity, q(str(t)))
    raise NotEncodable("object of %s" % type(t))


def enc_val(v):
    """A Python value as a `V` expression."""
    from problog.logic import Term
    if type(v) is int:
        return "(i %d)" % v
    if type(v) is float:
        if not math.isfinite(v):
            raise NotEncodable("non-finite float")
        return "(f %s)" % frac(v)
    if type(v) is str:
        return "(s %s)" % q(v)
    if type(v) is list:
        return "(l%s)" % "".join(" " + enc_val(x) for x in v)
    if type(v) is tuple:
        return "(t%s)" % "".join(" " + enc_val(x) for x in v)
    if isinstance(v, Term):
        return "(term %s)" % enc_pl(v)
    raise NotEncodable("value of %s" % type(v))


def dec_val(tree):
    """Parsed `V` expression -> Python value (terms are not decoded)."""
    tag = tree[0]
    if tag == "i":
        return int(tree[1])
    if tag == "f":
        return float(Fraction(tree[1]))
    if tag == "s":
        return unq(tree[1])
    if tag == "l":
        return [dec_val(x) for x in tree[1:]]
    if tag == "t":
        return tuple(dec_val(x) for x in tree[1:])
    raise Infra("cannot decode " + str(tree))


def canon(text):
    """Canonical form of a model / implementation output line (whitespace-insensitive)."""
    return parse_sexp(text) if text.startswith("(") else text


# --------------------------------------------------------------------------- strict equality
def same(a, b):
    """Python values equal *and* of the same types at every node (1 != 1.0 != True, [] != ())."""
    if type(a) is not type(b):
        return False
    if type(a) in (list, tuple):
        return len(a) == len(b) and all(same(x, y) for x, y in zip(a, b))
    if type(a) is float:
        return a == b or (a != a and b != b)
    return a == b
