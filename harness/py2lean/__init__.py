"""py2lean — a deliberately small translator from Python `ast` to Lean 4 definitions (DESIGN.md §4.1).

Scope here: the semiring classes of problog/evaluator.py (`Semiring` base defaults, `SemiringProbability`,
`SemiringLogProbability`, `SemiringSymbolic`) and of problog/tasks/mpe.py (`SemiringMPEState`, `SemiringMinPEState`).

    text, items = translate_semirings(repo)

`text` is the complete Lean source of `lean/ProbLogModel/Generated/Semirings.lean`; `items` maps
"Class.method" -> None (translated) or an error string (outside the supported subset: no definition is emitted for
that item; the check records a broken obligation — never a crash).

Supported subset (anything else raises `Unsupported` for the item):
  statements   docstring, `return e`, `raise Exc(...)`, `x = e`, `if/elif/else`, `for w in xs: acc = e` (a fold)
  expressions  names, float/int/str/bool literals (floats become the exact rational of their decimal text), unary
               `-`/`not`, `+ - *`, `/` (raises ZeroDivisionError), `|` on sets, `"fmt" % args` with `%s` only,
               comparison chains, `and`/`or`, conditional expressions, tuples, `t[0]`/`t[1]`, `{e}`, `set()`,
               `sum([x[i] for x in xs])`, `float(x)`/`str(x)` (identity on the modelled external value), `getattr(x, "arity", 0) > 0` (string backend),
               `math.exp/log/log1p`, `float("inf")`/`float("-inf")`, `self.m(args)`, `self.<class attribute>`
  typing       fixed per method name (signature table) and per class (carrier type, external type, number backend)

Inheritance is resolved by the translator: for every concrete class each method of the list is taken from the
first class in the MRO that defines it and translated *in the context of that concrete class* (so `self.one()`
inside the inherited `Semiring.true` refers to the subclass's `one`).  The base class itself is translated
generically over a record of its abstract methods.
"""
import ast
import os
from fractions import Fraction

METHODS = ["one", "zero", "is_one", "is_zero", "plus", "times", "negate", "normalize", "value", "in_domain",
           "ad_complement", "pos_value", "neg_value", "true", "false", "to_evidence", "ad_negate", "result"]

# method name -> (parameter types, result type); C carrier, E external value, K key, B Bool, I Int, L list of C,
# P pair of carriers, U ignored (unit) parameter
SIG = {
    "one": ([], "C"), "zero": ([], "C"), "is_one": (["C"], "B"), "is_zero": (["C"], "B"),
    "plus": (["C", "C"], "C"), "times": (["C", "C"], "C"), "negate": (["C"], "C"), "normalize": (["C", "C"], "C"),
    "value": (["E"], "C"), "in_domain": (["C"], "B"), "ad_complement": (["L", "K"], "C"),
    "pos_value": (["E", "K"], "C"), "neg_value": (["E", "K"], "C"), "true": (["K"], "P"), "false": (["K"], "P"),
    "to_evidence": (["C", "C", "I"], "P"), "ad_negate": (["C", "C"], "C"), "result": (["C", "U"], "C"),
}

LEAN_NAME = {"true": "true_", "false": "false_"}
LEAN_KEYWORDS = {"at", "from", "end", "fun", "do", "then", "else", "if", "let", "have", "show", "in", "by", "with",
                 "match", "open", "def", "theorem", "where", "instance", "class", "structure", "namespace", "at"}

KNOWN_ERRORS = {"InvalidValue", "OperationNotSupported", "NotImplementedError", "ZeroDivisionError", "ValueError"}


class Unsupported(Exception):
    pass


class ClassCfg:
    def __init__(self, name, backend, carrier, external, binders="", targs=""):
        self.name = name          # Python class name
        self.backend = backend    # 'rat' | 'log' | 'str' | 'mpe' | 'abs'
        self.carrier = carrier    # Lean type of internal values
        self.external = external  # Lean type of external values
        self.binders = binders    # extra binders of every def
        self.targs = targs        # explicit type arguments for self-calls


CFG = {
    "Semiring": ClassCfg("Semiring", "abs", "α", "α", "{α : Type} [BEq α] (S : Abs α)", "S"),
    "SemiringProbability": ClassCfg("SemiringProbability", "rat", "Rat", "Rat"),
    "SemiringLogProbability": ClassCfg("SemiringLogProbability", "log", "α", "α", "{α : Type} [LogNum α]", "(α := α)"),
    "SemiringSymbolic": ClassCfg("SemiringSymbolic", "str", "String", "String"),
    "SemiringMPEState": ClassCfg("SemiringMPEState", "mpe", "(Rat × PySet)", "Rat"),
    "SemiringMinPEState": ClassCfg("SemiringMinPEState", "mpe", "(Rat × PySet)", "Rat"),
}
# base-class defaults that are not elements of the subclass's carrier and are never reached there (the subclass
# overrides pos_value/neg_value): not part of the model of that class
EXCLUDE = {("SemiringMPEState", "value"), ("SemiringMinPEState", "value")}
ORDER = ["Semiring", "SemiringProbability", "SemiringLogProbability", "SemiringSymbolic", "SemiringMPEState",
         "SemiringMinPEState"]
FILES = {"Semiring": "problog/evaluator.py", "SemiringProbability": "problog/evaluator.py",
         "SemiringLogProbability": "problog/evaluator.py", "SemiringSymbolic": "problog/evaluator.py",
         "SemiringMPEState": "problog/tasks/mpe.py", "SemiringMinPEState": "problog/tasks/mpe.py"}


def rat_lit(q):
    q = Fraction(q)
    if q.denominator == 1:
        return "(%d : Rat)" % q.numerator if q >= 0 else "(-%d : Rat)" % -q.numerator
    if q >= 0:
        return "(%d/%d : Rat)" % (q.numerator, q.denominator)
    return "(-%d/%d : Rat)" % (-q.numerator, q.denominator)


def lean_str(s):
    return '"' + s.replace("\\", "\\\\").replace('"', '\\"').replace("\n", "\\n") + '"'


class Source:
    """Parsed classes of the two files."""

    def __init__(self, repo):
        self.classes = {}
        self.file_of = {}
        self.texts = {}
        for rel in sorted(set(FILES.values())):
            path = os.path.join(repo, rel)
            text = open(path).read()
            self.texts[rel] = text
            tree = ast.parse(text)
            for node in tree.body:
                if isinstance(node, ast.ClassDef):
                    self.classes.setdefault(node.name, node)
                    self.file_of.setdefault(node.name, rel)

    def mro(self, cname):
        out = []
        while cname in self.classes:
            out.append(cname)
            bases = [b.id for b in self.classes[cname].bases if isinstance(b, ast.Name)]
            if len(self.classes[cname].bases) > 1:
                raise Unsupported("multiple inheritance in " + cname)
            cname = bases[0] if bases else None
        return out

    def find(self, cname, meth):
        """(defining class, FunctionDef) or None."""
        for c in self.mro(cname):
            for node in self.classes[c].body:
                if isinstance(node, ast.FunctionDef) and node.name == meth:
                    return c, node
        return None

    def class_attr(self, cname, attr):
        """Class-level constant `attr` (also from tuple assignments like `inf, ninf = float("inf"), ...`)."""
        for c in self.mro(cname):
            for node in self.classes[c].body:
                if isinstance(node, ast.Assign) and len(node.targets) == 1:
                    t = node.targets[0]
                    if isinstance(t, ast.Name) and t.id == attr:
                        return node.value
                    if isinstance(t, ast.Tuple) and isinstance(node.value, ast.Tuple) and len(t.elts) == len(node.value.elts):
                        for tt, vv in zip(t.elts, node.value.elts):
                            if isinstance(tt, ast.Name) and tt.id == attr:
                                return vv
        return None

    def is_method(self, cname, attr):
        return self.find(cname, attr) is not None


def body_stmts(fn):
    b = list(fn.body)
    if b and isinstance(b[0], ast.Expr) and isinstance(b[0].value, ast.Constant) and isinstance(b[0].value.value, str):
        b = b[1:]
    return b


def is_abstract(fn):
    b = body_stmts(fn)
    if len(b) != 1 or not isinstance(b[0], ast.Raise):
        return False
    e = b[0].exc
    if isinstance(e, ast.Call):
        e = e.func
    return isinstance(e, ast.Name) and e.id == "NotImplementedError"


class Translator:
    def __init__(self, src):
        self.src = src
        self._raises = {}

    # ------------------------------------------------------------------ raising analysis
    def raises(self, cname, meth, stack=()):
        key = (cname, meth)
        if key in self._raises:
            return self._raises[key]
        if key in stack:
            return False
        found = self.src.find(cname, meth)
        if found is None:
            return False
        dc, fn = found
        cfg = CFG[cname]
        if cfg.backend == "abs" and is_abstract(fn):
            self._raises[key] = False
            return False
        r = False
        for node in ast.walk(fn):
            if isinstance(node, ast.Raise):
                r = True
            elif isinstance(node, ast.BinOp) and isinstance(node.op, ast.Div):
                r = True
            elif isinstance(node, ast.Call):
                f = node.func
                if isinstance(f, ast.Attribute) and isinstance(f.value, ast.Name):
                    if f.value.id == "self" and self.src.is_method(cname, f.attr):
                        if self.raises(cname, f.attr, stack + (key,)):
                            r = True
                    elif f.value.id == "math" and f.attr in ("log", "log1p"):
                        r = True
        self._raises[key] = r
        return r

    def self_calls(self, cname, fn):
        out = []
        for node in ast.walk(fn):
            if isinstance(node, ast.Call) and isinstance(node.func, ast.Attribute) and isinstance(node.func.value, ast.Name) \
                    and node.func.value.id == "self" and self.src.is_method(cname, node.func.attr):
                out.append(node.func.attr)
        return out

    # ------------------------------------------------------------------ types
    def lean_type(self, cfg, code):
        c = cfg.carrier
        return {"C": c, "E": cfg.external, "K": "Int", "B": "Bool", "I": "Int", "L": "List %s" % c,
                "P": "(%s × %s)" % (c, c), "U": "Unit"}[code]

    # ------------------------------------------------------------------ one method
    def method(self, cname, meth):
        """Lean text of `def <cname>.<meth>` (raises Unsupported)."""
        cfg = CFG[cname]
        found = self.src.find(cname, meth)
        if found is None:
            raise Unsupported("no such method")
        dc, fn = found
        if meth not in SIG:
            raise Unsupported("no signature for " + meth)
        ptypes, rtype = SIG[meth]
        a = fn.args
        if a.vararg or a.kwarg or a.kwonlyargs or a.posonlyargs:
            raise Unsupported("parameter kinds")
        params = [x.arg for x in a.args]
        if not params or params[0] != "self":
            raise Unsupported("not an instance method")
        params = params[1:]
        if len(params) != len(ptypes):
            raise Unsupported("%d parameters, signature table has %d" % (len(params), len(ptypes)))
        for d in a.defaults:
            if not (isinstance(d, ast.Constant) and d.value is None):
                raise Unsupported("default value other than None")
        ctx = Ctx(self, cname, cfg, meth, dict((p, t) for p, t in zip(params, ptypes)))
        monadic = self.raises(cname, meth)
        ctx.monadic = monadic
        binders = " ".join("(%s : %s)" % (ctx.name(p), self.lean_type(cfg, t)) for p, t in zip(params, ptypes))
        rt = self.lean_type(cfg, rtype)
        if cfg.backend == "abs" and is_abstract(fn):
            raise Unsupported("abstract")  # handled by caller
        if is_abstract(fn):
            body = "  throw PyErr.NotImplementedError"
            monadic = ctx.monadic = True
        else:
            body = ctx.block(body_stmts(fn), 1)
        head = "def %s.%s" % (cname, LEAN_NAME.get(meth, meth))
        pre = " ".join(x for x in [cfg.binders, binders] if x)
        where = "%s:%d %s.%s" % (self.src.file_of[dc], fn.lineno, dc, meth)
        if monadic:
            return "/-- %s -/\n%s %s : PyRes %s := do\n%s\n" % (where, head, pre, rt, body)
        return "/-- %s -/\n%s %s : %s :=\n%s\n" % (where, head, pre, rt, body)


class Ctx:
    def __init__(self, tr, cname, cfg, meth, ptypes):
        self.tr = tr
        self.cname = cname
        self.cfg = cfg
        self.meth = meth
        self.vars = dict(ptypes)  # python name -> type code ('?' unknown)
        self.monadic = False
        self._used = False

    def name(self, n):
        return "«%s»" % n if n in LEAN_KEYWORDS else n

    # ---------------------------------------------------------------- statements
    def block(self, stmts, ind):
        pad = "  " * ind
        if not stmts:
            raise Unsupported("control reaches the end of the function (implicit None)")
        s, rest = stmts[0], stmts[1:]
        if isinstance(s, ast.Expr) and isinstance(s.value, ast.Constant) and isinstance(s.value.value, str):
            return self.block(rest, ind)
        if isinstance(s, ast.Pass):
            return self.block(rest, ind)
        if isinstance(s, ast.Return):
            if s.value is None:
                raise Unsupported("return without value")
            e = self.expr(s.value)
            return pad + ("pure (%s)" % e if self.monadic else "(%s)" % e)
        if isinstance(s, ast.Raise):
            if not self.monadic:
                raise Unsupported("raise in a method analysed as non-raising")
            return pad + "throw (%s)" % self.exc(s.exc)
        if isinstance(s, ast.Assign):
            if len(s.targets) != 1 or not isinstance(s.targets[0], ast.Name):
                raise Unsupported("assignment target")
            v = s.targets[0].id
            e = self.expr(s.value)
            self.vars[v] = "?"
            if not rest:
                raise Unsupported("assignment at the end of the function")
            sep = "" if self.monadic else ";"
            return pad + "let %s := %s%s\n" % (self.name(v), e, sep) + self.block(rest, ind)
        if isinstance(s, ast.If):
            c = self.cond(s.test)
            then_returns = self.always_exits(s.body)
            if s.orelse:
                if rest and not (then_returns and self.always_exits(s.orelse)):
                    raise Unsupported("if/else that falls through")
                t = self.block(s.body, ind + 1)
                f = self.block(s.orelse, ind + 1)
            else:
                if not then_returns:
                    raise Unsupported("if without else that falls through")
                t = self.block(s.body, ind + 1)
                f = self.block(rest, ind + 1)
            if self.monadic:
                return "%sif %s then do\n%s\n%selse do\n%s" % (pad, c, t, pad, f)
            return "%sif %s then\n%s\n%selse\n%s" % (pad, c, t, pad, f)
        if isinstance(s, ast.For):
            if s.orelse or not isinstance(s.target, ast.Name) or len(s.body) != 1:
                raise Unsupported("for loop shape")
            b = s.body[0]
            if not (isinstance(b, ast.Assign) and len(b.targets) == 1 and isinstance(b.targets[0], ast.Name)):
                raise Unsupported("for loop body is not a single accumulator assignment")
            acc = b.targets[0].id
            if acc not in self.vars:
                raise Unsupported("accumulator not initialised")
            w = s.target.id
            saved = dict(self.vars)
            self.vars[w] = "?"
            e, used = self.expr_m(b.value)
            self.vars = saved
            it = self.expr(s.iter)
            if not rest:
                raise Unsupported("for loop at the end of the function")
            if used:
                line = "let %s ← List.foldlM (fun %s %s => do pure (%s)) %s %s" % (
                    self.name(acc), self.name(acc), self.name(w), e, self.name(acc), it)
            else:
                sep = "" if self.monadic else ";"
                line = "let %s := List.foldl (fun %s %s => %s) %s %s%s" % (
                    self.name(acc), self.name(acc), self.name(w), e, self.name(acc), it, sep)
            return pad + line + "\n" + self.block(rest, ind)
        raise Unsupported("statement " + type(s).__name__)

    def always_exits(self, stmts):
        if not stmts:
            return False
        s = stmts[-1]
        if isinstance(s, (ast.Return, ast.Raise)):
            return True
        if isinstance(s, ast.If):
            return bool(s.orelse) and self.always_exits(s.body) and self.always_exits(s.orelse)
        return False

    def exc(self, e):
        if e is None:
            raise Unsupported("bare raise")
        if isinstance(e, ast.Call):
            e = e.func
        if not isinstance(e, ast.Name):
            raise Unsupported("exception expression")
        if e.id in KNOWN_ERRORS:
            return "PyErr.%s" % e.id
        return "PyErr.Other %s" % lean_str(e.id)

    # ---------------------------------------------------------------- expressions
    def expr_m(self, e):
        """Translate and report whether a raising call (nested action) was used."""
        self._used = False
        t = self.expr(e)
        return t, self._used

    def bind(self, call):
        if not self.monadic:
            raise Unsupported("raising operation in a method analysed as non-raising")
        self._used = True
        return "(← %s)" % call

    def cond(self, e):
        """A Bool-valued expression."""
        return self.expr(e, want_bool=True)

    def lit(self, q):
        b = self.cfg.backend
        if b == "log":
            return "(LogNum.ofRat %s : α)" % rat_lit(q)
        return rat_lit(q)

    def num_const(self, v, text=None):
        # floats: exact rational of the decimal text; ints stay bare numerals (typed by context)
        if isinstance(v, bool):
            return "Bool.true" if v else "Bool.false"
        if isinstance(v, int):
            return "%d" % v if v >= 0 else "(%d)" % v
        if isinstance(v, float):
            return self.lit(Fraction(text if text is not None else repr(v)))
        raise Unsupported("constant %r" % (v,))

    def const_text(self, node):
        """Decimal source text of a float literal (exactly as written in the file)."""
        seg = ast.get_source_segment(self.tr.src.texts[self.tr.src.file_of[self.def_class()]], node)
        return seg

    def def_class(self):
        return self.tr.src.find(self.cname, self.meth)[0]

    def float_lit(self, node, neg=False):
        seg = self.const_text(node)
        try:
            q = Fraction(seg.replace("_", ""))
        except Exception:
            q = Fraction(repr(node.value))
        return self.lit(-q if neg else q)

    def expr(self, e, want_bool=False):
        b = self.cfg.backend
        if isinstance(e, ast.Constant):
            v = e.value
            if isinstance(v, str):
                return lean_str(v)
            if isinstance(v, float):
                return self.float_lit(e)
            if v is None:
                raise Unsupported("None value")
            return self.num_const(v)
        if isinstance(e, ast.Name):
            if e.id not in self.vars:
                raise Unsupported("free name " + e.id)
            return self.name(e.id)
        if isinstance(e, ast.UnaryOp):
            if isinstance(e.op, ast.USub):
                if isinstance(e.operand, ast.Constant) and isinstance(e.operand.value, float):
                    return self.float_lit(e.operand, neg=True)
                if isinstance(e.operand, ast.Constant) and isinstance(e.operand.value, int) and not isinstance(e.operand.value, bool):
                    return "(-%d)" % e.operand.value
                return "(-%s)" % self.expr(e.operand)
            if isinstance(e.op, ast.Not):
                return "(!%s)" % self.cond(e.operand)
            raise Unsupported("unary operator")
        if isinstance(e, ast.BinOp):
            if isinstance(e.op, ast.Mod):
                return self.fmt(e)
            l, r = self.expr(e.left), self.expr(e.right)
            if isinstance(e.op, ast.Add):
                return "(%s + %s)" % (l, r)
            if isinstance(e.op, ast.Sub):
                return "(%s - %s)" % (l, r)
            if isinstance(e.op, ast.Mult):
                if b == "log":
                    raise Unsupported("multiplication in the log backend")
                return "(%s * %s)" % (l, r)
            if isinstance(e.op, ast.Div):
                if b in ("rat", "mpe"):
                    return self.bind("pyDivRat %s %s" % (l, r))
                raise Unsupported("division in backend " + b)
            if isinstance(e.op, ast.BitOr):
                return "(PySet.union %s %s)" % (l, r)
            raise Unsupported("binary operator " + type(e.op).__name__)
        if isinstance(e, ast.Compare):
            parts = []
            left = e.left
            for op, right in zip(e.ops, e.comparators):
                parts.append(self.compare(left, op, right))
                left = right
            return parts[0] if len(parts) == 1 else "(" + " && ".join(parts) + ")"
        if isinstance(e, ast.BoolOp):
            op = " && " if isinstance(e.op, ast.And) else " || "
            return "(" + op.join(self.cond(v) for v in e.values) + ")"
        if isinstance(e, ast.IfExp):
            return "(if %s then %s else %s)" % (self.cond(e.test), self.expr(e.body), self.expr(e.orelse))
        if isinstance(e, ast.Tuple):
            if len(e.elts) != 2:
                raise Unsupported("tuple of length %d" % len(e.elts))
            return "(%s, %s)" % (self.expr(e.elts[0]), self.expr(e.elts[1]))
        if isinstance(e, ast.Subscript):
            i = e.slice
            if isinstance(i, ast.Constant) and i.value in (0, 1):
                return "%s.%d" % (self.atom(e.value), i.value + 1)
            raise Unsupported("subscript")
        if isinstance(e, ast.Set):
            if len(e.elts) != 1:
                raise Unsupported("set display")
            return "(PySet.single %s)" % self.expr(e.elts[0])
        if isinstance(e, ast.Attribute):
            if isinstance(e.value, ast.Name) and e.value.id == "self":
                if self.tr.src.is_method(self.cname, e.attr):
                    raise Unsupported("bound method used as a value")
                v = self.tr.src.class_attr(self.cname, e.attr)
                if v is None:
                    raise Unsupported("unknown attribute self." + e.attr)
                return self.expr(v)
            raise Unsupported("attribute")
        if isinstance(e, ast.Call):
            return self.call(e)
        raise Unsupported("expression " + type(e).__name__)

    def atom(self, e):
        t = self.expr(e)
        return t if isinstance(e, ast.Name) else "(%s)" % t

    def is_bound_method(self, e):
        return isinstance(e, ast.Attribute) and isinstance(e.value, ast.Name) and e.value.id == "self" \
            and self.tr.src.is_method(self.cname, e.attr)

    def compare(self, left, op, right):
        # `value == self.one` (a bound method object): a number, string or tuple is never equal to it
        if self.is_bound_method(left) or self.is_bound_method(right):
            other = right if self.is_bound_method(left) else left
            self.expr(other)  # must itself be translatable
            if isinstance(op, ast.Eq):
                return "Bool.false /- compared with a bound method object: never equal -/"
            if isinstance(op, ast.NotEq):
                return "Bool.true /- compared with a bound method object: never equal -/"
            raise Unsupported("ordering comparison with a bound method")
        # `getattr(x, "arity", 0) > 0` on the external value of the string backend: "x is a compound term".  The model
        # carries external values as their text, so the test becomes a test on the text (PyStr.isCompound).
        if self.cfg.backend == "str" and isinstance(op, ast.Gt) and isinstance(right, ast.Constant) and right.value == 0 \
                and isinstance(left, ast.Call) and isinstance(left.func, ast.Name) and left.func.id == "getattr" \
                and len(left.args) == 3 and not left.keywords and isinstance(left.args[0], ast.Name) \
                and self.vars.get(left.args[0].id) == "E" \
                and isinstance(left.args[1], ast.Constant) and left.args[1].value == "arity" \
                and isinstance(left.args[2], ast.Constant) and left.args[2].value == 0:
            return "(PyStr.isCompound %s)" % self.expr(left.args[0])
        l, r = self.expr(left), self.expr(right)
        if isinstance(op, ast.Eq):
            return "(%s == %s)" % (l, r)
        if isinstance(op, ast.NotEq):
            return "(%s != %s)" % (l, r)
        if self.cfg.backend in ("str", "abs") and not (self.is_int(left) and self.is_int(right)):
            raise Unsupported("ordering comparison in backend " + self.cfg.backend)
        sym = {ast.Lt: "<", ast.LtE: "≤", ast.Gt: ">", ast.GtE: "≥"}.get(type(op))
        if sym is None:
            raise Unsupported("comparison operator " + type(op).__name__)
        return "decide (%s %s %s)" % (l, sym, r)

    def is_int(self, e):
        """Syntactically an integer: an int literal or a parameter typed Int by the signature table."""
        if isinstance(e, ast.Constant):
            return isinstance(e.value, int) and not isinstance(e.value, bool)
        if isinstance(e, ast.Name):
            return self.vars.get(e.id) in ("I", "K")
        if isinstance(e, ast.UnaryOp) and isinstance(e.op, ast.USub):
            return self.is_int(e.operand)
        return False

    def fmt(self, e):
        if not (isinstance(e.left, ast.Constant) and isinstance(e.left.value, str)):
            raise Unsupported("% with a non-literal format")
        args = e.right.elts if isinstance(e.right, ast.Tuple) else [e.right]
        pieces = e.left.value.split("%s")
        if "%" in "".join(pieces):
            raise Unsupported("format directive other than %s")
        if len(pieces) != len(args) + 1:
            raise Unsupported("format arity")
        out = []
        for i, p in enumerate(pieces):
            if p:
                out.append(lean_str(p))
            if i < len(args):
                out.append(self.expr(args[i]))
        return "(" + " ++ ".join(out) + ")"

    def call(self, e):
        f = e.func
        if e.keywords:
            raise Unsupported("keyword arguments")
        b = self.cfg.backend
        if isinstance(f, ast.Name):
            if f.id == "float":
                if len(e.args) != 1:
                    raise Unsupported("float arity")
                a = e.args[0]
                if isinstance(a, ast.Constant) and isinstance(a.value, str):
                    if b != "log":
                        raise Unsupported("infinity outside the log backend")
                    s = a.value.strip().lower()
                    if s in ("inf", "+inf", "infinity"):
                        return "(LogNum.inf : α)"
                    if s in ("-inf", "-infinity"):
                        return "(LogNum.ninf : α)"
                    raise Unsupported("float of a string")
                if b == "str":
                    raise Unsupported("float() in the string backend")
                return self.expr(a)  # external numeric value is already a number of the backend
            if f.id == "str":
                if len(e.args) != 1 or b != "str":
                    raise Unsupported("str()")
                return self.expr(e.args[0])
            if f.id == "set" and not e.args:
                return "PySet.empty"
            if f.id == "sum" and len(e.args) == 1 and isinstance(e.args[0], ast.ListComp):
                lc = e.args[0]
                if len(lc.generators) != 1 or lc.generators[0].ifs or not isinstance(lc.generators[0].target, ast.Name):
                    raise Unsupported("comprehension shape")
                x = lc.generators[0].target.id
                saved = dict(self.vars)
                self.vars[x] = "?"
                elt = self.expr(lc.elt)
                self.vars = saved
                return "(List.sum (List.map (fun %s => %s) %s))" % (self.name(x), elt, self.expr(lc.generators[0].iter))
            raise Unsupported("call of " + f.id)
        if isinstance(f, ast.Attribute) and isinstance(f.value, ast.Name):
            if f.value.id == "math":
                if b != "log" or len(e.args) != 1:
                    raise Unsupported("math.%s outside the log backend" % f.attr)
                a = self.expr(e.args[0])
                if f.attr == "exp":
                    return "(LogNum.exp %s)" % a
                if f.attr == "log":
                    return self.bind("pyLog %s" % a)
                if f.attr == "log1p":
                    return self.bind("pyLog1p %s" % a)
                raise Unsupported("math." + f.attr)
            if f.value.id == "self":
                m = f.attr
                found = self.tr.src.find(self.cname, m)
                if found is None:
                    raise Unsupported("self.%s is not a method" % m)
                dc, fn = found
                nparams = len(fn.args.args) - 1
                if len(e.args) != nparams:
                    raise Unsupported("call of self.%s with %d of %d arguments" % (m, len(e.args), nparams))
                args = [self.atom(a) if not isinstance(a, ast.Name) else self.expr(a) for a in e.args]
                if b == "abs" and is_abstract(fn):
                    if m not in ("one", "zero", "plus", "times"):
                        raise Unsupported("abstract method " + m)
                    return "(" + " ".join(["S.%s" % m] + args) + ")" if args else "S.%s" % m
                if m not in SIG:
                    raise Unsupported("self.%s is outside the translated method list" % m)
                head = "%s.%s" % (self.cname, LEAN_NAME.get(m, m))
                parts = [head] + ([self.cfg.targs] if self.cfg.targs else []) + args
                txt = " ".join(parts)
                if self.tr.raises(self.cname, m):
                    return self.bind(txt)
                return "(%s)" % txt if len(parts) > 1 else txt
        raise Unsupported("call")


HEADER = """/-
GENERATED by harness/py2lean from the Python sources below — DO NOT EDIT.
Regenerated and compared on every run of `./check C12` / `./check C30` (harness/semiring_util.py).
%s
Floats are the exact rationals of their decimal source text.  Methods that can raise return `PyRes`.
-/
import ProbLogModel.SemiringPrelude
namespace ProbLogModel.Generated
open ProbLogModel.SemiringPrelude
set_option linter.unusedVariables false

"""


def translate_semirings(repo):
    """Returns (lean text, {item: None | error string}, [defined lean names])."""
    src = Source(repo)
    tr = Translator(src)
    items = {}
    out = []
    for cname in ORDER:
        if cname not in src.classes:
            for m in METHODS:
                items["%s.%s" % (cname, m)] = "class not found"
            continue
        cfg = CFG[cname]
        try:
            mro = src.mro(cname)
        except Unsupported as ex:
            for m in METHODS:
                items["%s.%s" % (cname, m)] = str(ex)
            continue
        out.append("/-! ## class %s  (%s; MRO %s) -/\n" % (cname, src.file_of[cname], " → ".join(mro)))
        # methods of the list that exist for this class, dependencies first
        present = [m for m in METHODS if src.find(cname, m) is not None and (cname, m) not in EXCLUDE]
        done, emitted = set(), []

        def visit(m, stack=()):
            if m in done or m in stack:
                return
            found = src.find(cname, m)
            if found is None:
                return
            for d in tr.self_calls(cname, found[1]):
                if d in SIG:
                    visit(d, stack + (m,))
            done.add(m)
            emitted.append(m)

        for m in present:
            visit(m)
        failed = set()
        for m in emitted:
            key = "%s.%s" % (cname, m)
            found = src.find(cname, m)
            if cfg.backend == "abs" and is_abstract(found[1]):
                if m in ("one", "zero", "plus", "times"):
                    items[key] = None
                    out.append("-- %s:%d %s.%s is abstract (raise NotImplementedError): field `Abs.%s`\n" % (
                        src.file_of[found[0]], found[1].lineno, found[0], m, m))
                else:
                    items[key] = "abstract method outside Abs"
                continue
            deps = [d for d in tr.self_calls(cname, found[1]) if d in failed]
            if deps:
                items[key] = "depends on untranslatable %s" % deps
                failed.add(m)
                out.append("-- UNTRANSLATABLE %s: %s\n" % (key, items[key]))
                continue
            try:
                txt = tr.method(cname, m)
                items[key] = None
                out.append(txt)
            except Unsupported as ex:
                items[key] = "unsupported: %s" % ex
                failed.add(m)
                out.append("-- UNTRANSLATABLE %s: %s\n" % (key, ex))
            except Exception as ex:  # a translator bug must not crash the check
                items[key] = "translator error: %s: %s" % (type(ex).__name__, ex)
                failed.add(m)
                out.append("-- UNTRANSLATABLE %s: %s\n" % (key, items[key]))
    srcs = "\n".join("  %s" % f for f in sorted(set(FILES.values())))
    text = HEADER % srcs + "\n".join(out) + "\nend ProbLogModel.Generated\n"
    return text, items
