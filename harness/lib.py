"""Shared machinery for the per-property checks (see DESIGN.md sections 2-4, 9, 10).

Every check is `harness/props/cXX.py` with a function `run(ctx)`; this module gives it
  * the Lean side: build of the property's modules, axiom audit, forbidden-construct grep, compiled drivers;
  * the protocol: obligations, cases, samples, disagreements, failures, known findings, replays, evidence;
  * exit codes: 0 = held, 1 = VIOLATION line printed, 2 = infrastructure problem (never a VIOLATION line).
"""
import fcntl
import hashlib
import json
import os
import random
import re
import subprocess
import sys
import time
import traceback

HERE = os.path.dirname(os.path.abspath(__file__))
VERIF = os.path.dirname(HERE)
LEAN = os.path.join(VERIF, "lean")
REPO = os.environ.get("VERIF_REPO", "/repo")
GUARD = "ML_KULEUVEN_PROBLOG_VERIF"
ALLOWED_AXIOMS = {"propext", "Classical.choice", "Quot.sound"}
FORBIDDEN = re.compile(
    r"\bsorry\b|\badmit\b|^\s*axiom\s|native_decide|bv_decide|implemented_by|\bunsafe\s|maxHeartbeats\s+0\b|\bopaque\b"
)
TRUSTED_BASE = [
    "Lean 4.33.0 kernel",
    "axioms allowed: propext, Classical.choice, Quot.sound (audited with #print axioms on every run)",
    "Mathlib v4.33.0 single modules imported by the proof files",
    "Python harness (generators, canonicalisation, line protocol) and Lean driver I/O glue",
    "the Lean compiler/runtime executing the model in the compiled driver",
]


class Infra(Exception):
    """Infrastructure failure: exit 2, never a VIOLATION."""


def sh(cmd, cwd=None, timeout=None, env=None, input=None):
    e = dict(os.environ)
    if env:
        e.update(env)
    p = subprocess.run(cmd, cwd=cwd, timeout=timeout, env=e, input=input, capture_output=True, text=True)
    return p.returncode, p.stdout, p.stderr


class LakeLock:
    def __enter__(self):
        os.makedirs(os.path.join(LEAN, ".lake"), exist_ok=True)
        self.f = open(os.path.join(LEAN, ".lake", "verif.lock"), "w")
        fcntl.flock(self.f, fcntl.LOCK_EX)
        return self

    def __exit__(self, *a):
        fcntl.flock(self.f, fcntl.LOCK_UN)
        self.f.close()


def strip_comments(text):
    """Remove Lean block comments (nested) and line comments, keeping line structure."""
    out = []
    i, n, depth = 0, len(text), 0
    while i < n:
        if text.startswith("/-", i):
            depth += 1
            i += 2
        elif depth and text.startswith("-/", i):
            depth -= 1
            i += 2
        elif depth:
            if text[i] == "\n":
                out.append("\n")
            i += 1
        elif text.startswith("--", i):
            while i < n and text[i] != "\n":
                i += 1
        else:
            out.append(text[i])
            i += 1
    return "".join(out)


class Ctx:
    def __init__(self, pid, tier, seed, replay=None):
        self.pid = pid
        self.tier = tier
        self.seed = seed
        self.replay_in = replay
        self.t0 = time.time()
        self.lean_s = 0.0   # wall time spent in lake / leanc / audits (excluded from the work budgets)
        self.rng = random.Random("%s:%d" % (pid, seed))
        self.obligations = []  # (name, ok, detail)
        self.evaluations = 0
        self.distinct = set()
        self.samples = []
        self.dist = {}
        self.failures = []  # concrete property failures on the implementation (not known)
        self.known_hits = {}  # finding id -> [count, first description]
        self.broken = []  # broken obligations / correspondence (name, detail)
        self.disagreements_checked = 0
        self.extra = {}
        self.assumptions = []
        self.notes = []
        self.rule = ""
        self.level = "proof"
        self.checker_cmd = ""
        self.programs = 0
        kf = os.path.join(VERIF, "known_findings.json")
        self.known = json.load(open(kf)) if os.path.exists(kf) else {"findings": [], "fixed": []}

    # ------------------------------------------------------------------ randomness
    def sub_rng(self, name):
        return random.Random("%s:%d:%s" % (self.pid, self.seed, name))

    def quick(self):
        return self.tier == "quick"

    def budget(self, quick, thorough):
        return quick if self.tier == "quick" else thorough

    # ------------------------------------------------------------------ Lean side
    def lean_build(self, targets, timeout=3000):
        """`lake build targets` under the lock. Returns (ok, log)."""
        with LakeLock():
            rc, out, err = sh(["lake", "build"] + list(targets), cwd=LEAN, timeout=timeout)
        return rc == 0, out + err

    def build_exe(self, root_module, timeout=1200):
        """Build `Drivers.X` to C, compile and link it into lean/.lake/build/bin/<name>; returns the path.

        Drivers import ProbLogModel only (no Mathlib) so they link with plain leanc."""
        name = root_module.split(".")[-1].lower()
        bindir = os.path.join(LEAN, ".lake", "build", "bin")
        exe = os.path.join(bindir, "drv_" + name)
        with LakeLock():
            rc, out, err = sh(["lake", "build", root_module], cwd=LEAN, timeout=timeout)
            if rc != 0:
                return None, out + err
            # collect the module closure inside this package from the .ilean/.c files lake produced
            irdir = os.path.join(LEAN, ".lake", "build", "ir")
            mods = self._closure(root_module)
            cfiles = []
            for m in mods:
                c = os.path.join(irdir, m.replace(".", "/") + ".c")
                if not os.path.exists(c):
                    rc, out, err = sh(["lake", "build", m + ":c"], cwd=LEAN, timeout=timeout)
                    if rc != 0 or not os.path.exists(c):
                        return None, "no C for %s\n%s%s" % (m, out, err)
                cfiles.append(c)
            os.makedirs(bindir, exist_ok=True)
            stamp = exe + ".stamp"
            h = hashlib.sha256()
            for c in sorted(cfiles):
                h.update(open(c, "rb").read())
            digest = h.hexdigest()
            if os.path.exists(exe) and os.path.exists(stamp) and open(stamp).read() == digest:
                return exe, "up to date"
            rc, out, err = sh(["leanc", "-O2", "-o", exe] + cfiles, cwd=LEAN, timeout=timeout)
            if rc != 0:
                return None, out + err
            open(stamp, "w").write(digest)
        return exe, "built"

    def _closure(self, root):
        seen, todo = [], [root]
        while todo:
            m = todo.pop()
            if m in seen:
                continue
            seen.append(m)
            path = os.path.join(LEAN, m.replace(".", "/") + ".lean")
            if not os.path.exists(path):
                raise Infra("module source missing: " + path)
            for line in open(path):
                mm = re.match(r"\s*(?:public\s+)?import\s+([\w.]+)", line)
                if mm and (mm.group(1).startswith("ProbLogModel") or mm.group(1).startswith("Drivers")):
                    todo.append(mm.group(1))
        return seen

    def audit(self, module, theorems, timeout=1200):
        """#print axioms for every theorem of `module`; returns {name: [axioms]} or raises Infra on tool failure.

        A theorem that does not exist (or whose module does not build) is reported as missing (value None)."""
        src = "import %s\n" % module + "".join("#print axioms %s\n" % t for t in theorems)
        d = os.path.join(LEAN, ".lake", "audit")
        os.makedirs(d, exist_ok=True)
        f = os.path.join(d, "%s_%d.lean" % (self.pid, os.getpid()))
        open(f, "w").write(src)
        with LakeLock():
            rc, out, err = sh(["lake", "env", "lean", f], cwd=LEAN, timeout=timeout)
        os.unlink(f)
        txt = out + err
        res = {t: None for t in theorems}
        for m in re.finditer(r"'([^']+)' depends on axioms: \[([^\]]*)\]", txt, re.S):
            res[m.group(1)] = [a.strip() for a in m.group(2).replace("\n", " ").split(",") if a.strip()]
        for m in re.finditer(r"'([^']+)' does not depend on any axioms", txt):
            res[m.group(1)] = []
        return res, txt

    def grep_forbidden(self, modules):
        hits = []
        for m in modules:
            path = os.path.join(LEAN, m.replace(".", "/") + ".lean")
            if not os.path.exists(path):
                hits.append((m, 0, "missing file"))
                continue
            body = strip_comments(open(path).read())
            for i, line in enumerate(body.split("\n"), 1):
                if FORBIDDEN.search(line):
                    hits.append((m, i, line.strip()))
        return hits

    @property
    def t_work(self):
        """Start of the check shifted by the time spent building / auditing Lean: wall-clock budgets of the input
        streams are measured from here, so a slow `lake build` (loaded machine, cold cache) does not eat them."""
        return self.t0 + self.lean_s

    def proof_phase(self, module, theorems, extra_modules=(), refutations=()):
        t = time.time()
        try:
            return self._proof_phase(module, theorems, extra_modules, refutations)
        finally:
            self.lean_s += time.time() - t

    def _proof_phase(self, module, theorems, extra_modules=(), refutations=()):
        """Build the property module, audit every listed theorem, grep for forbidden constructs.

        Each theorem is one obligation. `refutations` are theorems that prove the *negation* of a property
        clause on the current model (kept visible; they are findings, not obligations of the property)."""
        ok, log = self.lean_build([module])
        self.checker_cmd = "cd lean && lake build %s && lake env lean <#print axioms for %d theorems>" % (
            module,
            len(theorems),
        )
        mods = [module] + list(extra_modules) + [m for m in self._proof_closure(module)]
        mods = list(dict.fromkeys(mods))
        if not ok:
            tail = "\n".join(log.strip().split("\n")[-30:])
            for t in theorems:
                self.obligations.append((t, False, "module %s does not build" % module))
            self.broken.append(("lake build " + module, tail))
            return False
        res, txt = self.audit(module, list(theorems) + list(refutations))
        allok = True
        for t in theorems:
            ax = res.get(t)
            if ax is None:
                self.obligations.append((t, False, "theorem missing"))
                self.broken.append(("theorem " + t, "not found in " + module))
                allok = False
            elif not set(ax) <= ALLOWED_AXIOMS:
                self.obligations.append((t, False, "axioms %s" % ax))
                self.broken.append(("axioms of " + t, str(ax)))
                allok = False
            else:
                self.obligations.append((t, True, "axioms %s" % ax))
        for t in refutations:
            self.notes.append("refutation %s: %s" % (t, res.get(t)))
        if self.tier == "thorough" and os.environ.get("VERIF_LEANCHECKER", "1") != "0":
            # independent re-check of the compiled .olean files of the property module (thorough tier only)
            try:
                self.leanchecker([module])
            except subprocess.TimeoutExpired:
                self.notes.append("leanchecker timed out on %s (not counted)" % module)
        hits = self.grep_forbidden(mods)
        if hits:
            self.obligations.append(("no sorry/axiom/native_decide in %d modules" % len(mods), False, str(hits[:5])))
            self.broken.append(("forbidden construct", str(hits[:5])))
            allok = False
        else:
            self.obligations.append(("no sorry/axiom/native_decide in %d modules" % len(mods), True, ""))
        return allok

    def _proof_closure(self, root):
        seen, todo = [], [root]
        while todo:
            m = todo.pop()
            if m in seen:
                continue
            seen.append(m)
            path = os.path.join(LEAN, m.replace(".", "/") + ".lean")
            if not os.path.exists(path):
                continue
            for line in open(path):
                mm = re.match(r"\s*(?:public\s+)?import\s+([\w.]+)", line)
                if mm and mm.group(1).split(".")[0] in ("ProbLogModel", "ProbLogProofs"):
                    todo.append(mm.group(1))
        return seen

    def leanchecker(self, modules, timeout=3000):
        with LakeLock():
            rc, out, err = sh(["lake", "env", "leanchecker"] + list(modules), cwd=LEAN, timeout=timeout)
        ok = rc == 0
        self.obligations.append(("leanchecker " + " ".join(modules), ok, (out + err)[-300:]))
        if not ok:
            self.broken.append(("leanchecker", (out + err)[-2000:]))
        return ok

    def driver(self, root_module):
        t = time.time()
        try:
            exe, log = self.build_exe(root_module)
        finally:
            self.lean_s += time.time() - t
        if exe is None:
            self.obligations.append(("driver %s builds" % root_module, False, log[-500:]))
            self.broken.append(("driver build " + root_module, "\n".join(log.strip().split("\n")[-30:])))
            return None
        return Driver(exe)

    # ------------------------------------------------------------------ bookkeeping
    def case(self, key=None, nontrivial=True, n=1):
        self.evaluations += n
        if key is not None and nontrivial:
            if not isinstance(key, (str, bytes)):
                key = json.dumps(key, sort_keys=True, default=str)
            self.distinct.add(hashlib.md5(key.encode() if isinstance(key, str) else key).digest())

    def sample(self, obj, limit=6):
        if len(self.samples) < limit:
            self.samples.append(obj)

    def count(self, key, n=1):
        self.dist[key] = self.dist.get(key, 0) + n

    def obligation(self, name, ok, detail=""):
        self.obligations.append((name, bool(ok), detail))
        if not ok:
            self.broken.append((name, detail))

    def disagree(self, name, detail):
        """Model and implementation differ (correspondence broken): not by itself a violation."""
        self.disagreements_checked += 1
        if len(self.broken) < 50:
            self.broken.append(("correspondence " + name, detail))

    def known_match(self, signature):
        """Id of the known finding a failure signature matches, or None."""
        sig = dict(signature or {})
        sig.setdefault("property", self.pid)
        for f in self.known.get("findings", []):
            if f.get("property") == self.pid and all(sig.get(k) == v for k, v in f.get("match", {}).items()):
                return f["id"]
        return None

    def fail(self, what, replay, signature=None):
        """A concrete input on which the *property* fails against the real code."""
        sig = dict(signature or {})
        sig.setdefault("property", self.pid)
        for f in self.known.get("findings", []):
            if f.get("property") != self.pid:
                continue
            if all(sig.get(k) == v for k, v in f.get("match", {}).items()):
                hit = self.known_hits.setdefault(f["id"], [0, what, f.get("what", "")])
                hit[0] += 1
                return "known"
        self.failures.append((what, replay, sig))
        return "new"

    def write_replay(self, obj, tag="violation"):
        d = os.environ.get("VERIF_REPLAY_DIR") or os.path.join(VERIF, "replays")
        os.makedirs(d, exist_ok=True)
        path = os.path.join(d, "%s_%s_seed%d.json" % (self.pid, tag, self.seed))
        json.dump(obj, open(path, "w"), indent=1, default=str)
        return os.path.relpath(path, VERIF)

    # ------------------------------------------------------------------ verdict
    def finish(self, level=None, explanation=None):
        level = level or self.level
        wall = time.time() - self.t0
        for fid, (n, what, desc) in sorted(self.known_hits.items()):
            print("KNOWN-FINDING: property=%s %s — %s (%d occurrence%s this run; first: %s)" % (
                self.pid, fid, desc, n, "" if n == 1 else "s", what))
        nviol = 0
        rc = 0
        if self.failures:
            what, replay, sig = self.failures[0]
            path = self.write_replay(
                {"property": self.pid, "kind": "failing-input", "what": what, "replay": replay, "signature": sig,
                 "all_failures": [(w, r) for (w, r, s) in self.failures[:20]],
                 "broken_obligations": self.broken[:10]})
            print("VIOLATION property=%s replay=%s" % (self.pid, path))
            for w, r, s in self.failures[:5]:
                print("  failing input: %s" % w)
            nviol = len(self.failures)
            rc = 1
        elif self.broken:
            path = self.write_replay(
                {"property": self.pid, "kind": "broken-obligation",
                 "no_longer_checks": [{"name": n, "detail": d} for n, d in self.broken[:20]],
                 "searched": self.evaluations}, tag="broken")
            print("VIOLATION property=%s replay=%s no-failing-input-found" % (self.pid, path))
            for n, d in self.broken[:5]:
                print("  no longer checks: %s :: %s" % (n, str(d)[:300].replace("\n", " | ")))
            nviol = 1
            rc = 1
        nob = len(self.obligations)
        ndis = sum(1 for o in self.obligations if o[1])
        cov = {
            "evaluations": self.evaluations,
            "distinct_nontrivial": len(self.distinct),
            "rule": self.rule,
            "samples": self.samples if self.samples else ["(no case executed)"],
            "obligations": nob,
            "discharged": ndis,
            "obligation_list": [{"name": n, "ok": ok, "detail": str(d)[:200]} for n, ok, d in self.obligations],
            "checker_cmd": self.checker_cmd or "n/a",
            "trusted_base": TRUSTED_BASE,
            "programs": self.programs or self.evaluations,
            "disagreements_checked": self.disagreements_checked,
            "input_distribution": self.dist,
            "known_findings_hit": {k: v[0] for k, v in self.known_hits.items()},
            "notes": self.notes,
        }
        if explanation:
            cov["explanation"] = explanation
        cov.update(self.extra)
        ev = {
            "property_id": self.pid,
            "tier": self.tier,
            "seed": self.seed,
            "level": level,
            "coverage": cov,
            "assumptions": self.assumptions,
            "wall_s": round(wall, 2),
            "violations": nviol,
        }
        d = os.environ.get("VERIF_EVIDENCE_DIR") or os.path.join(VERIF, "evidence")   # (seeded-defect runs write elsewhere)
        os.makedirs(d, exist_ok=True)
        tmp = os.path.join(d, ".%s.json.tmp" % self.pid)
        json.dump(ev, open(tmp, "w"), indent=1, default=str)
        os.replace(tmp, os.path.join(d, "%s.json" % self.pid))
        print("%s %s seed=%d: obligations %d/%d, evaluations %d (distinct non-trivial %d), known-finding hits %d, %.1fs -> %s" % (
            self.pid, self.tier, self.seed, ndis, nob, self.evaluations, len(self.distinct),
            sum(v[0] for v in self.known_hits.values()), wall, "OK" if rc == 0 else "VIOLATION"))
        return rc


class Driver:
    """Compiled Lean driver: batch of input lines -> list of output lines (one per input line)."""

    def __init__(self, exe):
        self.exe = exe

    def run(self, lines, timeout=3000):
        if not lines:
            return []
        data = "\n".join(lines) + "\n"
        for l in lines:
            if "\n" in l:
                raise Infra("newline inside protocol line")
        p = subprocess.run([self.exe], input=data, capture_output=True, text=True, timeout=timeout)
        if p.returncode != 0:
            raise Infra("driver %s exit %d: %s" % (self.exe, p.returncode, p.stderr[-500:]))
        out = p.stdout.split("\n")
        if out and out[-1] == "":
            out.pop()
        if len(out) != len(lines):
            raise Infra("driver %s returned %d lines for %d inputs" % (self.exe, len(out), len(lines)))
        return out


def pmap(fn, items, procs=None, chunksize=4):
    """Parallel map over worker processes (fork). `fn` must be a module-level function; results must pickle.
    The number of workers is bounded so that several checks can run side by side."""
    import multiprocessing as mp
    items = list(items)
    if procs is None:
        procs = int(os.environ.get("VERIF_PROCS", "0") or 0) or max(1, min(12, (os.cpu_count() or 2) - 2))
    if procs <= 1 or len(items) < 4:
        return [fn(x) for x in items]
    ctx = mp.get_context("fork")
    with ctx.Pool(procs) as pool:
        return pool.map(fn, items, chunksize=chunksize)


# ---------------------------------------------------------------------- helpers for protocol values
def rat(x):
    """Exact rational text n/d of a Python int/float/Fraction/str decimal."""
    from fractions import Fraction
    if isinstance(x, str):
        f = Fraction(x)
    else:
        f = Fraction(x)
    return "%d/%d" % (f.numerator, f.denominator) if f.denominator != 1 else "%d" % f.numerator


def parse_rat(s):
    from fractions import Fraction
    return Fraction(s)


def close(a, b, tol=1e-9):
    return abs(float(a) - float(b)) <= tol * max(1.0, abs(float(b)))


def q(s):
    """Quote a Python string as a protocol string token."""
    return '"' + s.replace("\\", "\\\\").replace('"', '\\"').replace("\n", "\\n") + '"'


def main(argv):
    import argparse
    import importlib
    ap = argparse.ArgumentParser()
    ap.add_argument("pid", nargs="?")
    ap.add_argument("--tier", default=os.environ.get("VERIF_TIER", "quick"))
    ap.add_argument("--replay", default=None)
    ap.add_argument("--setup", action="store_true")
    a = ap.parse_args(argv)
    os.environ[GUARD] = "1"
    if REPO not in sys.path:
        sys.path.insert(0, REPO)
    if a.setup:
        return setup()
    seed = int(os.environ.get("VERIF_SEED", "0") or 0)
    pid = a.pid.upper()
    tier = a.tier if a.tier in ("quick", "thorough") else "quick"
    sys.path.insert(0, HERE)
    try:
        mod = importlib.import_module("props.%s" % pid.lower())
        ctx = Ctx(pid, tier, seed, a.replay)
        rc = mod.run(ctx)
        if rc is None:
            rc = ctx.finish()
        return rc
    except Infra as e:
        print("INFRA-ERROR %s: %s" % (pid, e))
        return 2
    except subprocess.TimeoutExpired as e:
        print("INFRA-ERROR %s: timeout %s" % (pid, e))
        return 2
    except Exception as e:
        traceback.print_exc()
        rc = _implementation_exception(pid, e, locals().get("ctx"))
        if rc is not None:
            return rc
        print("INFRA-ERROR %s: harness exception" % pid)
        return 2
    except BaseException as e:
        # e.g. a time-limit exception that escaped from a place that does not expect it: trouble of the machinery (exit 2),
        # never a silent exit 1
        if isinstance(e, (SystemExit, KeyboardInterrupt)):
            raise
        traceback.print_exc()
        print("INFRA-ERROR %s: harness exception (%s)" % (pid, type(e).__name__))
        return 2


def _implementation_exception(pid, e, ctx):
    """An exception that escaped from the code under verification (innermost frame inside REPO) while the harness was
    driving it at a place where the check expects no exception at all: the real code crashed on an input the harness
    built, which is a concrete failure (reported with the traceback and the harness frame's locals as the replay), not
    trouble of the machinery. Exceptions raised in harness frames stay INFRA errors (exit 2)."""
    if ctx is None:
        return None
    try:
        frames = traceback.extract_tb(e.__traceback__)
        root = os.path.realpath(REPO) + os.sep
        if not frames or not os.path.realpath(frames[-1].filename).startswith(root):
            return None
        if isinstance(e, (MemoryError, RecursionError, KeyboardInterrupt)):
            return None
        inner = frames[-1]
        site = "%s:%s:%s" % (os.path.relpath(os.path.realpath(inner.filename), root), inner.name, (inner.line or "").strip())
        hframe, hlocals = None, {}
        tb = e.__traceback__
        while tb is not None:
            fn = os.path.realpath(tb.tb_frame.f_code.co_filename)
            if fn.startswith(os.path.realpath(HERE) + os.sep):
                hframe = "%s:%d %s" % (os.path.relpath(fn, VERIF), tb.tb_lineno, tb.tb_frame.f_code.co_name)
                hlocals = {k: repr(v)[:2000] for k, v in tb.tb_frame.f_locals.items()
                           if not k.startswith("__") and not callable(v) and type(v).__name__ != "module"}
            tb = tb.tb_next
        what = "the implementation raised %s (%s) at %s while the check was driving it from %s, where no exception is " \
               "expected" % (type(e).__name__, str(e)[:200], site, hframe)
        ctx.fail(what, {"traceback": traceback.format_exception(type(e), e, e.__traceback__)[-12:], "harness_frame": hframe,
                        "harness_locals": hlocals},
                 {"kind": "implementation-exception", "exc": type(e).__name__, "site": site})
        return ctx.finish()
    except Exception:
        traceback.print_exc()
        return None


def setup():
    """Build every Lean library target and every driver once (offline)."""
    t0 = time.time()
    with LakeLock():
        rc, out, err = sh(["lake", "build", "ProbLogModel", "Drivers", "ProbLogProofs"], cwd=LEAN, timeout=7200)
    print((out + err)[-3000:])
    print("setup: lake build rc=%d in %.0fs" % (rc, time.time() - t0))
    # a failing proof build is not a setup failure: the per-property check reports it through the protocol
    ctx = Ctx("SETUP", "quick", 0)
    ddir = os.path.join(LEAN, "Drivers")
    for f in sorted(os.listdir(ddir)):
        if f.endswith(".lean"):
            exe, log = ctx.build_exe("Drivers." + f[:-5])
            print("setup: driver %s -> %s" % (f, exe or ("FAILED " + log[-300:])))
    return 0
