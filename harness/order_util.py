"""Helpers shared by C15 (standard order) and C33 (soft cut): harness-side term representation, conversions to
ProbLog terms / Prolog source / driver S-expressions, an independent Python oracle of the standard order of terms,
and a small runner for deterministic ProbLog programs.

Harness terms are tuples:
  ('v', n) variable (engine level: a Python int)   ('i', n) integer      ('f', x) float (a Python float)
  ('s', text) string                                ('a', functor, *args) atom / compound, functor as ProbLog
                                                     stores it (with the quotes of a quoted atom)
"""
import re
import warnings
from fractions import Fraction

from lib import Infra, q as Q, rat


# ------------------------------------------------------------------ construction helpers
def V(n): return ('v', n)
def I(n): return ('i', n)
def F(x): return ('f', float(x))
def S(t): return ('s', t)
def A(f, *args): return ('a', f) + tuple(args)


def lst(items):
    t = A('[]')
    for x in reversed(items):
        t = A('.', x, t)
    return t


def size(t):
    return 1 + sum(size(x) for x in t[2:]) if t[0] == 'a' else 1


def subterms(t):
    yield t
    if t[0] == 'a':
        for x in t[2:]:
            for s in subterms(x):
                yield s


# ------------------------------------------------------------------ conversions
def to_problog(t):
    from problog.logic import Term, Constant
    k = t[0]
    if k == 'v':
        return t[1]
    if k == 'i':
        return Constant(t[1])
    if k == 'f':
        return Constant(t[1])
    if k == 's':
        return Constant('"%s"' % t[1])
    return Term(t[1], *[to_problog(x) for x in t[2:]])


def from_problog(x):
    from problog.logic import Term, Constant, Var
    if x is None:
        return ('v', 'None')
    if type(x) == int:
        return ('v', x)
    if isinstance(x, Var):
        return ('v', str(x.name))
    if isinstance(x, Constant):
        v = x.functor
        if type(v) == int:
            return ('i', v)
        if type(v) == float:
            return ('f', v)
        s = str(v)
        if len(s) >= 2 and s[0] == '"' and s[-1] == '"':
            s = s[1:-1]
        return ('s', s)
    if isinstance(x, Term):
        return ('a', str(x.functor)) + tuple(from_problog(y) for y in x.args)
    raise Infra("cannot convert %r" % (x,))


def to_sexp(t):
    k = t[0]
    if k == 'v':
        return "(v %s)" % t[1]
    if k == 'i':
        return "(i %d)" % t[1]
    if k == 'f':
        return "(f %s)" % rat(t[1])
    if k == 's':
        return "(s %s)" % Q(t[1])
    return "(a " + " ".join([Q(t[1])] + [to_sexp(x) for x in t[2:]]) + ")"


def show(t):
    """Readable Prolog-like text of a harness term (for messages)."""
    return to_src(t, {})


def is_list_term(t):
    while t[0] == 'a' and t[1] == '.' and len(t) == 4:
        t = t[3]
    return t == ('a', '[]')


def to_src(t, varnames):
    """Prolog source text. Variables ('v', n) are named through `varnames` (filled on demand)."""
    k = t[0]
    if k == 'v':
        if t[1] not in varnames:
            varnames[t[1]] = "V%d" % len(varnames)
        return varnames[t[1]]
    if k == 'i':
        return str(t[1])
    if k == 'f':
        return repr(t[1])
    if k == 's':
        return '"%s"' % t[1]
    if len(t) == 2:
        return t[1]
    if t[1] == '.' and len(t) == 4 and is_list_term(t):
        items = []
        while t != ('a', '[]'):
            items.append(to_src(t[2], varnames))
            t = t[3]
        return "[" + ", ".join(items) + "]"
    return "%s(%s)" % (t[1], ", ".join(to_src(x, varnames) for x in t[2:]))


# ------------------------------------------------------------------ the oracle: standard order of terms
SAFE = re.compile(r"[a-z]\w*$")


def text(f):
    """Text of an atom given ProbLog's functor string."""
    if len(f) >= 2 and f[0] == "'" and f[-1] == "'":
        return f[1:-1]
    return f


def redundantly_quoted(f):
    return len(f) >= 2 and f[0] == "'" and f[-1] == "'" and SAFE.match(f[1:-1]) is not None


def is_negform(t):
    return t[0] == 'a' and t[1] == "'-'" and len(t) == 3 and t[2][0] in 'if'


def has_negform(t):
    return any(is_negform(s) for s in subterms(t))


def has_redundant_quotes(t):
    return any(s[0] == 'a' and redundantly_quoted(s[1]) for s in subterms(t))


def _c(a, b):
    return -1 if a < b else (1 if a > b else 0)


def _num(t, negnum):
    """(value, kind) of a number, kind 0 float / 1 integer; None when not a number."""
    if t[0] == 'i':
        return (Fraction(t[1]), 1)
    if t[0] == 'f':
        return (Fraction(t[1]), 0)
    if negnum and is_negform(t):
        v, kd = _num(t[2], False)
        return (-v, kd)
    return None


def std_cmp(a, b, negnum=False):
    """Standard order of terms: Var < Number < String < Atom < Compound (strings where the code puts them).

    negnum=True is the *variant* in which the legacy shape '-'(N) counts as the number -N (ProbLog's reading)."""
    na, nb = _num(a, negnum), _num(b, negnum)
    ra = 1 if na else {'v': 0, 's': 2, 'a': 3}[a[0]]
    rb = 1 if nb else {'v': 0, 's': 2, 'a': 3}[b[0]]
    if ra != rb:
        return _c(ra, rb)
    if ra == 0:
        return _c(a[1], b[1])
    if ra == 1:
        return _c(na[0], nb[0]) or _c(na[1], nb[1])
    if ra == 2:
        return _c(a[1], b[1])
    r = _c(len(a), len(b)) or _c(text(a[1]), text(b[1]))
    if r:
        return r
    for x, y in zip(a[2:], b[2:]):
        r = std_cmp(x, y, negnum)
        if r:
            return r
    return 0


def norm(t):
    """The term with every functor replaced by its text (identity of terms in Prolog)."""
    if t[0] == 'a':
        return ('a', text(t[1])) + tuple(norm(x) for x in t[2:])
    if t[0] == 'f':
        return ('f', Fraction(t[1]))
    return t


def same_term(a, b, raw=False):
    """Prolog's ==.  raw=True is the *variant* in which quotes are part of the name (ProbLog's reading)."""
    return (a == b) if raw else (norm(a) == norm(b))


def std_sort(items, negnum=False, raw=False):
    """sort/2: strictly ascending, duplicate free. With raw=True duplicates are only removed when identical
    including quotes (then the result is ascending but may contain ties)."""
    import functools
    out = []
    for x in items:
        if not any(same_term(x, y, raw) for y in out):
            out.append(x)
    return sorted(out, key=functools.cmp_to_key(lambda x, y: std_cmp(x, y, negnum)))


# ------------------------------------------------------------------ running deterministic programs
def run_program(src):
    """Ground a ProbLog program; returns {query term: probability} (deterministic nodes need no compilation)."""
    from problog.program import PrologString
    from problog.engine import DefaultEngine
    from problog import get_evaluatable
    with warnings.catch_warnings():
        warnings.simplefilter("ignore")
        eng = DefaultEngine()
        db = eng.prepare(PrologString(src))
        gp = eng.ground_all(db)
        res = {}
        need = False
        for name, node in gp.queries():
            if node == 0:
                res[name] = 1.0
            elif node is None:
                res[name] = 0.0
            else:
                need = True
        if need:
            res = dict(get_evaluatable().create_from(gp).evaluate())
    return res
