"""Helpers for C29 (ClauseDB extension): generator of histories of databases, adapters to the real
problog.clausedb.ClauseDB, translation of statements to the Lean driver's protocol, structural dumps.

A *history* is a list of database descriptions; database 0 is a root, database i > 0 extends an earlier one:
    {"parent": -1 | j, "stmts": [stmt, ...], "queries": [atom, ...], "via": "prepare" | "api"}
All statements of a database are added before any of its children is created (the parent is frozen afterwards).
Statements (JSON friendly):
    {"k": "fact", "a": atom} | {"k": "pf", "p": "0.3", "a": atom} | {"k": "rule", "h": atom, "b": [lit, ...]}
    {"k": "prule", "p": "0.3", "h": atom, "b": [lit, ...]} | {"k": "ad", "hs": [[p, atom], ...], "b": [lit, ...]}
    {"k": "query", "a": atom}
atom = [name, [arg, ...]] with args constants a,b,c / variables X,Y,Z / "_";  lit = ["pos" | "neg", atom].
Generated programs are non-recursive (a rule's body uses strictly lower levels), range restricted, negation only on
bound arguments — so the known engine defects on cyclic programs (DESIGN §9 F1/F2) are out of reach.
"""
import itertools

CONSTS = ["a", "b", "c"]
VARS = ["X", "Y", "Z"]

# predicate universe: name -> (arity, level)
PREDS = {
    "f0": (0, 0), "f1": (1, 0), "f2": (2, 0), "f3": (1, 0),
    "h0": (1, 0), "h1": (1, 0), "h2": (0, 0),
    "p0": (0, 1), "p1": (1, 1), "p2": (1, 2), "p3": (2, 2), "p4": (0, 3), "p5": (1, 3),
}
BASE = ["f0", "f1", "f2", "f3"]
ADH = ["h0", "h1", "h2"]
DER = ["p0", "p1", "p2", "p3", "p4", "p5"]


def is_var(x):
    return x in VARS or x == "_"


def atom_s(at):
    name, args = at
    return name if not args else "%s(%s)" % (name, ",".join(args))


def lit_s(lit):
    return atom_s(lit[1]) if lit[0] == "pos" else "\\+" + atom_s(lit[1])


def stmt_s(st):
    k = st["k"]
    if k == "fact":
        return atom_s(st["a"]) + "."
    if k == "pf":
        return "%s::%s." % (st["p"], atom_s(st["a"]))
    if k == "rule":
        return "%s :- %s." % (atom_s(st["h"]), ", ".join(lit_s(l) for l in st["b"]))
    if k == "prule":
        return "%s::%s :- %s." % (st["p"], atom_s(st["h"]), ", ".join(lit_s(l) for l in st["b"]))
    if k == "ad":
        hs = "; ".join("%s::%s" % (p, atom_s(a)) for p, a in st["hs"])
        return hs + ("." if not st["b"] else " :- %s." % ", ".join(lit_s(l) for l in st["b"]))
    if k == "query":
        return "query(%s)." % atom_s(st["a"])
    raise ValueError(k)


def sig_of(at):
    return "%s/%d" % (at[0], len(at[1]))


def heads_of(st):
    k = st["k"]
    if k in ("fact", "pf"):
        return [st["a"][0]]
    if k in ("rule", "prule"):
        return [st["h"][0]]
    if k == "ad":
        return [a[0] for _, a in st["hs"]]
    return []


# ----------------------------------------------------------------------------------------------- generator
def gen_segment(rng, defined, n, allow_new=True, prefer=None):
    """`n` statements; `defined` (set of predicate names having a clause so far along the chain) is updated.
    `prefer`: predicates to extend with higher probability (existing predicates of the ancestors)."""
    out = []
    consts = CONSTS

    def body_for(head, hargs, level):
        pos_c = [p for p in defined if PREDS[p][1] < level]
        if not pos_c:
            return None
        neg_c = pos_c
        bound = set()
        body = []
        for j in range(rng.randint(1, 3)):
            if j > 0 and rng.random() < 0.3:
                p = rng.choice(sorted(neg_c))
                args = [rng.choice(sorted(bound)) if bound and rng.random() < 0.8 else rng.choice(consts)
                        for _ in range(PREDS[p][0])]
                body.append(["neg", [p, args]])
            else:
                p = rng.choice(sorted(pos_c))
                args = [rng.choice(VARS) if rng.random() < 0.75 else rng.choice(consts) for _ in range(PREDS[p][0])]
                bound.update(x for x in args if x in VARS)
                body.append(["pos", [p, args]])
        for x in hargs:
            if x in VARS and x not in bound:
                cs = [p for p in pos_c if PREDS[p][0] >= 1]
                if not cs:
                    return None
                p = rng.choice(sorted(cs))
                args = [x] + [rng.choice(consts) for _ in range(PREDS[p][0] - 1)]
                body.insert(0, ["pos", [p, args]])
                bound.add(x)
        body = [b for b in body if b[0] == "pos"] + [b for b in body if b[0] == "neg"]
        for t, (p, args) in body:
            if t == "neg" and any(x in VARS and x not in bound for x in args):
                return None
        return body

    tries = 0
    while len(out) < n and tries < 20 * n + 20:
        tries += 1
        r = rng.random()
        pool = None
        if prefer and rng.random() < 0.6:
            pool = sorted(prefer)
        if r < 0.35:
            cand = [p for p in (pool or BASE) if p in BASE and (allow_new or p in defined)] or BASE
            p = rng.choice(cand)
            args = [rng.choice(consts) for _ in range(PREDS[p][0])]
            if rng.random() < 0.7:
                out.append({"k": "pf", "p": "0.%d" % rng.randint(1, 9), "a": [p, args]})
            else:
                out.append({"k": "fact", "a": [p, args]})
            defined.add(p)
        elif r < 0.5:
            nh = rng.randint(2, 3)
            hs = rng.sample(ADH, nh) if rng.random() < 0.8 else [rng.choice(ADH)] * nh
            ps = ["0.%d" % rng.randint(1, 3) for _ in range(nh)]
            cs = [p for p in defined if p in BASE and PREDS[p][0] >= 1]
            if cs and rng.random() < 0.5:
                bp = rng.choice(sorted(cs))
                bargs = ["X"] + [rng.choice(["Y"] + consts) for _ in range(PREDS[bp][0] - 1)]
                heads = [[p, [h, (["X"] if PREDS[h][0] else [])]] for p, h in zip(ps, hs)]
                out.append({"k": "ad", "hs": heads, "b": [["pos", [bp, bargs]]]})
            else:
                heads = [[p, [h, ([rng.choice(consts)] if PREDS[h][0] else [])]] for p, h in zip(ps, hs)]
                out.append({"k": "ad", "hs": heads, "b": []})
            defined.update(hs)
        else:
            cand = [p for p in (pool or DER) if p in DER and (allow_new or p in defined)] or DER
            p = rng.choice(cand)
            ar, lvl = PREDS[p]
            hargs = [rng.choice(VARS[:2]) if rng.random() < 0.75 else rng.choice(consts) for _ in range(ar)]
            body = body_for(p, hargs, lvl)
            if body is None:
                continue
            if rng.random() < 0.2:
                out.append({"k": "prule", "p": "0.%d" % rng.randint(1, 9), "h": [p, hargs], "b": body})
            else:
                out.append({"k": "rule", "h": [p, hargs], "b": body})
            defined.add(p)
    return out


def gen_queries(rng, defined, k):
    qs = []
    cand = sorted(p for p in defined if p in DER or p in ADH) or sorted(defined)
    if not cand:
        return qs
    for _ in range(k):
        p = rng.choice(cand if rng.random() < 0.85 else sorted(defined))
        args = [rng.choice(CONSTS) if rng.random() < 0.5 else "_" for _ in range(PREDS[p][0])]
        if [p, args] not in qs:
            qs.append([p, args])
    return qs


def gen_history(rng, max_dbs=4):
    """Root + 1..max_dbs-1 extensions forming a tree (children, siblings, grandchildren)."""
    ndb = rng.randint(2, max_dbs)
    dbs = []
    defined_of = []
    for i in range(ndb):
        if i == 0:
            parent = -1
            defined = set()
            stmts = gen_segment(rng, defined, rng.randint(3, 8))
            via = "prepare" if rng.random() < 0.8 else "api"
        else:
            # prefer chains (grandchildren) over siblings
            parent = i - 1 if rng.random() < 0.65 else rng.randrange(i)
            defined = set(defined_of[parent])
            prefer = set(defined)
            stmts = gen_segment(rng, defined, rng.randint(1, 5), prefer=prefer if rng.random() < 0.85 else None)
            via = "api"
        if rng.random() < 0.35:
            for q in gen_queries(rng, defined, rng.randint(1, 2)):
                stmts.append({"k": "query", "a": q})
        queries = gen_queries(rng, defined, rng.randint(1, 3))
        dbs.append({"parent": parent, "stmts": stmts, "queries": queries, "via": via})
        defined_of.append(defined)
    return dbs


WITNESS_GRANDCHILD = [
    {"parent": -1, "via": "prepare", "queries": [["p0", []]],
     "stmts": [{"k": "pf", "p": "0.5", "a": ["f1", ["a"]]},
               {"k": "rule", "h": ["p2", ["X"]], "b": [["pos", ["p1", ["X"]]]]},
               {"k": "rule", "h": ["p1", ["X"]], "b": [["pos", ["f1", ["X"]]]]}]},
    {"parent": 0, "via": "api", "queries": [["p2", ["_"]]],
     "stmts": [{"k": "pf", "p": "0.5", "a": ["f1", ["b"]]},
               {"k": "rule", "h": ["p1", ["a"]], "b": [["pos", ["f1", ["b"]]]]}]},
    {"parent": 1, "via": "api", "queries": [["p2", ["_"]], ["p1", ["a"]]],
     "stmts": [{"k": "pf", "p": "0.5", "a": ["f1", ["c"]]},
               {"k": "rule", "h": ["p1", ["a"]], "b": [["pos", ["f1", ["c"]]]]}]},
]


WITNESS_AD_GROUP = [
    {"parent": -1, "via": "prepare", "queries": [["h1", ["_"]]],
     "stmts": [{"k": "fact", "a": ["f0", []]},
               {"k": "ad", "hs": [["0.2", ["h0", ["a"]]], ["0.2", ["h1", ["a"]]]], "b": []}]},
    {"parent": 0, "via": "api", "queries": [["h1", ["_"]], ["h0", ["b"]]],
     "stmts": [{"k": "fact", "a": ["f1", ["a"]]}, {"k": "fact", "a": ["f1", ["b"]]},
               {"k": "ad", "hs": [["0.1", ["h0", ["b"]]], ["0.3", ["h1", ["b"]]]], "b": []}]},
]


def chain(hist, i):
    c = []
    while i >= 0:
        c.append(i)
        i = hist[i]["parent"]
    return c[::-1]


def union_text(hist, i):
    return "\n".join(stmt_s(st) for j in chain(hist, i) for st in hist[j]["stmts"]) + "\n"


# ----------------------------------------------------------------------------------------------- implementation side
_ENG = None


def engine():
    global _ENG
    if _ENG is None:
        from problog.engine import DefaultEngine
        _ENG = DefaultEngine()
    return _ENG


def parse_stmts(text):
    from problog.program import PrologString
    return list(PrologString(text))


def atom_term(at):
    from problog.logic import Term
    name, args = at
    return Term(name, *[None if is_var(x) else Term(x) for x in args])


def build_dbs(hist):
    """Build the real ClauseDB objects of a history (public API only). Returns the list of databases."""
    from problog.program import PrologString
    from problog.clausedb import ClauseDB
    eng = engine()
    dbs = []
    for d in hist:
        text = "\n".join(stmt_s(st) for st in d["stmts"]) + "\n"
        if d["parent"] < 0:
            if d.get("via") == "api":
                db = ClauseDB(builtins=eng.get_builtins())
                for cl in parse_stmts(text):
                    db += cl
            else:
                db = eng.prepare(PrologString(text))
        else:
            db = dbs[d["parent"]].extend()
            for cl in parse_stmts(text):
                db += cl
        dbs.append(db)
    return dbs


def canon_result(res):
    """{str(term): prob} without the zero-probability entries ('reported with probability 0' == 'not reported')."""
    out = {}
    for k, v in res.items():
        v = float(v)
        if abs(v) > 1e-12:
            out[str(k)] = v
    return out


def evaluate_queries(db, queries):
    """Ground the given query atoms on `db` and evaluate; ('ok', {atom: p}) or ('exc', class name)."""
    from problog import get_evaluatable
    global _ENG
    eng = engine()
    try:
        gp = eng.ground_all(db, queries=[atom_term(q) for q in queries])
        return ("ok", canon_result(get_evaluatable().create_from(gp).evaluate()))
    except Exception as e:  # compared by class between extension and union
        _ENG = None  # an engine object is not reusable after an exception escaped (DESIGN §9, C08)
        return ("exc", type(e).__name__)


def evaluate_db(db):
    """Evaluate the query/1 facts visible in `db` (as `problog` does for a program)."""
    from problog import get_evaluatable
    try:
        return ("ok", canon_result(get_evaluatable().create_from(db).evaluate()))
    except Exception as e:
        return ("exc", type(e).__name__)


def same_result(r1, r2, close):
    if r1[0] != r2[0]:
        return False
    if r1[0] == "exc":
        return r1[1] == r2[1]
    a, b = r1[1], r2[1]
    if set(a) != set(b):
        return False
    return all(close(a[k], b[k]) for k in a)


# ----------------------------------------------------------------------------------------------- structural dumps
class Interner:
    def __init__(self):
        self.ids = {}

    def sig(self, functor, arity):
        functor = str(functor)
        if functor.startswith("body_") and functor[5:].isdigit():
            return "b" + functor[5:]
        key = "%s/%d" % (functor, arity)
        if key not in self.ids:
            self.ids[key] = len(self.ids)
        return str(self.ids[key])


def lst(xs):
    return "(" + " ".join(str(x) for x in xs) + ")"


def node_s(n, it, goff=0):
    """`goff`: added to the group id of a choice node (0 for the repaired numbering `len(self)`; the owner's offset
    for the numbering `len(self.__nodes)` of the unrepaired code, which the model does not have)."""
    if n == ():
        return "E"
    t = type(n).__name__
    if t == "define":
        return "(D %s %s)" % (it.sig(n.functor, n.arity), lst(list(n.children)))
    if t == "fact":
        return "(F %s)" % it.sig(n.functor, len(n.args))
    if t == "clause":
        return "(C %s %d)" % (it.sig(n.functor, len(n.args)), n.child)
    if t == "call":
        if isinstance(n.functor, str):
            return "(L %s %d)" % (it.sig(n.functor, len(n.args)), n.defnode)
        return "(O 4 %s)" % lst([n.defnode])
    if t == "conj":
        return "(O 0 %s)" % lst(n.children)
    if t == "disj":
        return "(O 1 %s)" % lst(n.children)
    if t == "neg":
        return "(O 2 %s)" % lst([n.child])
    if t == "choice":
        return "(O 3 (%d))" % (n.group + goff)
    return "(? %s)" % t


def owner_offset(db, i):
    while db is not None and i < db._ClauseDB__offset:
        db = db._ClauseDB__parent
    return db._ClauseDB__offset if db is not None else 0


def impl_dump(db, it, gv0=False):
    nodes = db._ClauseDB__nodes
    off = db._ClauseDB__offset
    heads = sorted(db._ClauseDB__heads.items(), key=lambda kv: kv[1])
    red = sorted(db._ClauseDB__node_redirect.items())

    def hs(sig):
        f, a = sig.rsplit("/", 1)
        return it.sig(f, int(a))
    return "len=%d off=%d nodes=%s heads=%s redirect=%s" % (
        len(db), off, lst(node_s(n, it, off if gv0 else 0) for n in nodes),
        lst("(%s %d)" % (hs(s), i) for s, i in heads),
        lst("(%d %d)" % kv for kv in red))


def impl_node(db, i, it, gv0=False):
    try:
        return node_s(db.get_node(i), it, owner_offset(db, i) if gv0 else 0)
    except IndexError:
        return "err IndexError"


def impl_defs(db, functor, arity):
    from problog.logic import Term
    i = db.find(Term(functor, *[None] * arity))
    if i is None:
        return "()"
    n = db.get_node(i)
    if n and type(n).__name__ == "define":
        return lst(list(n.children))
    return "()"


# ----------------------------------------------------------------------------------------------- protocol (model side)
def body_sexp(lits, it):
    """Right-nested conjunction, as the parser builds it; `\\+a` is a `neg` node over the call."""
    def one(lit):
        t, (p, args) = lit
        c = "(c %s)" % it.sig(p, len(args))
        return c if t == "pos" else "(not %s)" % c
    if not lits:
        return "(c %s)" % it.sig("true", 0)
    s = one(lits[-1])
    for lit in reversed(lits[:-1]):
        s = "(and %s %s)" % (one(lit), s)
    return s


def stmt_ops(name, st, it):
    """Protocol lines that add statement `st` to the model database `name` (independent of the implementation)."""
    k = st["k"]
    if k in ("fact", "pf"):
        at = st["a"]
        if any(is_var(x) for x in at[1]):
            if k == "pf":
                return ["ad %s (%s) %s" % (name, it.sig(at[0], len(at[1])), body_sexp([], it))]
            return ["clause %s %s %s" % (name, it.sig(at[0], len(at[1])), body_sexp([], it))]
        return ["fact %s %s" % (name, it.sig(at[0], len(at[1])))]
    if k == "query":
        at = st["a"]
        if any(is_var(x) for x in at[1]):
            return ["clause %s %s %s" % (name, it.sig("query", 1), body_sexp([], it))]
        return ["fact %s %s" % (name, it.sig("query", 1))]
    if k == "rule":
        return ["clause %s %s %s" % (name, it.sig(st["h"][0], len(st["h"][1])), body_sexp(st["b"], it))]
    if k == "prule":
        return ["ad %s (%s) %s" % (name, it.sig(st["h"][0], len(st["h"][1])), body_sexp(st["b"], it))]
    if k == "ad":
        return ["ad %s (%s) %s" % (name, " ".join(it.sig(a[0], len(a[1])) for _, a in st["hs"]), body_sexp(st["b"], it))]
    raise ValueError(k)


def prelude_ops(name, it):
    """What `_load_builtin_module` adds: `forall(A,B) :- \\+(call(A), \\+call(B))` of library/builtin.pl under the
    module scope `builtin`, and the alias forall/2 -> _builtin_forall/2."""
    c = "(c %s)" % it.sig("call", 1)
    bf = it.sig("_builtin_forall", 2)
    return ["clause %s %s (not (and %s (not %s)))" % (name, bf, c, c),
            "alias %s %s %s" % (name, it.sig("forall", 2), bf)]


def loads_prelude(parent_db):
    """Does an extension of `parent_db` load builtin.pl again? (`consult` skips files listed in `source_files`,
    which `LogicProgram.createFrom` resets to the source's list.)"""
    return not any(f and str(f).endswith("builtin.pl") for f in parent_db.source_files)


def all_sigs(hist):
    s = []
    for d in hist:
        for st in d["stmts"]:
            ats = []
            if st["k"] in ("fact", "pf"):
                ats = [st["a"]]
            elif st["k"] in ("rule", "prule"):
                ats = [st["h"]] + [l[1] for l in st["b"]]
            elif st["k"] == "ad":
                ats = [a for _, a in st["hs"]] + [l[1] for l in st["b"]]
            for a in ats:
                if (a[0], len(a[1])) not in s:
                    s.append((a[0], len(a[1])))
    for extra in (("query", 1), ("_builtin_forall", 2), ("forall", 2)):
        if extra not in s:
            s.append(extra)
    return s
