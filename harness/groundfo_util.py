"""Correspondence of the tabled grounding engine with its Lean model on function-free programs WITH VARIABLES and
without recursion (`lean/ProbLogModel/GroundFO.lean`, driver `Drivers.GroundFO`): the first-order sibling of
`ground_util.py`.  Same method: generated programs are grounded by the REAL engine (`ground_all` / successive `ground`
on one target, with and without a seeded schedule) and by the model; ground program, names (one per query instance),
AD constraints and both tables of the DefineCache must be EQUAL.  On a difference the engine's probabilities are
compared with the Lean specification `Sem` to find a failing input.

Programs: spine's representation (atoms `(pred, args)`, args = constants or variables X, Y, Z, ...; `_` in queries).
"""
import itertools
import re
import traceback
from fractions import Fraction as F

import ground_util
import semcheck
import spine
from lib import Infra, rat

VARS = ["X", "Y", "Z"]          # (spine.reference instantiates exactly these)
VARSET = set(VARS)


def is_var(x):
    return x in VARSET or x == "_" or re.match(r"_G\d+$", x) is not None


# ------------------------------------------------------------------------------------------------ generator
def gen_program(rng):
    """Own generator: predicates on levels (a clause for a predicate of level l calls predicates of lower levels only),
    ground facts, rules with variables / constants in heads / repeated variables in calls, probabilistic rules and ADs
    whose variables are all bound by the positive body, negation on bound literals, ground and non-ground queries and
    evidence."""
    consts = ground_util.CONSTS[:rng.choice([2, 2, 3])]
    preds = {}
    stmts = []
    nbase = rng.randint(2, 3)
    for i in range(nbase):
        ar = rng.choice([1, 1, 2, 2, 0])
        name = "f%d" % i
        preds[name] = (ar, 0)
        insts = list(itertools.product(consts, repeat=ar))
        rng.shuffle(insts)
        for args in insts[:rng.randint(min(2, len(insts)), min(len(insts), 7))]:
            r = rng.random()
            if r < 0.7:
                stmts.append(("pf", F(rng.randint(1, 9), 10), (name, args)))
            else:
                stmts.append(("fact", (name, args)))
            if rng.random() < 0.08:
                stmts.append(("pf", F(rng.randint(1, 9), 10), (name, args)))       # second choice for the same atom
    nder = rng.randint(1, 4)
    for i in range(nder):
        preds["p%d" % i] = (rng.choice([0, 1, 1, 2, 2]), i + 1)
    for i in range(rng.choice([0, 1, 1, 2])):
        preds["h%d" % i] = (rng.choice([0, 1, 1, 2]), rng.randint(1, nder))     # AD heads that rules above may call

    def lower(l):
        return [p for p, (a, lv) in preds.items() if lv < l]

    def mk_body(level, need, nmax=3):
        """positive literals binding the variables `need` (and possibly more), then negative ones on bound variables"""
        body = []
        bound = []
        cands = lower(level)
        need = list(need)
        for _ in range(rng.randint(1, nmax)):
            p = rng.choice(cands)
            ar = preds[p][0]
            args = []
            for _k in range(ar):
                r = rng.random()
                if need and r < 0.6:
                    x = need.pop(0)
                elif r < 0.75:
                    x = rng.choice(consts)
                elif bound and r < 0.9:
                    x = rng.choice(bound)                  # repeated variable (possibly within the call: p(X,X))
                else:
                    x = rng.choice(VARS)
                args.append(x)
                if x in VARSET and x not in bound:
                    bound.append(x)
            body.append(("pos", (p, tuple(args))))
        for x in need:                                     # still unbound head variables
            cs = [p for p in cands if preds[p][0] >= 1]
            if not cs:
                return None
            p = rng.choice(cs)
            args = [x] + [rng.choice(consts + bound[:1]) for _ in range(preds[p][0] - 1)]
            body.append(("pos", (p, tuple(args))))
            bound.append(x)
        if rng.random() < 0.35:
            for _ in range(rng.randint(1, 2)):
                p = rng.choice(cands)
                args = tuple(rng.choice(bound) if bound and rng.random() < 0.7 else rng.choice(consts)
                             for _ in range(preds[p][0]))
                body.append(("neg", (p, args)))
        if rng.random() < 0.06:
            t, a = rng.choice(body)
            if all(x in bound or x not in VARSET for x in a[1]):
                body.append(("neg" if t == "pos" else "pos", a))   # contradictory / repeated literal
        return body

    def mk_head(p):
        ar = preds[p][0]
        args = []
        for _ in range(ar):
            r = rng.random()
            if r < 0.7:
                args.append(rng.choice(VARS[:3]))
            elif r < 0.85 and args and args[-1] in VARSET:
                args.append(args[-1])                      # repeated variable in the head
            else:
                args.append(rng.choice(consts))
        return (p, tuple(args))

    for i in range(nder):
        p = "p%d" % i
        lvl = preds[p][1]
        for _ in range(rng.choice([1, 1, 2, 2, 3])):
            h = mk_head(p)
            need = []
            for x in h[1]:
                if x in VARSET and x not in need:
                    need.append(x)
            body = mk_body(lvl, need)
            if body is None:
                continue
            r = rng.random()
            if r < 0.2:
                stmts.append(("prule", F(rng.randint(1, 9), 10), h, body))
            else:
                stmts.append(("rule", h, body))
            if rng.random() < 0.05:
                stmts.append(stmts[-1])
    # annotated disjunctions: heads on one level, body below
    for _ in range(rng.choice([0, 1, 1, 2])):
        lvl = rng.randint(1, nder + 1)
        nh = rng.choice([1, 2, 2, 3])
        hp = []
        for k in range(nh):
            cs = [p for p, (a, lv) in preds.items() if lv == lvl]
            if cs and rng.random() < 0.6:
                hp.append(rng.choice(cs))
            else:
                name = "h%d" % len([q for q in preds if q.startswith("h")])
                preds[name] = (rng.choice([0, 1, 1, 2]), lvl)
                hp.append(name)
        heads = [mk_head(p) for p in hp]
        need = []
        for h in heads:
            for x in h[1]:
                if x in VARSET and x not in need:
                    need.append(x)
        if need or rng.random() < 0.6:
            body = mk_body(lvl, need, 2)
            if body is None:
                continue
        else:
            body = []
        ps = ground_util._probs(rng, nh)
        if nh == 1 and not body:
            stmts.append(("pf", ps[0], heads[0]))
        else:
            stmts.append(("ad", list(zip(ps, heads)), body))
    rng.shuffle(stmts)
    defined = set()
    for s in stmts:
        defined.update(h[0] for h in stmt_heads(s))
    for p, (ar, lvl) in list(preds.items()):
        if p not in defined:
            args = tuple(rng.choice(consts) for _ in range(ar))
            stmts.append(("pf", F(rng.randint(1, 9), 10), (p, args)) if rng.random() < 0.7 else ("fact", (p, args)))
    allp = list(preds)
    qs = []
    for _ in range(rng.randint(1, 4)):
        p = rng.choice([q for q in allp if preds[q][1] > 0] or allp) if rng.random() < 0.75 else rng.choice(allp)
        ar = preds[p][0]
        r = rng.random()
        if r < 0.3:
            args = tuple(rng.choice(consts) for _ in range(ar))
        elif r < 0.4 and ar == 2:
            args = ("X", "X")                              # repeated query variable
        else:
            args = tuple(("_" if rng.random() < 0.7 else rng.choice(consts)) for _ in range(ar))
        if (p, args) not in qs:
            qs.append((p, args))
    P = dict(consts=consts, preds=preds, stmts=stmts, queries=qs, evidence=[])
    if rng.random() < 0.5:
        evs = []
        for _ in range(rng.randint(1, 2)):
            p = rng.choice(allp)
            args = tuple(rng.choice(consts) for _ in range(preds[p][0]))
            if rng.random() < 0.15 and preds[p][0] >= 1:
                args = tuple("_" if rng.random() < 0.6 else c for c in args)    # non-ground evidence
            if all(e[0] != (p, args) for e in evs):
                evs.append(((p, args), rng.random() < 0.6))
        P["evidence"] = evs
    finish_history(P, rng)
    return P


def finish_history(P, rng):
    items = [("query", q) for q in P["queries"]] + [("evidence+" if v else "evidence-", a) for a, v in P["evidence"]]
    allp = list(P["preds"])
    for _ in range(rng.choice([0, 0, 1, 2])):
        if rng.random() < 0.6:
            p = rng.choice(allp)
            args = tuple(("_" if rng.random() < 0.5 else rng.choice(P["consts"])) for _ in range(P["preds"][p][0]))
            items.append(("query", (p, args)))
        else:
            items.append(rng.choice(items))
    rng.shuffle(items)
    P["history"] = items


def from_spine(rng):
    """A program of spine's generator (the C01 generator without positive recursion and without body disjunction)."""
    P = spine.gen_program(rng, cyclic=False, disjunction=False, numeric=True)
    if not in_fragment(P):
        return None
    finish_history(P, rng)
    return P


def stmt_heads(s):
    if s[0] in ("pf", "fact"):
        return [s[-1]]
    if s[0] == "rule":
        return [s[1]]
    if s[0] == "prule":
        return [s[2]]
    return [h for _, h in s[1]]


def stmt_body(s):
    return s[2] if s[0] in ("rule", "ad") else (s[3] if s[0] == "prule" else [])


def in_fragment(P):
    """ground facts, no body disjunction, range restricted incl. ALL variables of a probabilistic statement and of
    negated literals bound by positive literals to their left ... and an acyclic predicate dependency graph."""
    dep = {}
    for s in P["stmts"]:
        body = stmt_body(s)
        if s[0] in ("pf", "fact") and any(is_var(x) for x in s[-1][1]):
            return False
        bound = set()
        for t, a in body:
            if t == "or":
                return False
            if t == "pos":
                bound.update(x for x in a[1] if is_var(x))
            elif any(is_var(x) and x not in bound for x in a[1]):
                return False
        for h in stmt_heads(s):
            if any(is_var(x) and x not in bound for x in h[1]):
                return False
            dep.setdefault(h[0], set()).update(a[0] for t, a in body)
    state = {}

    def cyc(p):
        if state.get(p) == 1:
            return True
        if state.get(p) == 2:
            return False
        state[p] = 1
        r = any(cyc(q) for q in dep.get(p, ()))
        state[p] = 2
        return r
    return not any(cyc(p) for p in list(dep))


def clauses_src(P):
    return "\n".join(spine.stmt_src(s) for s in P["stmts"])


# ------------------------------------------------------------------------------------------------ compile for the model
class Compiled:
    pass


def stmt_vars(s):
    """ClauseDB numbering: head variables in order of first occurrence, then body variables (= spine.vars_of)."""
    return spine.vars_of(stmt_heads(s) + [a for _, a in stmt_body(s)])


def enc(nc, idxs):
    n = 0
    for c in idxs:
        n = n * nc + c
    return n


def compile_model(P, calls):
    C = Compiled()
    consts = P["consts"]
    nc = len(consts)
    C.nc = nc
    C.cidx = {c: i for i, c in enumerate(consts)}
    C.pred = {}

    def pid(name, ar):
        k = (name, ar)
        if k not in C.pred:
            C.pred[k] = len(C.pred)
        return C.pred[k]
    for s in P["stmts"]:
        for h in stmt_heads(s):
            pid(h[0], len(h[1]))
        for _, a in stmt_body(s):
            pid(a[0], len(a[1]))
    for _, a in calls:
        pid(a[0], len(a[1]))
    nreal = len(C.pred)
    C.namebase = {}
    nb = 0
    for (name, ar), i in C.pred.items():
        C.namebase[i] = nb
        nb += nc ** ar
    C.defs = {}
    C.deps = {}
    C.facts = []        # idents of fact statements, in order
    C.choices = []      # per AD head in order: dict(ident, group, name, nvars)
    C.aux = []          # per AD statement in order: aux predicate id
    nident = ngroup = 0
    naux = 0

    def term(x, vs):
        return "c%d" % C.cidx[x] if x not in vs else "v%d" % vs.index(x)

    def lits(body, vs):
        return " ".join("(%s %d %s)" % ("p" if t == "pos" else "n", pid(a[0], len(a[1])), " ".join(term(x, vs) for x in a[1]))
                        for t, a in body)
    for s in P["stmts"]:
        if s[0] in ("pf", "fact"):
            h = s[-1]
            p = pid(h[0], len(h[1]))
            C.defs.setdefault(p, []).append("(fact (%s) %d %s)" % (" ".join("c%d" % C.cidx[x] for x in h[1]), nident,
                                                                   rat(s[1]) if s[0] == "pf" else "-"))
            C.deps.setdefault(p, set())
            C.facts.append(nident)
            nident += 1
        elif s[0] == "rule":
            vs = stmt_vars(s)
            h = s[1]
            p = pid(h[0], len(h[1]))
            C.defs.setdefault(p, []).append("(rule (%s) %d (%s) -)" % (" ".join(term(x, vs) for x in h[1]), len(vs),
                                                                       lits(s[2], vs)))
            C.deps.setdefault(p, set()).update(pid(a[0], len(a[1])) for _, a in s[2])
        else:
            vs = stmt_vars(s)
            n = len(vs)
            heads = [(s[1], s[2])] if s[0] == "prule" else s[1]
            body = stmt_body(s)
            g = nreal + naux
            naux += 1
            C.aux.append(g)
            allv = " ".join("v%d" % i for i in range(n))
            C.defs[g] = ["(rule (%s) %d (%s) -)" % (allv, n, lits(body, vs) if body else "t")]
            C.deps[g] = {pid(a[0], len(a[1])) for _, a in body}
            for pr, h in heads:
                p = pid(h[0], len(h[1]))
                C.defs.setdefault(p, []).append("(rule (%s) %d ((p %d %s)) (%d %d %s %d))" % (
                    " ".join(term(x, vs) for x in h[1]), n, g, allv, nident, ngroup, rat(pr), nb))
                C.deps.setdefault(p, set()).add(g)
                C.choices.append(dict(ident=nident, group=ngroup, name=nb, nvars=n))
                nident += nc ** n
                nb += nc ** n
            ngroup += nc ** n
    for g in C.aux:                      # auxiliary body predicates: atom ids for the specification only (never names)
        C.namebase[g] = nb
        nb += nc ** C.defs[g][0].split(")")[0].count("v")
    C.natoms = nb
    C.nchoices = nident
    C.failname = {}
    for _, a in calls:
        if any(is_var(x) for x in a[1]) and a not in C.failname:
            C.failname[a] = nb
            nb += 1
    C.npreds = nreal + naux
    rank = {}

    def rk(a, depth=0):
        if depth > C.npreds + 1:
            raise Infra("groundfo_util: generated program is recursive")
        if a not in rank:
            rank[a] = 1 + max([rk(b, depth + 1) for b in C.deps.get(a, ())] or [-1])
        return rank[a]
    for a in range(C.npreds):
        rk(a)
    C.fuel = max(rank.values()) + 2
    C.rank = rank
    C.arity = {i: ar for (_, ar), i in C.pred.items()}
    for g in C.aux:
        C.arity[g] = C.defs[g][0].split(")")[0].count("v")
    C.prog = "(%s)" % " ".join("(%d %s)" % (a, " ".join(cs)) for a, cs in sorted(C.defs.items()))
    C.bases = "(%s)" % " ".join("(%d %d)" % kv for kv in sorted(C.namebase.items()))
    return C


def canon_args(args, C):
    """call arguments (constants / variable names) -> model values with variables numbered by first occurrence"""
    seen = []
    out = []
    for x in args:
        if x in C.cidx:
            out.append("c%d" % C.cidx[x])
        else:
            if x == "_":
                seen.append(object())
                out.append("v%d" % (len(seen) - 1))
            else:
                if x not in seen:
                    seen.append(x)
                out.append("v%d" % seen.index(x))
    return out


def atom_name(C, a):
    """name id of a ground atom, or the registered name of a non-ground query term"""
    if any(is_var(x) for x in a[1]):
        return C.failname[a]
    return C.namebase[C.pred[(a[0], len(a[1]))]] + enc(C.nc, [C.cidx[x] for x in a[1]])


def model_line(C, calls, sched):
    cs = " ".join("(%d (%s) %s %d)" % (C.pred[(a[0], len(a[1]))], " ".join(canon_args(a[1], C)), ground_util.LABELS[l],
                                       atom_name(C, a)) for l, a in calls)
    sc = " ".join("((%s) %s)" % (g, " ".join(map(str, code))) for g, code in sorted(sched.items()))
    return "GROUNDFO %s %d %s %s (%s) (%s) %d" % (ground_util.OPTS, C.nc, C.prog, C.bases, cs, sc, C.fuel)


def specok_line(C):
    """Input of `Drivers.GroundFOCheck`: are the hypotheses `SpecOK` of the proved correctness theorem true of the program?"""
    return "SPECOK %d %s %s %d (%s) (%s)" % (C.nc, C.prog, C.bases, C.natoms,
                                             " ".join("(%d %d)" % kv for kv in sorted(C.arity.items())),
                                             " ".join("(%d %d)" % kv for kv in sorted(C.rank.items())))


def check_line(C, calls, sched, nworlds=8):
    """Input of `Drivers.GroundFOCheck`: the model's results against `Sem.wfm` of the Herbrand instantiation."""
    return model_line(C, calls, sched).replace("GROUNDFO", "CHECKFO", 1) + " %d %d %d" % (C.natoms, C.nchoices, nworlds)


# ------------------------------------------------------------------------------------------------ the real engine
def query_term(a):
    """The Term the engine is called with: `_` become distinct variables."""
    from problog.logic import Term, Var, Constant
    n = [0]
    args = []
    for x in a[1]:
        if x == "_":
            n[0] += 1
            args.append(Var("_G%d" % n[0]))
        elif x in VARSET:
            args.append(Var(x))
        elif re.fullmatch(r"-?[0-9]+", x):
            args.append(Constant(int(x)))       # numeric constants of the shared generator ("1", "2.5")
        elif re.fullmatch(r"-?[0-9]+\.[0-9]+", x):
            args.append(Constant(float(x)))
        else:
            args.append(Term(x))
    return Term(a[0], *args)


def term_key(a):
    """str() of the Term built by `query_term` (the name the engine gives to a query without result)."""
    return str(query_term(a))


def calls_of(P, mode):
    if mode == "all":
        return [("query", q) for q in P["queries"]] + [("evidence+" if v else "evidence-", a) for a, v in P["evidence"]]
    return P["history"]


def run_real(P, mode, sched_seed=None, want_probs=False):
    from problog.program import PrologString
    from problog.engine import DefaultEngine
    import problog.engine_stack as es
    calls = calls_of(P, mode)
    C = compile_model(P, calls)
    out = {}
    recorded = []
    orig = getattr(es, "_verif_shuffle", None)

    def rec(messages):
        msgs = list(messages)
        res = orig(msgs)
        if len(msgs) > 1 and all(m[0] == "e" for m in msgs):
            recorded.append((msgs[0][3].get("call"), [m[1] for m in reversed(msgs)], [m[1] for m in reversed(res)]))
        return res
    try:
        engine = DefaultEngine()
        db = engine.prepare(PrologString(clauses_src(P)))
        M = _db_maps(db, P, C)
        if sched_seed is not None:
            if orig is None:
                raise Infra("schedule hook _verif_shuffle missing in engine_stack")
            es._verif_shuffle = rec
            es._verif_set_schedule(sched_seed)
        try:
            if mode == "all":
                qs = [query_term(q) for q in P["queries"]]
                evs = [(query_term(a), v) for a, v in P["evidence"]]
                target = engine.ground_all(db, queries=qs, evidence=evs)
            else:
                target = None
                for label, a in P["history"]:
                    target = engine.ground(db, query_term(a), target=target, label=label)
        finally:
            if sched_seed is not None:
                es._verif_set_schedule(None)
                es._verif_shuffle = orig
        M.fail = {term_key(a): n for a, n in C.failname.items()}
        out["store"] = ser_formula(target, C, M)
        out["tg"], out["tn"] = ser_cache(target, C, M)
        sched = {}
        for goal, before, after in recorded:
            if goal is None:
                raise Infra("schedule batch without a goal")
            g = goal_text(goal[0], list(goal[1]), C, M)
            if g in sched:
                out["sched_mismatch"] = "goal %s evaluated twice" % g
                continue
            remaining = list(before)
            code = []
            for x in after:
                j = remaining.index(x)
                code.append(j)
                remaining.pop(j)
            sched[g] = code
        out["sched"] = sched
        if want_probs:
            out["probs"] = ground_util._evaluate(target)
    except Infra:
        raise
    except Exception as e:
        out["error"] = (type(e).__name__, semcheck.site_of(e), traceback.format_exc()[-800:])
    return out


class Maps:
    pass


def _db_maps(db, P, C):
    facts = [s for s in P["stmts"] if s[0] in ("pf", "fact")]
    nheads = sum(1 if s[0] == "prule" else len(s[1]) for s in P["stmts"] if s[0] in ("prule", "ad"))
    M = Maps()
    M.fact = {}          # db node id -> ident
    M.choice = {}        # (db group, choice index) -> C.choices entry
    M.group = {}         # db group -> (AD statement number, group base, aux pred)
    fi = ci = 0
    for i, n in db.enum_nodes():
        ty = type(n).__name__
        if ty == "fact":
            if fi >= len(facts):
                raise Infra("groundfo_util: more fact nodes than fact statements")
            s = facts[fi]
            if (str(n.functor), tuple(map(str, n.args))) != s[-1]:
                raise Infra("groundfo_util: fact node %s does not match statement %s" % (n, s))
            M.fact[i] = C.facts[fi]
            fi += 1
        elif ty == "choice":
            if ci >= len(C.choices):
                raise Infra("groundfo_util: more choice nodes than AD heads")
            ch = C.choices[ci]
            if n.group not in M.group:
                k = len(M.group)
                M.group[n.group] = (k, ch["group"], C.aux[k])
            elif M.group[n.group][1] != ch["group"]:
                raise Infra("groundfo_util: AD group numbering mismatch")
            M.choice[(n.group, n.choice)] = ch
            ci += 1
    if fi != len(facts) or ci != nheads:
        raise Infra("groundfo_util: ClauseDB has %d fact / %d choice nodes, program %d / %d" % (fi, ci, len(facts), nheads))
    return M


def _split_top(s):
    out, depth, cur = [], 0, ""
    for ch in s:
        if ch == "(":
            depth += 1
        elif ch == ")":
            depth -= 1
        if ch == "," and depth == 0:
            out.append(cur)
            cur = ""
        else:
            cur += ch
    if cur != "" or out:
        out.append(cur)
    return [x.strip() for x in out]


def _name(nm, C, M):
    if nm is None:
        return "-"
    s = str(nm)
    neg = ""
    if s.startswith("\\+"):
        neg, s = "~", s[2:]
    if s in M.fail:
        return "%sn%d" % (neg, M.fail[s])
    m = re.match(r"(\w+)(?:\((.*)\))?$", s)
    if not m:
        raise Infra("groundfo_util: unexpected node name %s" % s)
    f, args = m.group(1), _split_top(m.group(2)) if m.group(2) else []
    if f == "choice" and len(args) >= 3 and args[0].isdigit():
        g = int(args[0])
        k, gbase, _aux = M.group[g]
        if args[1] == "e":
            return "%sx%d" % (neg, gbase + enc(C.nc, [C.cidx[x] for x in args[3:]]))
        ch = M.choice[(g, int(args[1]))]
        return "%sn%d" % (neg, ch["name"] + enc(C.nc, [C.cidx[x] for x in args[3:]]))
    if (f, len(args)) not in C.pred or any(x not in C.cidx for x in args):
        raise Infra("groundfo_util: unexpected node name %s" % s)
    return "%sn%d" % (neg, C.namebase[C.pred[(f, len(args))]] + enc(C.nc, [C.cidx[x] for x in args]))


def _ctx_consts(ctx, C):
    return [C.cidx[str(x)] for x in ctx]


def ser_formula(f, C, M):
    nodes = []
    for n in f._nodes:
        ty = type(n).__name__
        if ty == "atom":
            idt = n.identifier
            if isinstance(idt, int):
                ident = str(M.fact[idt])
            elif isinstance(idt, tuple):
                ident = str(M.choice[(idt[0], idt[2])]["ident"] + enc(C.nc, _ctx_consts(idt[1], C)))
            else:
                ident = "x%d" % (M.group[n.group[0]][1] + enc(C.nc, _ctx_consts(n.group[1], C)))
            g = "-" if n.group is None else str(M.group[n.group[0]][1] + enc(C.nc, _ctx_consts(n.group[1], C)))
            nodes.append("(atom %s %s %s %s)" % (ident, g, "t" if n.is_extra else "f", _name(n.name, C, M)))
        else:
            nodes.append("(%s (%s) %s)" % (ty, " ".join(spine.k2s(c) for c in n.children), _name(n.name, C, M)))
    ws = ["(%d %s)" % (i, spine.w2s(w)) for i, w in f.get_weights().items()]
    names = ["(%s %s %s)" % (spine.label_s(l), _name(nm, C, M), spine.k2s(k)) for nm, k, l in f.get_names_with_label()]
    adl = []
    for c in f.constraints():
        if type(c).__name__ == "ConstraintAD":
            adl.append("(%d (%s) %s)" % (M.group[c.group[0]][1] + enc(C.nc, _ctx_consts(c.group[1], C)),
                                         " ".join(str(x) for x in sorted(c.nodes)),
                                         "-" if c.extra_node is None else c.extra_node))
    return spine.canon_store("(store %s (nodes %s) (weights %s) (names %s) (ads %s))" % (
        ground_util.OPTS, " ".join(nodes), " ".join(ws), " ".join(names), " ".join(adl)))


def goal_text(functor, args, C, M):
    """`pred V*` of a goal of the engine (functor, argument list with negative ints for variables)."""
    functor = str(functor)
    if re.match(r"body_\d+$", functor):
        g = int(str(args[0]))
        p = M.group[g][2]
        args = args[2:]
    else:
        p = C.pred[(functor, len(args))]
    seen = []
    out = []
    for x in args:
        if isinstance(x, int):
            if x not in seen:
                seen.append(x)
            out.append("v%d" % seen.index(x))
        else:
            out.append("c%d" % C.cidx[str(x)])
    return ("%d %s" % (p, " ".join(out))).strip()


def _walk(d, depth, prefix, out):
    if depth == 0:
        for state, v in d.items():
            if state:
                raise Infra("groundfo_util: table entry with state")
            out.append((prefix, v))
    else:
        for k, sub in d.items():
            _walk(sub, depth - 1, prefix + [k], out)


def ser_cache(target, C, M):
    cache = getattr(target, "_cache", None)
    if cache is None:
        return "", ""
    tg, tn = [], []
    for (functor, ar), d in cache._DefineCache__ground._NestedDict__base.items():
        ents = []
        _walk(d, ar, [], ents)
        for args, v in ents:
            tg.append("((%s) %s)" % (goal_text(functor, args, C, M), spine.k2s(v)))
    for (functor, ar), d in cache._DefineCache__non_ground._NestedDict__base.items():
        ents = []
        _walk(d, ar, [], ents)
        for args, rs in ents:
            res = " ".join("((%s) %s)" % (" ".join(goal_text(functor, list(r), C, M).split()[1:]), spine.k2s(k))
                           for r, k in rs.results)
            tn.append("((%s) (%s))" % (goal_text(functor, args, C, M), res))
    return " ".join(sorted(tg)), " ".join(sorted(tn))


def parse_model(out):
    if not out.startswith("ok "):
        return out
    m = re.match(r"ok \(tg(.*?)\) \(tn(.*?)\) (\(store .*\))$", out)
    if not m:
        raise Infra("bad GROUNDFO output: " + out[:200])

    def entries(txt):
        out, depth, cur = [], 0, ""
        for ch in txt:
            if ch == "(":
                depth += 1
            if depth > 0:
                cur += ch
            if ch == ")":
                depth -= 1
                if depth == 0:
                    out.append(cur)
                    cur = ""
        return out
    return (" ".join(sorted(entries(m.group(1)))), " ".join(sorted(entries(m.group(2)))), spine.canon_store(m.group(3)))


# ------------------------------------------------------------------------------------------------ the phase
MODULE = "ProbLogProofs.Properties.C01GroundFO"
THEOREMS = [
    "ProbLogProofs.C01GroundFO.GroundFO_table_inv_partial",
    "ProbLogProofs.C01GroundFO.GroundFO_valuation_exists_partial",
]
# the link between the model's program (auxiliary AD-body goals) and the inlined program sent to `Sem`, ground case
# semantic correctness of the first-order model relative to the first-order completion (IsModelFO); per check its own part
MODULE_SEM = "ProbLogProofs.Properties.C01GroundFOSem"
THEOREMS_SEM = {
    "all": ["ProbLogProofs.C01GroundFO.C01_groundFO_correct_partial", "ProbLogProofs.C01GroundFO.GroundFO_table_sem_partial",
            "ProbLogProofs.GroundFOSem.unifOK"],
    "sched": ["ProbLogProofs.C01GroundFO.C03_groundFO_schedule_independent_partial"],
    "history": ["ProbLogProofs.C01GroundFO.C08_groundFO_history_independent_partial"],
}
MODULE_SPEC = "ProbLogProofs.Properties.C01GroundFOSpec"
THEOREMS_SPEC = [
    "ProbLogProofs.C01GroundFO.toSemRules_eq",
    "ProbLogProofs.C01GroundFO.C01_groundFO_correct_example",
]
MODULE_TRUTH = "ProbLogProofs.Properties.C01GroundFOTruth"
THEOREMS_TRUTH = [
    "ProbLogProofs.C01GroundFO.C01_groundFO_truth_spec",
    "ProbLogProofs.C01GroundFO.C01_groundFO_ground_engine_on_instantiation",
]
MODULE_INLINE = "ProbLogProofs.Properties.C01GroundInline"
THEOREMS_INLINE = [
    "ProbLogProofs.C01Ground.C01_ground_inline_same_truth",
    "ProbLogProofs.C01Ground.C01_ground_inline_aux_false",
]


def _theorems():
    return THEOREMS


def _work(item):
    P, mode, seed, probs = item
    return run_real(P, mode, seed, probs)


def gen_mixed(rng):
    """70% own generator, 30% spine's generator (C01's, without positive recursion / body disjunction)."""
    while True:
        if rng.random() < 0.3:
            P = from_spine(rng)
            if P is None:
                continue
            return P
        return gen_program(rng)


def phase(ctx, kind, nq, nt):
    """kind: "all" (C01), "sched" (C03), "history" (C08) - as `ground_util.phase`, on programs with variables."""
    from lib import pmap
    ctx.proof_phase(MODULE, _theorems())
    ctx.proof_phase(MODULE_SEM, THEOREMS_SEM[kind])
    if kind == "all":
        ctx.proof_phase(MODULE_INLINE, THEOREMS_INLINE)
    drv = ctx.driver("Drivers.GroundFO")
    sdrv = ctx.driver("Drivers.Spine")
    if drv is None or sdrv is None:
        return
    rng = ctx.sub_rng("ground-fo-" + kind)
    n = ctx.budget(nq, nt)
    items = []
    if ctx.replay_in:
        import json
        rp = json.load(open(ctx.replay_in)).get("replay", {})
        if not str(rp.get("tag", "")).startswith("groundfo-"):
            return
        items.append((ground_util._restore(rp["program"], rp.get("history")), rp["mode"], rp.get("sched_seed"), False))
        n = 1
    else:
        for P in [gen_mixed(rng) for _ in range(n)]:
            if kind == "all":
                items.append((P, "all", None, False))
            elif kind == "sched":
                items.append((P, "all", rng.randrange(1 << 30), False))
            else:
                items.append((P, "history", rng.randrange(1 << 30) if rng.random() < 0.5 else None, False))
    reals = [_work(x) for x in items] if len(items) <= 500 else pmap(_work, items, chunksize=32)
    lines = []
    for (P, mode, seed, _), R in zip(items, reals):
        calls = calls_of(P, mode)
        lines.append(model_line(compile_model(P, calls), calls, R.get("sched", {})))
    outs = drv.run(lines)
    nbad = 0
    for (P, mode, seed, _), R, out in zip(items, reals, outs):
        src = clauses_src(P)
        calls = calls_of(P, mode)
        ctx.case("groundfo:%s:%s:%s:%s" % (kind, src, calls, seed),
                 nontrivial=any(s[0] in ("rule", "prule", "ad") for s in P["stmts"]))
        ctx.count("groundfo-model:" + kind)
        if R.get("tn"):
            ctx.count("groundfo-model:non-ground goals tabled")
        if seed is not None and R.get("sched"):
            ctx.count("groundfo-model:permuted-batches", len(R["sched"]))
        M = parse_model(out)
        diff = None
        if "error" in R:
            diff = "engine raised %s at %s; model: %s" % (R["error"][0], R["error"][1], str(M)[:200])
        elif isinstance(M, str):
            diff = "model: %s; engine grounded without error" % M
        elif "sched_mismatch" in R:
            diff = "sibling batches: " + R["sched_mismatch"]
        elif M[2] != R["store"]:
            diff = "ground programs differ\n engine: %s\n model:  %s" % (R["store"], M[2])
        elif M[0] != R["tg"]:
            diff = "ground tables differ\n engine: %s\n model:  %s" % (R["tg"], M[0])
        elif M[1] != R["tn"]:
            diff = "non-ground tables differ\n engine: %s\n model:  %s" % (R["tn"], M[1])
        if len([x for x in ctx.samples if isinstance(x, dict) and "groundfo-model" in x]) < 1:
            ctx.sample({"groundfo-model": kind, "src": src, "calls": str(calls), "sched": R.get("sched"),
                        "store": R.get("store", "")[:300]}, limit=8)
        if diff is None:
            continue
        nbad += 1
        ctx.disagree("grounding engine vs first-order model (%s)" % kind, "%s | program: %s | calls: %s | sched seed %s" % (
            diff, src.replace("\n", " "), calls, seed))
        if nbad <= 8:
            find_failing_input(ctx, sdrv, P, mode, seed, kind)
    ctx.obligation("correspondence: grounding engine = first-order model on %d programs with variables (%s)" % (n, kind),
                   nbad == 0, "%d differences" % nbad)
    semantic_check(ctx, sdrv, items, reals, kind, rng)


MODULE_FULL = "ProbLogProofs.Properties.C01GroundFOFull"
THEOREMS_FULL = {
    "all": ["ProbLogProofs.C01GroundFO.C01_groundFO_correct_wfm_partial",
            "ProbLogProofs.C01GroundFO.C01_groundFO_correct_truthFO_partial",
            "ProbLogProofs.C01GroundFO.C01_groundFO_reported_in_range",
            "ProbLogProofs.C01GroundFO.C01_groundFO_CorrectFO_of_returns",
            "ProbLogProofs.GroundFOSem.mspec_isModelFO", "ProbLogProofs.GroundFOSem.specOKb_sound",
            "ProbLogProofs.C01GroundFO.exF2_specOK", "ProbLogProofs.C01GroundFO.C01_groundFO_correct_wfm_exF2"],
    "sched": ["ProbLogProofs.C01GroundFO.C03_groundFO_schedule_independent_wfm_partial"],
    "history": ["ProbLogProofs.C01GroundFO.C08_groundFO_history_independent_wfm_partial"],
}


MODULE_TOTAL = "ProbLogProofs.Properties.C01GroundFOTotal"
THEOREMS_TOTAL = ["ProbLogProofs.C01GroundFO.C01_groundFO_instantiation_total",
                  "ProbLogProofs.C01GroundFO.C01_groundFO_fuel_sufficient",
                  "ProbLogProofs.C01GroundFO.prankb_sound", "ProbLogProofs.C01GroundFO.exN_fuel",
                  "ProbLogProofs.C01GroundFO.exN_specOK", "ProbLogProofs.C01GroundFO.C01_groundFO_correct_wfm_exN"]


def semantic_check(ctx, sdrv, items, reals, kind, rng):
    """The statement `C01GroundFO.CorrectFO` is CHECKED per program by executing the Lean definitions
    (`Drivers.GroundFOCheck`): in several worlds every reported key of the model evaluates to `Sem.wfm` of the Herbrand
    instantiation `GroundFO.inst`, and every instance that is not reported is false - under the recorded schedule and
    under an arbitrary one.  It is also PROVED for the model in partial-correctness form (`C01GroundFOFull.lean`:
    whenever the model returns; hypotheses `SpecOK`, decided per program below; reported tuples proved in range; fuel
    sufficiency and total correctness on the instantiation route in `C01GroundFOTotal.lean`); the executable check stays
    as the independent test of the statement and covers termination on the programs run."""
    if kind == "all":
        ctx.proof_phase(MODULE_SPEC, THEOREMS_SPEC)
        ctx.proof_phase(MODULE_TRUTH, THEOREMS_TRUTH)
    ctx.proof_phase(MODULE_FULL, THEOREMS_FULL[kind])
    if kind == "all":
        ctx.proof_phase(MODULE_TOTAL, THEOREMS_TOTAL)
    cdrv = ctx.driver("Drivers.GroundFOCheck")
    if cdrv is None:
        return
    # Does the proved theorem (C01_groundFO_correct_wfm_partial) apply to the programs run here?  Its hypotheses
    # `SpecOK` are decided by the Lean definition `specOKb` (sound: `specOKb_sound`).  A program outside them is not a
    # finding and not a model defect - only not covered by the theorem - so it is counted, not failed.
    souts = cdrv.run([specok_line(compile_model(P, calls_of(P, mode))) for (P, mode, _, _) in items])
    nbadop = sum(1 for o in souts if not o.startswith("spec "))
    for o in souts:
        ctx.count("groundfo-model:theorem hypotheses (SpecOK) " + ("hold" if o == "spec t" else "do not hold: " + o))
    ctx.obligation("hypotheses of the proved first-order theorem decided per program: %d of %d programs covered (%s)" % (
        sum(1 for o in souts if o == "spec t"), len(souts), kind), nbadop == 0, "%d inputs not understood" % nbadop)
    lines, owners = [], []
    for (P, mode, seed, _), R in zip(items, reals):
        calls = calls_of(P, mode)
        C = compile_model(P, calls)
        lines.append(check_line(C, calls, R.get("sched", {})))
        owners.append((P, mode, seed))
        lines.append(check_line(C, calls, {"999999": " ".join(str(rng.randrange(7)) for _ in range(6)).split()}))
        owners.append((P, mode, seed))
    outs = cdrv.run(lines)
    nbad = 0
    for (P, mode, seed), out in zip(owners, outs):
        ctx.count("groundfo-model:semantic checks")
        if out.startswith("ok ") and out.endswith(" t"):
            continue
        nbad += 1
        ctx.disagree("first-order model vs Sem.wfm of the Herbrand instantiation (%s)" % kind, "%s | program: %s | calls: %s" % (
            out, clauses_src(P).replace("\n", " "), calls_of(P, mode)))
        if nbad <= 4:
            find_failing_input(ctx, sdrv, P, mode, seed, kind)
    ctx.obligation("semantic check: model results = Sem.wfm of the instantiation, unreported instances false (%d runs, %s)" % (
        len(lines), kind), nbad == 0, "%d failures" % nbad)


def sem_view(P, mode):
    """The program as `spine.sem_line` understands it: repeated-variable queries expanded to their ground instances,
    non-ground evidence dropped (both for the engine run and for the specification)."""
    calls = calls_of(P, mode)
    qs, evs = [], {}
    for l, a in calls:
        if l == "query":
            if any(x in VARSET for x in a[1]):
                for c in P["consts"]:
                    g = (a[0], tuple(c if x in VARSET else x for x in a[1]))
                    if len({x for x in a[1] if x in VARSET}) == 1 and "_" not in a[1] and g not in qs:
                        qs.append(g)
            elif a not in qs:
                qs.append(a)
        elif not any(is_var(x) for x in a[1]):
            evs[a] = (l == "evidence+")
    Q = dict(P, queries=qs, evidence=list(evs.items()))
    Q["history"] = [("query", q) for q in qs] + [("evidence+" if v else "evidence-", a) for a, v in Q["evidence"]]
    return Q


def _check_sem(ctx, sdrv, P, mode, seed, kind):
    Q = sem_view(P, mode)
    if not Q["queries"]:
        return Q, []
    sem = semcheck.spec_batch(sdrv, [Q])[0]
    R = run_real(Q, "all", seed, want_probs=True)
    run = ("error", ("ground", R["error"][0], R["error"][1])) if "error" in R else R["probs"]
    return Q, semcheck.compare(Q, sem, run, "groundfo-%s" % kind, ctx)


def find_failing_input(ctx, sdrv, P, mode, seed, kind):
    Q, bad = _check_sem(ctx, sdrv, P, mode, seed, kind)
    for what, sig in bad:
        small = Q
        if getattr(ctx, "_groundfo_nshrunk", 0) < 2 and ctx.known_match(sig) is None:
            ctx._groundfo_nshrunk = getattr(ctx, "_groundfo_nshrunk", 0) + 1
            from props.c01 import shrink_program

            def still(c):
                if not in_fragment(c):
                    return False
                return any(semcheck.same_failure(s2, sig) for _, s2 in _check_sem(ctx, sdrv, c, "all", seed, kind)[1])
            try:
                small = shrink_program(Q, still)
            except Exception:
                small = Q
        small = sem_view(small, "all")
        ctx.fail(what + " | program: " + spine.to_src(small).replace("\n", " "),
                 {"program": small, "src": spine.to_src(small), "tag": "groundfo-" + kind, "mode": "all", "sched_seed": seed,
                  "history": small.get("history")}, sig)
        break


def guarded(ctx, kind, nq, nt):
    try:
        phase(ctx, kind, nq, nt)
        return None
    except Exception as e:     # noqa: B902 - reported by ground_util.after
        return "%s: %s | %s" % (type(e).__name__, e, traceback.format_exc()[-1500:])
