"""C06 (part) — evidence propagation: `LogicFormula.propagate`, `get_evidence_value`, the engine's lookup of propagated
values and the evidence branch of `ConstraintAD.add`.

`check_propagate(ctx)` is called from harness/props/c06.py (it does not call ctx.finish):
  (a) correspondence: the Lean model `ProbLogModel.Propagate.propagate` (driver Drivers.C06P) against the real
      `formula.propagate` on (1) the formula that `ground_evidence(..., propagate_evidence=True)` passes to it for generated
      programs (observed by wrapping the method during `LogicFormula.create_from`), (2) and/or graphs with evidence labels
      built directly through the LogicFormula API, (3) a small malformed stream (unknown node ids, TRUE/None children).
      The pop order of the Python `set` is observed (local `nid` of the running frame) and replayed in the model, so the
      resulting dicts are compared *exactly* (entries, insertion order, pop sequence, exception class); the model's
      first/last orders and - for small cases - all orders are compared as sets.
  (b) oracle, independent of the Lean model: truth tables over the atoms (least fixpoint / well-founded value of every
      node): every propagated value holds in every total assignment that satisfies the evidence; if the real code raises
      InconsistentEvidenceError no assignment satisfies the evidence. The final `lookup_evidence` of a ground program
      (after `ConstraintAD.add` touched it) is checked the same way under the at-most-one constraint of the ADs.
"""
import itertools
import sys

import spine

MODULE = "ProbLogProofs.Properties.C06Propagate"
THEOREMS = [
    "ProbLogProofs.C06.C06_propagate_sound",
    "ProbLogProofs.C06.C06_propagate_sound_mem",
    "ProbLogProofs.C06.C06_propagate_inconsistent_sound",
    "ProbLogProofs.C06.C06_propagate_terminates",
    "ProbLogProofs.C06.C06_propagate_keys_once",
    "ProbLogProofs.C06.C06_propagateEvidence_sound",
    "ProbLogProofs.C06.C06_evValue_sound",
    "ProbLogProofs.C06.C06_engineLookup_sound",
    "ProbLogProofs.C06.C06_substitute_consistent",
    "ProbLogProofs.C06.C06_adAddEv_sound",
    "ProbLogProofs.C06.C06_evidence_spelling",
    "ProbLogProofs.C06.C06_propagate_unsat_order_dependent",
]
DRIVER = "Drivers.C06P"

EXC = {"InconsistentEvidenceError": "InconsistentEvidenceError", "TypeError": "TypeError",
       "AssertionError": "BadKey", "IndexError": "BadKey"}


# ------------------------------------------------------------------------------------------------ real implementation
def observed_propagate(f, nodeids, current=None, orig=None):
    """Run the real `propagate`, recording the pop order (local variable `nid` of the propagate frame, read when
    `get_node` is called right after `queue.pop()`). Returns (outcome, pops or None)."""
    pops = []
    ok = [True]
    real_get = f.get_node

    def get_node(key):
        try:
            fr = sys._getframe(1)
            if fr.f_code.co_name == "propagate":
                pops.append(fr.f_locals["nid"])
        except Exception:
            ok[0] = False
        return real_get(key)
    f.get_node = get_node
    try:
        try:
            if orig is not None:
                res = orig(f, nodeids, current)
            else:
                res = f.propagate(nodeids, current)
            out = ("ok", list(res.items()), res)
        except Exception as e:  # classified by the caller
            out = ("exc", type(e).__name__, e)
    finally:
        del f.get_node
    return out, (pops if ok[0] else None)


def r_outcome(out):
    if out[0] == "ok":
        return "ok (%s)" % " ".join("(%d %s)" % (k, spine.k2s(v)) for k, v in out[1])
    return EXC.get(out[1], out[1])


def canon(s):
    """order-insensitive form of an outcome string"""
    s = s.strip()
    if s.startswith("ok "):
        import re
        return "ok " + " ".join(sorted(re.findall(r"\(-?\d+ [^()]*\)", s[3:]), key=lambda p: int(p[1:].split()[0])))
    return s


# ------------------------------------------------------------------------------------------------ oracle (truth tables)
def node_eval_lfp(f_nodes, asg):
    """Well-founded value (T, U) of every node of a possibly cyclic and/or graph under an atom assignment."""
    n = len(f_nodes)
    kinds = [x[0] for x in f_nodes]

    def gamma(ctx):
        cur = [False] * n
        for i in range(n):
            if kinds[i] == "atom":
                cur[i] = asg.get(i + 1, False)
        changed = True
        while changed:
            changed = False
            for i in range(n):
                if kinds[i] == "atom" or cur[i]:
                    continue
                vals = []
                for c in f_nodes[i][1]:
                    if c is None:
                        vals.append(False)
                    elif c == 0:
                        vals.append(True)
                    elif c > 0:
                        vals.append(cur[c - 1])
                    else:
                        j = -c - 1
                        vals.append((not asg.get(j + 1, False)) if kinds[j] == "atom" else (not ctx[j]))
                v = all(vals) if kinds[i] == "conj" else any(vals)
                if v:
                    cur[i] = True
                    changed = True
        return cur
    t = [False] * n
    for _ in range(n + 2):
        u = gamma(t)
        t2 = gamma(u)
        if t2 == t:
            return t, u
        t = t2
    return t, gamma(t)


def snapshot(f):
    return [(type(n).__name__, tuple(n.children) if type(n).__name__ != "atom" else ()) for n in f._nodes]


def lit_val(vals, k):
    return vals[k - 1] if k > 0 else not vals[-k - 1]


def oracle(nodes, ev, outcome, ad_groups=(), max_atoms=10):
    """None = not applicable / too large; [] = fine; [msg] = the propagated values are not implied by the evidence."""
    atoms = [i + 1 for i, nd in enumerate(nodes) if nd[0] == "atom"]
    if len(atoms) > max_atoms:
        return None
    n = len(nodes)
    if any(e == 0 or abs(e) > n for e in ev):
        return None
    for nd in nodes:
        if any(c is not None and abs(c) > n for c in nd[1]):
            return None
    if outcome[0] == "exc" and outcome[1] != "InconsistentEvidenceError":
        return None
    nsat = 0
    for bits in itertools.product([False, True], repeat=len(atoms)):
        asg = dict(zip(atoms, bits))
        if any(sum(1 for a in g if asg.get(a, False)) > 1 for g in ad_groups):
            continue
        t, u = node_eval_lfp(nodes, asg)
        if t != u:
            continue  # not total: no requirement
        if not all(lit_val(t, e) for e in ev):
            continue
        nsat += 1
        if outcome[0] == "exc":
            return ["InconsistentEvidenceError raised, but the evidence %s holds under %s" % (ev, asg)]
        for k, v in outcome[1]:
            if not (1 <= k <= n) or v not in (0, None):
                return ["entry %r: %r is not a node with value TRUE/FALSE" % (k, v)]
            if t[k - 1] != (v == 0):
                return ["node %d propagated to %s but is %s under %s (evidence %s)" % (
                    k, "TRUE" if v == 0 else "FALSE", t[k - 1], asg, ev)]
    return []


def satisfiable(rec, max_atoms):
    """True iff the truth-table oracle finds a total assignment satisfying the evidence (None/[] otherwise)."""
    if rec["cur0"]:
        return False
    return bool(oracle(rec["nodes"], rec["ev"], ("exc", "InconsistentEvidenceError"), max_atoms=max_atoms))


# ------------------------------------------------------------------------------------------------ generators
def gen_graph(rng, malformed=False):
    """and/or graph through the LogicFormula API: shared sub-DAGs, positive cycles through mutable disjunctions,
    negation on acyclic parts, several evidence labels (atoms and compounds, both signs, sometimes contradictory)."""
    from problog.formula import LogicFormula
    from problog.logic import Term
    f = LogicFormula(auto_compact=not (malformed and rng.random() < 0.7))
    natoms = rng.randint(2, 5)
    atoms = [f.add_atom(i + 1, 0.5) for i in range(natoms)]
    if rng.random() < 0.3:
        g = (77, ())
        atoms += [f.add_atom(50 + i, 0.2, group=g) for i in range(rng.randint(2, 3))]
    muts = []
    if rng.random() < 0.4:
        muts = [f.add_or([], placeholder=True, readonly=False, name=Term("m%d" % i)) for i in range(rng.randint(1, 2))]
    pool = list(atoms) + list(muts)
    acyc = list(atoms)
    for _ in range(rng.randint(1, 7)):
        k = rng.choice([1, 2, 2, 2, 3])
        cs = [rng.choice(pool) for _ in range(k)]
        if rng.random() < 0.35 and acyc:
            cs[rng.randrange(len(cs))] = -rng.choice(acyc)
        if malformed and rng.random() < 0.4:
            cs.append(rng.choice([0, None, 0]))
        try:
            n = f.add_and(cs) if rng.random() < 0.5 else f.add_or(cs)
        except Exception:
            continue
        if n is not None and n != 0 and abs(n) not in [abs(x) for x in pool]:
            pool.append(abs(n))
            if all(abs(c) in [abs(x) for x in acyc] for c in cs if c):
                acyc.append(abs(n))
    for m in muts:
        for _ in range(rng.randint(1, 2)):
            f.add_disjunct(m, rng.choice(pool))
    nev = rng.choice([1, 1, 2, 2, 3, 4])
    for i in range(nev):
        k = rng.choice(acyc if rng.random() < 0.8 else pool)
        if rng.random() < 0.25:
            k = -k
        f.add_name(Term("e%d" % i), k, rng.choice([f.LABEL_EVIDENCE_POS, f.LABEL_EVIDENCE_POS, f.LABEL_EVIDENCE_NEG]))
    if rng.random() < 0.1:
        f.add_name(Term("et"), rng.choice([0, None]), f.LABEL_EVIDENCE_POS)
    return f


def ev_nodes_of(f):
    """engine.py ground_evidence: the list handed to propagate"""
    return [node for name, node in f.evidence() if node != 0 and node is not None]


class Hook:
    """Observe the call of `propagate` made by the grounder."""

    def __init__(self):
        self.calls = []

    def __enter__(self):
        from problog.formula import LogicFormula
        self.cls = LogicFormula
        self.orig = LogicFormula.propagate
        hook = self

        def propagate(f, nodeids, current=None):
            nodeids = list(nodeids)
            m = spine.Mapper()
            rec = {"store": spine.ser_store(f, m), "nodes": snapshot(f), "ev": nodeids,
                   "cur0": list((current or {}).items())}
            out, pops = observed_propagate(f, nodeids, current, orig=hook.orig)
            rec["out"], rec["pops"] = out, pops
            hook.calls.append(rec)
            if out[0] == "exc":
                raise out[2]
            return out[2]
        LogicFormula.propagate = propagate
        return self

    def __exit__(self, *a):
        self.cls.propagate = self.orig
        return False


# ------------------------------------------------------------------------------------------------ the check
def _mk_lines(rec, all_limit):
    ev = "(%s)" % " ".join(str(e) for e in rec["ev"])
    cur0 = "(%s)" % " ".join("(%d %s)" % (k, spine.k2s(v)) for k, v in rec["cur0"])
    L = []
    if rec["pops"] is not None:
        L.append(("replay", "PROP %s %s %s (replay %s)" % (rec["store"], ev, cur0, " ".join(str(p) for p in rec["pops"]))))
    L.append(("first", "PROP %s %s %s first" % (rec["store"], ev, cur0)))
    L.append(("last", "PROP %s %s %s last" % (rec["store"], ev, cur0)))
    if all_limit:
        L.append(("all", "ALL %s %s %s %d" % (rec["store"], ev, cur0, all_limit)))
    return L


def check_propagate(ctx, drv=None, register_proofs=True):
    """Returns True iff no disagreement / failure was reported by this part."""
    from problog.program import PrologString
    from problog.formula import LogicFormula
    from problog.logic import Term
    ok_all = True
    if register_proofs:
        ctx.proof_phase(MODULE, THEOREMS)
    if drv is None:
        drv = ctx.driver(DRIVER)
    rng = ctx.sub_rng("propagate")
    nprog = ctx.budget(120, 2500)
    ngraph = ctx.budget(400, 8000)
    nmal = ctx.budget(60, 800)
    max_atoms = ctx.budget(9, 11)
    recs = []

    # ---- (1) ground programs, propagate_evidence=True, the grounder's own call observed
    spelling_diff = None
    for i in range(nprog):
        P = spine.gen_program(rng)
        if not P.get("evidence") or rng.random() < 0.15:
            spine.add_evidence(P, rng, inconsistent=rng.random() < 0.3)
        style = rng.choice([0, 1])
        src = spine.to_src(P, evidence_style=style)
        lf = None
        err = None
        with Hook() as h:
            try:
                lf = spine.with_timeout(20, LogicFormula.create_from, PrologString(src), propagate_evidence=True)
            except spine.Timeout:
                ctx.count("propagate:timeout")
            except Exception as e:
                err = type(e).__name__
        for rec in h.calls:
            rec["kind"], rec["src"] = "program", src
            recs.append(rec)
        if err is not None:
            ctx.count("propagate:ground-exception:" + err)
            if not spine.is_problog_error(err):
                ctx.fail("grounding with propagate_evidence=True raised %s" % err, {"part": "propagate", "src": src},
                         {"kind": "exception", "exc": err, "where": "ground(propagate_evidence)"})
                ok_all = False
            continue
        if lf is None:
            continue
        # final lookup table (after ConstraintAD.add) against the oracle, under the AD constraints
        if h.calls and h.calls[0]["out"][0] == "ok" and hasattr(lf, "lookup_evidence"):
            final = list(lf.lookup_evidence.items())
            if set(final) != set(h.calls[0]["out"][1]):
                ctx.count("propagate:lookup extended by ConstraintAD.add")
            groups = [sorted(c.nodes) for c in lf.constraints() if type(c).__name__ == "ConstraintAD"]
            probs = oracle(snapshot(lf), ev_nodes_of(lf), ("ok", final), ad_groups=groups, max_atoms=max_atoms)
            if probs:
                ctx.fail("final lookup_evidence not implied by the evidence: %s" % probs[0],
                         {"part": "propagate", "src": src, "lookup": [(k, spine.k2s(v)) for k, v in final]},
                         {"kind": "unsound-propagation", "where": "lookup_evidence(final)"})
                ok_all = False
        # evidence spelling: the other spelling gives the same evidence literals
        if rng.random() < 0.5:
            try:
                lf2 = spine.with_timeout(20, LogicFormula.create_from, PrologString(spine.to_src(P, evidence_style=1 - style)))
                lf1 = spine.with_timeout(20, LogicFormula.create_from, PrologString(src))
                e1 = sorted((str(n), spine.k2s(k)) for n, k in lf1.evidence())
                e2 = sorted((str(n), spine.k2s(k)) for n, k in lf2.evidence())
                ctx.count("propagate:spelling compared")
                if e1 != e2 and spelling_diff is None:
                    spelling_diff = (src, e1, e2)
            except Exception:
                ctx.count("propagate:spelling skipped")

    # ---- (2) direct graphs, (3) malformed stream
    for i in range(ngraph + nmal):
        mal = i >= ngraph
        f = gen_graph(rng, malformed=mal)
        ev = ev_nodes_of(f)
        if mal and rng.random() < 0.5:
            ev = ev + [rng.choice([0, len(f) + 1, -(len(f) + 3)])]
        cur0 = None
        if rng.random() < 0.1 and len(f) > 0:
            # a non-empty `current` (values already known)
            cur0 = {rng.randint(1, len(f)): rng.choice([0, None]) for _ in range(rng.randint(1, 2))}
        m = spine.Mapper()
        rec = {"kind": "malformed" if mal else "graph", "src": None, "store": spine.ser_store(f, m), "nodes": snapshot(f),
               "ev": list(ev), "cur0": list((cur0 or {}).items()), "evid": ev_nodes_of(f)}
        out, pops = observed_propagate(f, list(ev), dict(cur0) if cur0 is not None else None)
        rec["out"], rec["pops"] = out, pops
        recs.append(rec)

    # ---- model
    lines, meta = [], []
    for ri, rec in enumerate(recs):
        ncomp = sum(1 for nd in rec["nodes"] if nd[0] != "atom")
        small = len(rec["nodes"]) <= 9 and len(rec["ev"]) <= 3
        for tag, l in _mk_lines(rec, ctx.budget(400, 3000) if small else 0):
            lines.append(l)
            meta.append((ri, tag))
        if "evid" in rec:
            lines.append("EVID %s" % rec["store"])
            meta.append((ri, "evid"))
        ctx.case(rec["store"] + str(rec["ev"]) + str(rec["cur0"]), nontrivial=ncomp > 0)
        ctx.count("propagate:" + rec["kind"])
        ctx.count("propagate:outcome:" + (rec["out"][0] if rec["out"][0] == "ok" else rec["out"][1]))
        if rec["out"][0] == "ok" and len(rec["out"][1]) > len(set(abs(e) for e in rec["ev"]) | set(k for k, _ in rec["cur0"])):
            ctx.count("propagate:derived a non-evidence node")
        if rec["pops"] is None:
            ctx.count("propagate:pop order not observable")
        if len(ctx.samples) < 2:
            ctx.sample({"kind": rec["kind"], "src": rec["src"], "store": rec["store"][:500], "ev": rec["ev"],
                        "result": r_outcome(rec["out"])[:300]})
    first_diff = None
    if drv is not None:
        outs = drv.run(lines)
        per = {}
        for o, (ri, tag) in zip(outs, meta):
            per.setdefault(ri, {})[tag] = o
        for ri, rec in enumerate(recs):
            real = r_outcome(rec["out"])
            got = per.get(ri, {})
            diff = None
            if "replay" in got:
                exp = "%s | (%s)" % (real, " ".join(str(p) for p in rec["pops"]))
                if got["replay"] != exp:
                    diff = ("replay of the observed pop order", got["replay"], exp)
            alls = None
            if "all" in got:
                head, _, body = got["all"].partition(" ")
                import re
                alls = (head, set(canon(x) for x in re.findall(r"\((ok \((?:\([^()]*\)\s*)*\)|[A-Za-z]+)\)", body)))
                if len(alls[1]) > 1:
                    ctx.count("propagate:outcome depends on pop order (model, all orders)")
                    if satisfiable(rec, max_atoms):
                        ctx.count("propagate:outcome depends on pop order although the evidence is satisfiable")
                if alls[0] == "complete" and canon(real) not in alls[1] and diff is None:
                    diff = ("real outcome not among the model's outcomes over all pop orders", sorted(alls[1]), canon(real))
            for tag in ("first", "last"):
                if tag in got and diff is None:
                    mo = canon(got[tag].split(" | ")[0])
                    if mo != canon(real):
                        if alls is not None and len(alls[1]) > 1:
                            continue  # legitimately order dependent
                        if alls is None:
                            ctx.count("propagate:first/last order differs (large case, not enumerated)")
                            if satisfiable(rec, max_atoms):
                                ctx.count("propagate:outcome depends on pop order although the evidence is satisfiable")
                            if "replay" in got:
                                continue
                        diff = ("model with pop order '%s'" % tag, mo, canon(real))
            if "evid" in got and diff is None:
                exp = "(%s)" % " ".join(str(e) for e in rec["evid"])
                if got["evid"] != exp:
                    diff = ("evidence nodes", got["evid"], exp)
            if diff is not None and first_diff is None:
                first_diff = (diff, rec)
    # ---- oracle
    first_problem = None
    for rec in recs:
        probs = oracle(rec["nodes"], rec["ev"], rec["out"], max_atoms=max_atoms) if not rec["cur0"] else None
        if probs is None:
            ctx.count("propagate:oracle not applicable")
        elif probs and first_problem is None:
            first_problem = (probs, rec)
        else:
            ctx.count("propagate:oracle checked")
    if spelling_diff:
        src, e1, e2 = spelling_diff
        ctx.fail("evidence spellings give different evidence literals: %s vs %s" % (e1, e2), {"part": "propagate", "src": src},
                 {"kind": "evidence-spelling"})
        ok_all = False
    if first_problem:
        probs, rec = first_problem
        ctx.fail("propagate: %s" % probs[0], {"part": "propagate", "src": rec["src"], "store": rec["store"], "ev": rec["ev"],
                                              "nodes": [[k, list(c)] for k, c in rec["nodes"]],
                                              "result": r_outcome(rec["out"])},
                 {"kind": "unsound-propagation", "where": "propagate", "outcome": rec["out"][0] if rec["out"][0] == "ok" else rec["out"][1]})
        ok_all = False
    if first_diff:
        (what, got, exp), rec = first_diff
        ctx.disagree("propagate model vs implementation (%s)" % what,
                     "input %s ev %s cur0 %s | model %s | implementation %s" % (
                         (rec["src"] or rec["store"])[:600], rec["ev"], rec["cur0"], str(got)[:800], str(exp)[:800]))
        ok_all = False
    ok_all = helpers_correspondence(ctx, drv, rng) and ok_all
    ctx.obligation("correspondence: Propagate.propagate = formula.propagate on %d calls (exact dict and pop sequence "
                   "under the observed order; all orders for small cases)" % len(recs),
                   first_diff is None and drv is not None, "" if first_diff is None else first_diff[0][0])
    return ok_all


def helpers_correspondence(ctx, drv, rng):
    """get_evidence_value / engine lookup / ConstraintAD.add evidence branch: model vs implementation."""
    from problog.formula import LogicFormula
    from problog.engine_stack import StackBasedEngine
    if drv is None:
        return False
    lines, exp = [], []
    for _ in range(ctx.budget(150, 1500)):
        tbl = {rng.randint(1, 6): rng.choice([0, None]) for _ in range(rng.randint(0, 4))}
        has = rng.random() < 0.85
        key = rng.choice([0, None, rng.randint(1, 7), -rng.randint(1, 7)])
        f = LogicFormula()
        if has:
            f.lookup_evidence = dict(tbl)
        ts = "(%s)" % " ".join("(%d %s)" % (k, spine.k2s(v)) for k, v in tbl.items()) if has else "-"
        lines.append("EVV %s %s" % (ts, spine.k2s(key)))
        exp.append(spine.k2s(f.get_evidence_value(key)))
        lines.append("ENG %s %s" % (ts, spine.k2s(key)))
        exp.append(spine.k2s(StackBasedEngine.propagate_evidence(None, None, f, None, None, key)))
    for _ in range(ctx.budget(100, 1000)):
        f = LogicFormula()
        g = (1, ())
        nmem = rng.randint(1, 3)
        mem = [f.add_atom(i + 1, 0.1, group=g, cr_extra=False) for i in range(nmem)]
        tbl = {rng.randint(1, nmem + 1): rng.choice([0, None]) for _ in range(rng.randint(0, 3))}
        f.lookup_evidence = dict(tbl)
        r = f.add_atom(nmem + 1, 0.1, group=g, cr_extra=False)
        cons = [c for c in f.constraints()][0]
        after = "(%s)" % " ".join("(%d %s)" % (k, spine.k2s(v)) for k, v in sorted(f.lookup_evidence.items()))
        if r is None:
            e = "retFalse"
        elif (nmem + 1) in cons.nodes:
            e = "continue " + after
        else:
            e = "retNode " + after
        lines.append("AD (%s) (%s) %d" % (" ".join("(%d %s)" % (k, spine.k2s(v)) for k, v in tbl.items()),
                                         " ".join(str(x) for x in mem), nmem + 1))
        exp.append(e)
    outs = drv.run(lines)
    outs = [(o.split(" ")[0] + " (" + canon("ok " + o.split(" ", 1)[1])[3:] + ")") if o.startswith(("continue ", "retNode ")) else o
            for o in outs]
    bad = [(l, o, e) for l, o, e in zip(lines, outs, exp) if o != e]
    ctx.count("propagate:helper ops compared", len(lines))
    if bad:
        l, o, e = bad[0]
        ctx.disagree("evidence-value helper model vs implementation", "op %s | model %s | implementation %s" % (l, o, e))
    ctx.obligation("correspondence: evValue / engineLookup / adAddEv = get_evidence_value / propagate_evidence lookup / "
                   "ConstraintAD.add on %d ops" % len(lines), not bad, "" if not bad else bad[0][0][:200])
    return not bad


# ------------------------------------------------------------------------------------------------ replay
def formula_from_nodes(nodes):
    """Rebuild a LogicFormula with exactly the given node array ([kind, children] per node; atoms get weight 0.5)."""
    from problog.formula import LogicFormula
    f = LogicFormula(auto_compact=False)
    for i, (kind, children) in enumerate(nodes):
        if kind == "atom":
            f.add_atom(i + 1, 0.5)
        elif kind == "conj":
            f._add(f._create_conj(tuple(children)), reuse=False)
        else:
            f._add(f._create_disj(tuple(children)), reuse=False)
    return f


def replay(ctx, obj):
    """Rerun one failing case written by `check_propagate` (obj = the `replay` field). Reports through ctx.fail again if
    the failure is still there; returns True if it was reproduced."""
    from problog.program import PrologString
    from problog.formula import LogicFormula
    max_atoms = 14
    if obj.get("nodes") is not None and obj.get("src") is None:
        nodes = [(k, tuple(c)) for k, c in obj["nodes"]]
        f = formula_from_nodes(nodes)
        out, _ = observed_propagate(f, list(obj["ev"]))
        probs = oracle(nodes, list(obj["ev"]), out, max_atoms=max_atoms)
        if probs:
            ctx.fail("propagate: %s" % probs[0], obj, {"kind": "unsound-propagation", "where": "propagate",
                                                       "outcome": out[0] if out[0] == "ok" else out[1]})
            return True
        return False
    if obj.get("src"):
        with Hook() as h:
            try:
                lf = LogicFormula.create_from(PrologString(obj["src"]), propagate_evidence=True)
            except Exception as e:
                lf = None
                if not spine.is_problog_error(type(e).__name__):
                    ctx.fail("grounding with propagate_evidence=True raised %s" % type(e).__name__, obj,
                             {"kind": "exception", "exc": type(e).__name__, "where": "ground(propagate_evidence)"})
                    return True
        for rec in h.calls:
            probs = oracle(rec["nodes"], rec["ev"], rec["out"], max_atoms=max_atoms)
            if probs:
                ctx.fail("propagate: %s" % probs[0], obj, {"kind": "unsound-propagation", "where": "propagate",
                                                           "outcome": rec["out"][0] if rec["out"][0] == "ok" else rec["out"][1]})
                return True
        if lf is not None and hasattr(lf, "lookup_evidence"):
            groups = [sorted(c.nodes) for c in lf.constraints() if type(c).__name__ == "ConstraintAD"]
            final = list(lf.lookup_evidence.items())
            probs = oracle(snapshot(lf), ev_nodes_of(lf), ("ok", final), ad_groups=groups, max_atoms=max_atoms)
            if probs:
                ctx.fail("final lookup_evidence not implied by the evidence: %s" % probs[0], obj,
                         {"kind": "unsound-propagation", "where": "lookup_evidence(final)"})
                return True
    return False
