"""C27 helper: isolated worker subprocesses that run one ProbLog program at a time and classify the outcome.

Parent side: `Pool(n, repo, timeout)` -- `run_one(job)`, `run_many(jobs)`; a worker that exceeds the per-case timeout
(or dies) is killed and restarted, the case is classified "timeout" / "died".
Worker side (`python c27_util.py --worker REPO TMPDIR`): JSON lines on private copies of fd 0/1; fd 0/1/2 themselves
are redirected to /dev/null so that builtins (write/nl/debugprint/dbg_printdb/trace, dsharp) cannot disturb the protocol.

Outcome classes
  result    inference returned a result dictionary
  problog   a subclass of problog.errors.ProbLogError was raised (kind = class name)       -- allowed by C27
  resource  RecursionError / MemoryError (limits imposed by the harness; counted, not reported)
  crash     any other exception: kind = type name, site = innermost traceback frame inside the problog package
  harness   an exception without any frame inside the problog package (harness trouble, never a property failure)
  timeout / died   set by the parent
"""
import json
import os
import queue
import select
import subprocess
import sys
import threading
import time

RESOURCE_KINDS = ("RecursionError", "MemoryError")


# =========================================================================== worker side
def _site(tb_entries, pkgdir):
    """innermost frame that lies inside the problog package: 'function: stripped source line' (no line numbers)."""
    for fr in reversed(tb_entries):
        fn = os.path.abspath(fr.filename)
        if fn.startswith(pkgdir + os.sep):
            line = " ".join((fr.line or "").split())
            return "%s: %s" % (fr.name, line), os.path.relpath(fn, os.path.dirname(pkgdir))
    return None, None


def _classify(exc, pkgdir, ProbLogError):
    import traceback
    kind = type(exc).__name__
    if isinstance(exc, ProbLogError):
        return {"cls": "problog", "kind": kind}
    # a resource error anywhere in the cause/context chain is a resource outcome
    e, seen = exc, 0
    while e is not None and seen < 10:
        if isinstance(e, (RecursionError, MemoryError)):
            return {"cls": "resource", "kind": type(e).__name__}
        e = e.__cause__ or e.__context__
        seen += 1
    entries = traceback.extract_tb(exc.__traceback__)
    site, fn = _site(entries, pkgdir)
    msg = str(exc)[:200]
    if site is None:
        return {"cls": "harness", "kind": kind, "msg": msg,
                "tb": ["%s:%s %s" % (os.path.basename(f.filename), f.lineno, f.name) for f in entries[-6:]]}
    return {"cls": "crash", "kind": kind, "site": site, "file": fn, "msg": msg}


def worker_main(repo, tmpdir):
    import warnings
    pin = os.fdopen(os.dup(0), "r", encoding="utf-8")
    pout = os.fdopen(os.dup(1), "w", encoding="utf-8")
    dn_r = os.open(os.devnull, os.O_RDONLY)
    dn_w = os.open(os.devnull, os.O_WRONLY)
    os.dup2(dn_r, 0)
    os.dup2(dn_w, 1)
    os.dup2(dn_w, 2)
    sys.stdin = open(os.devnull, "r")
    sys.stdout = open(os.devnull, "w")
    sys.stderr = open(os.devnull, "w")
    warnings.simplefilter("ignore")
    try:
        import resource
        lim = 6 << 30
        resource.setrlimit(resource.RLIMIT_AS, (lim, lim))
    except Exception:
        pass
    os.chdir(tmpdir)
    sys.path.insert(0, repo)
    import logging
    logging.disable(logging.CRITICAL)
    import problog
    from problog.errors import ProbLogError
    from problog.program import PrologString
    from problog.tasks import probability as ptask
    pkgdir = os.path.dirname(os.path.abspath(problog.__file__))
    if not pkgdir.startswith(os.path.abspath(repo) + os.sep):
        pout.write(json.dumps({"fatal": "problog imported from %s, not from %s" % (pkgdir, repo)}) + "\n")
        pout.flush()
        return
    sys.setrecursionlimit(3000)  # problog/__init__ sets 10000; keep deep recursion from overflowing the C stack
    pout.write(json.dumps({"ready": pkgdir}) + "\n")
    pout.flush()
    n = 0
    for line in pin:
        job = json.loads(line)
        src, entry = job["src"], job.get("entry", "evaluate")
        n += 1
        t0 = time.time()
        try:
            if entry == "evaluate":
                r = problog.get_evaluatable().create_from(PrologString(src)).evaluate()
                out = {"cls": "result", "n": len(r)}
            else:
                fn = os.path.join(tmpdir, "prog_%d_%d.pl" % (os.getpid(), n))
                with open(fn, "w", encoding="utf-8") as f:
                    f.write(src)
                try:
                    # main_result = main() with a result handler that returns (success, result-or-exception) as is
                    ok, r = ptask.main_result([fn])
                finally:
                    os.unlink(fn)
                if ok:
                    out = {"cls": "result", "n": len(r)}
                elif isinstance(r, BaseException):
                    out = _classify(r, pkgdir, ProbLogError)
                else:
                    out = {"cls": "harness", "kind": "unexpected-return", "msg": repr(r)[:200]}
        except BaseException as e:  # noqa
            out = _classify(e, pkgdir, ProbLogError)
        out["id"] = job.get("id")
        out["t"] = round(time.time() - t0, 3)
        pout.write(json.dumps(out) + "\n")
        pout.flush()


# =========================================================================== parent side
class Worker:
    def __init__(self, repo, tmpdir):
        self.repo, self.tmpdir = repo, tmpdir
        self.proc = None
        self.buf = b""
        self.start()

    def start(self):
        env = dict(os.environ)
        env["PYTHONWARNINGS"] = "ignore"
        env["PYTHONHASHSEED"] = "0"
        env["PYTHONPATH"] = self.repo
        self.proc = subprocess.Popen([sys.executable, os.path.abspath(__file__), "--worker", self.repo, self.tmpdir],
                                     stdin=subprocess.PIPE, stdout=subprocess.PIPE, stderr=subprocess.DEVNULL,
                                     env=env, cwd=self.tmpdir)
        self.buf = b""
        self.ready = False

    def _readline(self, timeout):
        fd = self.proc.stdout.fileno()
        end = time.time() + timeout
        while b"\n" not in self.buf:
            left = end - time.time()
            if left <= 0:
                return "timeout"
            r, _, _ = select.select([fd], [], [], left)
            if not r:
                return "timeout"
            chunk = os.read(fd, 65536)
            if not chunk:
                return "eof"
            self.buf += chunk
        line, self.buf = self.buf.split(b"\n", 1)
        return json.loads(line.decode("utf-8"))

    def kill(self):
        try:
            self.proc.kill()
            self.proc.wait(timeout=10)
        except Exception:
            pass
        for f in (self.proc.stdin, self.proc.stdout):
            try:
                f.close()
            except Exception:
                pass

    def wait_ready(self):
        if self.ready:
            return
        r = self._readline(120)
        if not isinstance(r, dict) or "ready" not in r:
            self.kill()
            raise RuntimeError("C27 worker did not start: %r" % (r,))
        self.ready = True

    def call(self, job, timeout):
        self.wait_ready()
        try:
            self.proc.stdin.write((json.dumps(job) + "\n").encode("utf-8"))
            self.proc.stdin.flush()
        except (BrokenPipeError, OSError):
            self.kill()
            self.start()
            return {"cls": "died", "kind": "worker-died-before-case"}
        r = self._readline(timeout)
        if r == "timeout":
            self.kill()
            self.start()
            return {"cls": "timeout", "kind": "timeout"}
        if r == "eof":
            rc = self.proc.poll()
            self.kill()
            self.start()
            return {"cls": "died", "kind": "worker-died", "rc": rc}
        return r


class Pool:
    def __init__(self, n, repo, tmpdir, timeout):
        self.timeout = timeout
        self.workers = [Worker(repo, tmpdir) for _ in range(n)]
        self.idle = queue.Queue()
        for w in self.workers:
            self.idle.put(w)
        self.n = n
        self.calls = 0
        self.lock = threading.Lock()

    def run_one(self, job, timeout=None):
        w = self.idle.get()
        try:
            with self.lock:
                self.calls += 1
            return w.call(job, timeout or self.timeout)
        finally:
            self.idle.put(w)

    def run_many(self, jobs, timeout=None):
        from concurrent.futures import ThreadPoolExecutor
        with ThreadPoolExecutor(self.n) as ex:
            return list(ex.map(lambda j: self.run_one(j, timeout), jobs))

    def close(self):
        for w in self.workers:
            w.kill()


if __name__ == "__main__":
    if len(sys.argv) == 4 and sys.argv[1] == "--worker":
        worker_main(sys.argv[2], sys.argv[3])
