"""py2lean_ops — extract the operator table of problog/parser.py and emit lean/ProbLogModel/Generated/OpTable.lean.

What is read (with Python's `ast`, nothing is executed):
  * `prepare()`: the dispatch lists `_token_act1.._token_act4` (character -> `_token_*` method) and the
    `string_operators` dictionary;
  * `_token_action()`: the base character code of every dispatch list (33, 58, 91, 123 — read from the source);
  * every `_token_*` method reachable from the dispatch lists: each `return Token(...), pos + k` statement with the
    chain of `s[pos:pos+k] == "lit"` tests guarding it (source order = match order of the if/elif chain).
A `Token(...)` construction whose first argument is `s[pos]` takes the dispatch character as its string.

Anything the extractor does not recognise (a new spec string, a computed priority, a token method with a different
shape that constructs operators) is an `ExtractError` — the check then stops with an infrastructure error instead of
silently using a stale table.
"""
import ast
import os

SPECS = ("xfx", "xfy", "yfx", "fy", "fx")
SPECIALS = {
    "SPECIAL_PAREN_OPEN": "parenOpen", "SPECIAL_PAREN_CLOSE": "parenClose", "SPECIAL_END": "end_",
    "SPECIAL_COMMA": "comma", "SPECIAL_BRACK_OPEN": "brackOpen", "SPECIAL_BRACK_CLOSE": "brackClose",
    "SPECIAL_VARIABLE": "variable", "SPECIAL_FLOAT": "float", "SPECIAL_INTEGER": "integer", "SPECIAL_PIPE": "pipe",
    "SPECIAL_STRING": "string", "SPECIAL_ARGLIST": "arglist", "SPECIAL_SHARP_OPEN": "sharpOpen",
    "SPECIAL_SHARP_CLOSE": "sharpClose", "SPECIAL_HEX_INTEGER": "hexInteger",
}
BUILDERS = {"build_binop": "binop", "build_conjunction": "conjunction", "build_disjunction": "disjunction",
            "build_probabilistic": "probabilistic", "build_clause": "clause", "build_unop": "unop", "build_not": "not_",
            "build_directive": "directive"}
# token methods that are not table driven (scanners); they are modelled by hand in the reference lexer
SCANNERS = {"_token_dquot", "_token_squot", "_token_percent", "_token_lower", "_token_upper", "_token_number",
            "_token_underscore", "_token_notsupported", "_token_dot"}


class ExtractError(Exception):
    pass


def _builder(node):
    # self.factory.build_binop | self._build_clause
    if isinstance(node, ast.Attribute):
        return node.attr
    raise ExtractError("unrecognised builder expression: " + ast.dump(node))


def _opdef(node):
    if isinstance(node, ast.Constant) and node.value is None:
        return None
    if not (isinstance(node, ast.Tuple) and len(node.elts) == 3):
        raise ExtractError("operator definition is not a 3-tuple: " + ast.dump(node))
    prio, spec, b = node.elts
    if not (isinstance(prio, ast.Constant) and isinstance(prio.value, int)):
        raise ExtractError("computed priority")
    if not (isinstance(spec, ast.Constant) and spec.value in SPECS):
        raise ExtractError("unknown operator spec: " + ast.dump(spec))
    name = _builder(b).lstrip("_")
    if name not in BUILDERS:
        raise ExtractError("unknown builder " + name)
    return (prio.value, spec.value, BUILDERS[name])


def _bool(node, default):
    if node is None:
        return default
    if isinstance(node, ast.Constant) and isinstance(node.value, bool):
        return node.value
    raise ExtractError("non-constant boolean: " + ast.dump(node))


def _token_call(call, dispatch_char, lexeme):
    """Fields of one `Token(...)` construction."""
    if not (isinstance(call, ast.Call) and getattr(call.func, "id", None) == "Token"):
        raise ExtractError("not a Token(...) call: " + ast.dump(call))
    a0 = call.args[0]
    if isinstance(a0, ast.Constant) and isinstance(a0.value, str):
        string = a0.value
    elif isinstance(a0, ast.Subscript) and isinstance(a0.slice, ast.Name):  # s[pos]
        string = dispatch_char
    else:
        raise ExtractError("unrecognised token string: " + ast.dump(a0))
    kw = {k.arg: k.value for k in call.keywords}
    unknown = set(kw) - {"binop", "unop", "functor", "atom", "special"}
    if unknown:
        raise ExtractError("unknown Token keyword(s) %s" % sorted(unknown))
    special = None
    if "special" in kw:
        n = kw["special"]
        if not (isinstance(n, ast.Name) and n.id in SPECIALS):
            raise ExtractError("unknown special: " + ast.dump(n))
        special = SPECIALS[n.id]
    functor = False
    if "functor" in kw:
        f = kw["functor"]
        # self._next_paren_open(s, pos): looks at s[pos + 1] whatever the length of the lexeme
        if not (isinstance(f, ast.Call) and getattr(f.func, "attr", None) == "_next_paren_open"
                and isinstance(f.args[1], ast.Name) and f.args[1].id == "pos"):
            raise ExtractError("unrecognised functor expression: " + ast.dump(f))
        functor = True
    return {
        "lexeme": lexeme, "string": string, "atom": _bool(kw.get("atom"), True), "functor_test": functor,
        "binop": _opdef(kw["binop"]) if "binop" in kw else None,
        "unop": _opdef(kw["unop"]) if "unop" in kw else None,
        "special": special,
    }


def _lexeme_of_test(test):
    """`s[pos : pos + k] == "lit"` -> "lit"."""
    if (isinstance(test, ast.Compare) and len(test.ops) == 1 and isinstance(test.ops[0], ast.Eq)
            and isinstance(test.left, ast.Subscript) and isinstance(test.left.slice, ast.Slice)
            and isinstance(test.comparators[0], ast.Constant) and isinstance(test.comparators[0].value, str)):
        lit = test.comparators[0].value
        up = test.left.slice.upper
        k = up.right.value if isinstance(up, ast.BinOp) and isinstance(up.right, ast.Constant) else None
        if k != len(lit):
            raise ExtractError("slice length %s does not match literal %r" % (k, lit))
        return lit
    raise ExtractError("unrecognised lexeme test: " + ast.dump(test))


def _returns(body, dispatch_char, out, comment_lexemes):
    """Walk an if/elif/else chain of a table-driven `_token_*` method in source order."""
    for st in body:
        if isinstance(st, ast.If):
            lex = _lexeme_of_test(st.test)
            _branch(st.body, dispatch_char, lex, out, comment_lexemes)
            _returns(st.orelse, dispatch_char, out, comment_lexemes)
            return
        elif isinstance(st, (ast.ImportFrom, ast.Import)):
            continue
        elif isinstance(st, ast.Expr) and isinstance(st.value, ast.Call) and getattr(st.value.func, "id", "") == "warn":
            continue
        else:
            _branch(body, dispatch_char, dispatch_char, out, comment_lexemes)
            return


def _branch(body, dispatch_char, lexeme, out, comment_lexemes):
    for st in body:
        if isinstance(st, (ast.ImportFrom, ast.Import)):
            continue
        if isinstance(st, ast.Expr) and isinstance(st.value, ast.Call) and getattr(st.value.func, "id", "") == "warn":
            continue
        if isinstance(st, ast.Raise):
            out.append({"lexeme": lexeme, "error": True})
            return
        if isinstance(st, ast.Return) and isinstance(st.value, ast.Tuple):
            first, second = st.value.elts
            if isinstance(first, ast.Constant) and first.value is None:  # comment skipper
                comment_lexemes.append(lexeme)
                out.append({"lexeme": lexeme, "comment": True})
                return
            tok = _token_call(first, dispatch_char, lexeme)
            k = second.right.value if isinstance(second, ast.BinOp) else None
            if k != len(lexeme):
                raise ExtractError("token %r advances %s characters" % (lexeme, k))
            out.append(tok)
            return
        raise ExtractError("unrecognised statement in token method: " + ast.dump(st)[:200])
    raise ExtractError("token method branch without return")


def extract(repo):
    path = os.path.join(repo, "problog", "parser.py")
    tree = ast.parse(open(path).read())
    cls = next(n for n in tree.body if isinstance(n, ast.ClassDef) and n.name == "PrologParser")
    methods = {n.name: n for n in cls.body if isinstance(n, ast.FunctionDef)}
    # dispatch lists and string operators
    acts, strops = {}, None
    for st in methods["prepare"].body:
        if isinstance(st, ast.Assign) and isinstance(st.targets[0], ast.Attribute):
            name = st.targets[0].attr
            if name.startswith("_token_act"):
                acts[name] = [e.attr for e in st.value.elts]
            elif name == "string_operators":
                strops = st.value
    if strops is None or len(acts) != 4:
        raise ExtractError("prepare(): dispatch lists / string_operators not found")
    # base codes from _token_action: `return self._token_actN[c - base]`
    bases = {}
    for n in ast.walk(methods["_token_action"]):
        if (isinstance(n, ast.Subscript) and isinstance(n.value, ast.Attribute) and n.value.attr.startswith("_token_act")
                and isinstance(n.slice, ast.BinOp) and isinstance(n.slice.op, ast.Sub)):
            bases[n.value.attr] = n.slice.right.value
    if set(bases) != set(acts):
        raise ExtractError("_token_action(): base codes not found")
    entries = []  # symbolic (table driven) tokens in match order, grouped by dispatch character
    scanners = {}
    comment_lexemes = []
    for name in sorted(acts):
        for i, m in enumerate(acts[name]):
            ch = chr(bases[name] + i)
            if m in SCANNERS:
                scanners[ch] = m
                continue
            if m not in methods:
                raise ExtractError("dispatch to unknown method " + m)
            out = []
            _returns(methods[m].body, ch, out, comment_lexemes)
            for e in out:
                e["dispatch"] = ch
                e["method"] = m
            entries.extend(out)
    sops = []
    for k, v in zip(strops.keys, strops.values):
        d = {kk.value: vv for kk, vv in zip(v.keys, v.values)}
        unknown = set(d) - {"binop", "unop", "atom"}
        if unknown:
            raise ExtractError("string operator %r: unknown keys %s" % (k.value, unknown))
        sops.append({"string": k.value, "binop": _opdef(d["binop"]) if "binop" in d else None,
                     "unop": _opdef(d["unop"]) if "unop" in d else None, "atom": _bool(d.get("atom"), True)})
    return {"entries": entries, "string_operators": sops, "scanners": scanners, "comment_lexemes": comment_lexemes}


def lq(s):
    return '"' + s.replace("\\", "\\\\").replace('"', '\\"') + '"'


def _lean_op(o):
    if o is None:
        return "none"
    return "some ⟨%d, .%s, .%s⟩" % (o[0], o[1], o[2])


def emit(table):
    L = []
    A = L.append
    A("/- GENERATED by harness/py2lean_ops from problog/parser.py — do not edit.")
    A("   Symbolic tokens in the match order of the `_token_*` if/elif chains, and `string_operators`. -/")
    A("import ProbLogModel.ParserTypes")
    A("namespace ProbLogModel.Generated")
    A("open ProbLogModel.Parser")
    A("")
    A("/-- (lexeme, token string, atom, functor test present, binop, unop, special); `error`/`comment` rows have no token. -/")
    A("def symTable : List SymEntry := [")
    rows = []
    for e in table["entries"]:
        if e.get("error"):
            rows.append("  .error %s" % lq(e["lexeme"]))
        elif e.get("comment"):
            rows.append("  .comment %s" % lq(e["lexeme"]))
        else:
            rows.append("  .tok %s ⟨%s, %s, %s, %s, %s, %s, false⟩ %s" % (
                lq(e["lexeme"]), lq(e["string"]), "true" if e["atom"] else "false", "false",
                _lean_op(e["binop"]), _lean_op(e["unop"]),
                ("some .%s" % e["special"]) if e["special"] else "none",
                "true" if e["functor_test"] else "false"))
    A(",\n".join(rows))
    A("]")
    A("")
    A("/-- `string_operators` of `prepare()`: (word, atom, binop, unop). -/")
    A("def wordTable : List (String × Bool × Option OpDef × Option OpDef) := [")
    A(",\n".join("  (%s, %s, %s, %s)" % (lq(s["string"]), "true" if s["atom"] else "false", _lean_op(s["binop"]),
                                         _lean_op(s["unop"])) for s in table["string_operators"]))
    A("]")
    A("")
    A("end ProbLogModel.Generated")
    return "\n".join(L) + "\n"


def regenerate(repo, lean_dir):
    """Write Generated/OpTable.lean if its content changed; returns (table, changed)."""
    table = extract(repo)
    text = emit(table)
    path = os.path.join(lean_dir, "ProbLogModel", "Generated", "OpTable.lean")
    os.makedirs(os.path.dirname(path), exist_ok=True)
    old = open(path).read() if os.path.exists(path) else None
    if old != text:
        tmp = path + ".tmp%d" % os.getpid()
        open(tmp, "w").write(text)
        os.replace(tmp, path)
        return table, True
    return table, False
