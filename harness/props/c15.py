"""C15 — term comparison and sort/2 follow the standard order of terms.

Tie: hand-written Lean model of struct_cmp / StructSort / _builtin_sort / _builtin_compare / the six operators
(lean/ProbLogModel/Order.lean, with repo_patches/C15_number_order + C15_atom_quotes applied) run next to the real
functions on bounded-exhaustive pairs and random lists (exact correspondence).
Search oracle (independent of the Lean model): a Python implementation of the standard order (order_util.std_cmp),
compared with the real functions directly and through ProbLog programs (sort/2, compare/3, @<, ==, …)."""
import itertools
import json

from lib import Infra
from order_util import (V, I, F, S, A, lst, size, to_problog, from_problog, to_sexp, to_src, show, std_cmp, same_term,
                        std_sort, norm, text, has_negform, has_redundant_quotes, run_program)

MODULE = "ProbLogProofs.Properties.C15"
P = "ProbLogProofs.C15."
THEOREMS = [P + n for n in [
    "C15_std_refl", "C15_std_antisymm", "C15_std_trans", "C15_std_total", "C15_std_compare_consistent",
    "C15_std_classes", "C15_std_numbers", "C15_std_compound",
    "C15_structCmp_eq_std",
    "C15_sort_mem", "C15_sort_nodup", "C15_sort_strictly_ascending",
    "C15_compare_ops", "C15_same", "C15_same_iff_std_eq", "C15_compare3_unbound", "C15_compare3_bound",
]]
REFUTATIONS = [P + "C15_structCmp_orig_refuted", P + "C15_negform_not_std"]

MANIFEST = {
    "level": "proof",
    "technique": "Lean 4 theorems about a hand-written model of struct_cmp/sort/compare (with the proposed fixes) + "
                 "exact correspondence model vs implementation on bounded-exhaustive term pairs and random lists + "
                 "independent Python oracle of the standard order against the real builtins, direct and through programs",
    "text": "Lean: stdCompare is a total order on terms (up to redundant quoting), with the class/number/atom/compound "
            "clauses of the standard; the patched struct_cmp equals it on every term without the legacy '-'(N) shape; "
            "sort/2's model returns the strictly ascending duplicate-free list of its input; @< @=< @> @>= == \\== and "
            "compare/3 decide it. Every run compares model and real functions on all ordered pairs of a seeded term "
            "universe (ints incl. multi-digit/negative/2^53+1, floats, quoted/unquoted atoms, strings, compounds, "
            "lists, variables), all triples for the order laws, random lists for sort/2, and runs the same questions "
            "through ProbLog programs.",
    "note": "Trusted: Lean kernel, standard axioms, harness/driver glue, the Python oracle. The model is hand-written and "
            "tied to the code on the inputs run. Float model: finite doubles as exact rationals (-0.0/inf/nan outside). "
            "Atom text = functor without its outer quotes (escape sequences inside quotes are not interpreted). Strings "
            "are placed between numbers and atoms as the code does (the property does not place them).",
    "design_ref": "DESIGN.md §6 C15",
}

WITNESSES = [
    {"case": "pair", "a": ["i", 10], "b": ["i", 9], "syms": []},                       # C15_structCmp_orig_refuted
    {"case": "pair", "a": ["a", "'hello world'"], "b": ["a", "abc"], "syms": []},
    {"case": "sort", "items": [["i", 10], ["i", 9], ["f", 2.0], ["i", 2], ["i", -3]]},  # DESIGN §9
    {"case": "pair", "a": ["i", 10 ** 17], "b": ["i", 10 ** 17 + 1], "syms": []},
    {"case": "pair", "a": ["i", 1], "b": ["i", 2], "syms": [["a", "<"]]},
    {"case": "pair", "a": ["s", "a b"], "b": ["s", "a"], "syms": []},
]
SYM = {-1: "<", 0: "=", 1: ">"}
ORD = {-1: "lt", 0: "eq", 1: "gt"}


def tup(x):
    return tuple(tup(y) for y in x) if isinstance(x, list) else x


# --------------------------------------------------------------------------- the term universe
INTS = [-12, -3, -1, 0, 1, 2, 9, 10, 11, 20, 99, 100, 120]
BIGINTS = [2 ** 53, 2 ** 53 + 1, 10 ** 17, 10 ** 17 + 1, -(10 ** 17) - 1]
FLOATS = [2.0, -3.0, 0.5, 9.5, 10.0, 100.0, -12.5, 2.5, 1e17, 120.0]
ATOMS = ["a", "b", "abc", "aB", "z", "ab", "[]", "foo_1"]
QATOMS = ["'hello world'", "'A'", "'Zed'", "'9lives'", "'b c'", "'_x'", "'a b'", "'B'"]
STRS = ["abc", "", "a b", "Zed", "10", "9", "a"]
FUN1 = ["f", "g", "'hello world'", "'F'"]
FUN2 = ["f", "h", "'-'", "'B c'", "'+'"]


def universe(rng, n_extra, n_comp):
    core = [V(-1000001), V(-1000002), I(-12), I(-3), I(0), I(2), I(9), I(10), I(100), I(120), I(10 ** 17), I(10 ** 17 + 1), F(1e17), F(2.0), F(-3.0), F(9.5), F(10.0),
            A("a"), A("abc"), A("b"), A("'hello world'"), A("'A'"), A("[]"), S("abc"), S(""), S("10")]
    pool = ([I(x) for x in INTS + BIGINTS] + [F(x) for x in FLOATS] + [A(x) for x in ATOMS + QATOMS] +
            [S(x) for x in STRS])
    leaves = list(core)
    for x in rng.sample(pool, len(pool)):
        if len(leaves) >= len(core) + n_extra:
            break
        if x not in leaves:
            leaves.append(x)
    sub = rng.sample(leaves, 6) + [I(10), I(9)]
    comps = []
    for x in sub:
        comps.append(A("f", x))
    for x in rng.sample(leaves, 3):
        comps.append(A(rng.choice(FUN1), x))
    sub2 = rng.sample(leaves, 4)
    for x in sub2:
        for y in sub2:
            comps.append(A("f", x, y))
    for _ in range(n_comp):
        r = rng.random()
        x, y, z = (rng.choice(leaves) for _ in range(3))
        if r < 0.2:
            comps.append(A(rng.choice(FUN2), x, y))
        elif r < 0.35:
            comps.append(lst([x, y]))
        elif r < 0.45:
            comps.append(lst([x]))
        elif r < 0.6:
            comps.append(A(rng.choice(FUN1), A(rng.choice(FUN1), x)))
        elif r < 0.75:
            comps.append(A(rng.choice(FUN2), A(rng.choice(FUN1), x), y))
        elif r < 0.85:
            comps.append(A("f", x, y, z))
        else:
            comps.append(A(rng.choice(FUN2), x, A(rng.choice(FUN1), y)))
    out = []
    for t in leaves + comps:
        if t not in out and not has_negform(t):
            out.append(t)
    return out


def special_universe(rng):
    """Terms outside the clean domain: the legacy negative-number shape and redundantly quoted atoms."""
    neg = [A("'-'", I(3)), A("'-'", I(10)), A("'-'", F(2.5)), A("f", A("'-'", I(3)))]
    red = [A("'abc'"), A("'a'"), A("'f'", I(1)), A("f", A("'abc'"))]
    base = [V(-1000001), I(-3), I(-10), I(2), F(-2.5), S("abc"), A("a"), A("abc"), A("z"), A("f", I(1)), A("f", I(-3)),
            A("f", A("abc")), A("'hello world'")]
    return neg, red, base


# --------------------------------------------------------------------------- the real functions
def guard(f):
    try:
        return f()
    except Infra:
        raise
    except Exception as e:
        n = type(e).__name__
        return n if n == "CallModeError" else "EXC:" + n


def bit(x):
    return "1" if x else "0"


def impl_cmp(a, b):
    from problog.engine_builtin import struct_cmp
    r = struct_cmp(to_problog(a), to_problog(b))
    return r


def impl_pair(a, b, syms):
    """All pairwise observables of the real code as protocol text (same format as the driver)."""
    import problog.engine_builtin as eb
    pa, pb = to_problog(a), to_problog(b)
    out = []
    out.append(guard(lambda: ORD[eb.struct_cmp(pa, pb)]))
    out.append(guard(lambda: " ".join(bit(f(pa, pb)) for f in (
        eb._builtin_struct_lt, eb._builtin_struct_le, eb._builtin_struct_gt, eb._builtin_struct_ge,
        eb._builtin_same, eb._builtin_notsame))))

    def cmp3(c):
        r = eb._builtin_compare(c, pa, pb)
        if not r:
            return "fail"
        return "ok " + to_sexp(from_problog(r[0][0]))
    out.append(guard(lambda: cmp3(-99)))
    for s in syms:
        out.append(guard(lambda: cmp3(to_problog(s))))
    return out


def model_lines(a, b, syms):
    sa, sb = to_sexp(a), to_sexp(b)
    return (["cmp %s %s" % (sa, sb), "ops %s %s" % (sa, sb), "compare (v -99) %s %s" % (sa, sb)] +
            ["compare %s %s %s" % (to_sexp(s), sa, sb) for s in syms])


def expect_pair(a, b, syms, negnum=False, raw=False):
    """What the standard order demands, as predicates over the observables."""
    c = std_cmp(a, b, negnum)
    same = same_term(a, b, raw)
    exp = [ORD[c], " ".join(bit(x) for x in (c < 0, c <= 0, c > 0, c >= 0, same, not same)), ("sym", SYM[c])]
    for s in syms:
        if s[0] == 'a' and len(s) == 2 and text(s[1]) in ("<", "=", ">"):
            exp.append("ok " + to_sexp(s) if text(s[1]) == SYM[c] else "fail")
        elif s[0] == 'v':
            exp.append(("sym", SYM[c]))
        else:
            exp.append("CallModeError")
    return exp


def obs_ok(obs, exp):
    if isinstance(exp, tuple):  # compare/3 with unbound order: any spelling of the symbol
        if not obs.startswith("ok (a "):
            return False
        try:
            f = json.loads(obs[len("ok (a "):-1])
        except ValueError:
            return False
        return text(f) == exp[1]
    return obs == exp


def pair_problems(a, b, syms, obs):
    """[] if the real code meets the standard on this pair, else [(index, observed, expected, cause)]."""
    names = ["struct_cmp", "@< @=< @> @>= == \\==", "compare(O,A,B)"] + ["compare(%s,A,B)" % show(s) for s in syms]
    exp = expect_pair(a, b, syms)
    bad = [i for i in range(len(exp)) if not obs_ok(obs[i], exp[i])]
    if not bad:
        return []
    neg = has_negform(a) or has_negform(b)
    red = has_redundant_quotes(a) or has_redundant_quotes(b)
    e2, vname = None, None
    if neg and not red:
        e2, vname = expect_pair(a, b, syms, negnum=True), "negform-as-number"
    elif red and not neg:
        e2, vname = expect_pair(a, b, syms, raw=True), "redundant-quotes-distinct"
    out = []
    for i in bad:
        cause = vname if (e2 is not None and obs_ok(obs[i], e2[i])) else "other"
        out.append((names[i], obs[i], exp[i][1] if isinstance(exp[i], tuple) else exp[i], cause))
    return out


def shrink_term_candidates(t):
    if t[0] == 'a' and len(t) > 2:
        for x in t[2:]:
            yield x
        for i in range(2, len(t)):
            for y in shrink_term_candidates(t[i]):
                yield t[:i] + (y,) + t[i + 1:]
        yield A("a")
    elif t[0] == 'i' and abs(t[1]) > 20:
        yield I(10 if t[1] > 0 else -10)


def shrink_pair(a, b, pred):
    changed = True
    while changed:
        changed = False
        for x in shrink_term_candidates(a):
            if size(x) <= size(a) and x != a and pred(x, b):
                a, changed = x, True
                break
        for y in shrink_term_candidates(b):
            if size(y) <= size(b) and y != b and pred(a, y):
                b, changed = y, True
                break
    return a, b


# --------------------------------------------------------------------------- sort/2
def impl_sort(items):
    import problog.engine_builtin as eb
    l = eb.build_list([to_problog(x) for x in items], to_problog(A("[]")))
    r = eb._builtin_sort(l, None)
    if not r:
        return None
    els, tail = eb.list_elements(r[0][1])
    return [from_problog(x) for x in els]


def sort_problem(items, res):
    """None if `res` is what sort/2 must return for `items`; else (description, cause)."""
    def check(negnum, raw):
        if res is None or isinstance(res, str):
            return "no result (%s)" % (res,)
        key = (lambda t: t) if raw else norm
        want = set(key(x) for x in items)
        if set(key(x) for x in res) != want:
            return "elements differ"
        if len(res) != len(want):
            return "duplicates in the result"
        for x, y in zip(res, res[1:]):
            c = std_cmp(x, y, negnum)
            if c > 0 or (c == 0 and not (negnum or raw)):
                return "%s is placed before %s" % (show(x), show(y))
        return None
    p = check(False, False)
    if p is None:
        return None
    neg = any(has_negform(x) for x in items)
    red = any(has_redundant_quotes(x) for x in items)
    cause = "other"
    if neg and not red and check(True, False) is None:
        cause = "negform-as-number"
    elif red and not neg and check(False, True) is None:
        cause = "redundant-quotes-distinct"
    return p, cause


def shrink_list(items, pred):
    cur = list(items)
    changed = True
    while changed:
        changed = False
        i = len(cur) - 1
        while i >= 0:
            cand = cur[:i] + cur[i + 1:]
            if pred(cand):
                cur, changed = cand, True
            i -= 1
    return cur


# --------------------------------------------------------------------------- through ProbLog programs
def vars_of(t):
    return [s[1] for s in __import__("order_util").subterms(t) if s[0] == 'v']


def engine_batch(cases):
    """cases: list of ('cmp'|'op'|'sort'|'cmpsym', ...). One program, one query per case. Returns list of results."""
    lines = []
    for k, c in enumerate(cases):
        vn = {}
        if c[0] == 'cmp':
            lines.append("t%d(O) :- compare(O, %s, %s).\nquery(t%d(_))." % (k, to_src(c[1], vn), to_src(c[2], vn), k))
        elif c[0] == 'cmpsym':
            lines.append("t%d :- compare(%s, %s, %s).\nquery(t%d)." % (k, c[3], to_src(c[1], vn), to_src(c[2], vn), k))
        elif c[0] == 'op':
            lines.append("t%d :- %s %s %s.\nquery(t%d)." % (k, to_src(c[1], vn), c[3], to_src(c[2], vn), k))
        elif c[0] == 'sort':
            lines.append("t%d(L) :- sort(%s, L).\nquery(t%d(_))." % (k, to_src(lst(c[1]), vn), k))
        elif c[0] == 'sortchk':
            lines.append("t%d :- sort(%s, %s).\nquery(t%d)." % (k, to_src(lst(c[1]), vn), to_src(lst(c[2]), vn), k))
    src = "\n".join(lines)
    try:
        res = run_program(src)
    except Exception as e:
        return None, "EXC:%s: %s" % (type(e).__name__, str(e)[:200]), src
    out = [None] * len(cases)
    for name, p in res.items():
        k = int(str(name.functor)[1:])
        c = cases[k]
        if c[0] in ('cmp', 'sort'):
            if p > 0.5:
                if out[k] is not None:
                    out[k] = "several answers"
                else:
                    out[k] = from_problog(name.args[0])
            elif out[k] is None:
                out[k] = "no answer"
        else:
            out[k] = p > 0.5
    return out, None, src


# --------------------------------------------------------------------------- the check
def run(ctx):
    ctx.rule = ("a case = one ordered pair of terms with all pairwise observables (struct_cmp, six operators, compare/3 "
                "unbound and with 2 order arguments), one triple for the order laws, one list for sort/2, or one "
                "question put through a ProbLog program; distinct = distinct inputs; non-trivial = at least one "
                "non-variable term / list of length >= 2")
    ctx.proof_phase(MODULE, THEOREMS, refutations=REFUTATIONS)
    drv = ctx.driver("Drivers.C15")
    ctx.assumptions.append("floats are finite and not -0.0; atom names contain no escape sequences or inner quotes")
    if ctx.replay_in:
        return replay(ctx, drv)

    rng = ctx.sub_rng("universe")
    U = universe(rng, ctx.budget(16, 24), ctx.budget(60, 110))
    neg, red, base = special_universe(rng)
    ctx.sample({"universe_size": len(U), "first": [show(t) for t in U[:40:3]]})
    ALLSYMS = [A("<"), A("'<'"), A("="), A("'='"), A(">"), A("'>'"), A("a"), I(1), A("'=<'"), V(-7)]

    fails = {}          # cause/kind -> first (what, replay, sig)
    nfail = [0]
    first_diff = []

    def report(kind, what, replay_obj, op, cause, witness=False):
        nfail[0] += 1
        opc = "compare(bound,A,B)" if (kind == "pair" and op.startswith("compare(") and op != "compare(O,A,B)") else op
        if witness:
            key = (-1, kind, json.dumps(replay_obj), cause)
        elif kind == "pair":
            key = (0 if op == "struct_cmp" else 1, kind, opc, cause)
        else:
            key = ({"sort": 2, "law": 3, "engine": 4}[kind], kind, "", cause)
        if key not in fails:
            fails[key] = (what, replay_obj, {"kind": kind, "op": opc, "cause": cause})

    # ---- 0. the witnesses of the Lean refutation theorems / DESIGN §9, replayed on the real code
    for w in WITNESSES:
        ctx.case(("witness", json.dumps(w)))
        ctx.count("witness")
        r = case_fails(w)
        if r:
            report(r[1]["kind"], r[0], w, r[1]["op"], r[1]["cause"], witness=True)

    # ---- 1. pairs: exhaustive over U x U (clean domain) and special x (special + base)
    srng = ctx.sub_rng("syms")
    pairs = [(a, b) for a in U for b in U]
    spec = neg + red
    pairs += [(a, b) for a in neg for b in neg + base] + [(b, a) for a in neg for b in base]
    pairs += [(a, b) for a in red for b in red + base] + [(b, a) for a in red for b in base]
    table = {}
    lines, metas = [], []
    for a, b in pairs:
        syms = [srng.choice(ALLSYMS[:6]), srng.choice(ALLSYMS)]
        obs = impl_pair(a, b, syms)
        table[(a, b)] = obs[0]
        probs = pair_problems(a, b, syms, obs)
        clean = not (a in spec or b in spec or has_negform(a) or has_redundant_quotes(a) or has_negform(b)
                     or has_redundant_quotes(b))
        ctx.case(("pair", to_sexp(a), to_sexp(b)), nontrivial=not (a[0] == 'v' and b[0] == 'v'))
        ctx.count("pair %s/%s%s" % (kind_of(a), kind_of(b), "" if clean else " (special)"))
        for name, o, e, cause in probs:
            report("pair", "%s on (%s, %s): real code gives %s, the standard order %s" % (name, show(a), show(b), o, e),
                   {"case": "pair", "a": a, "b": b, "syms": syms, "op": name}, name, cause)
        ml = model_lines(a, b, syms)
        lines += ml
        metas.append((a, b, syms, obs))
    if drv is not None:
        mout = drv.run(lines)
        i = 0
        for a, b, syms, obs in metas:
            n = 3 + len(syms)
            m = mout[i:i + n]
            i += n
            if m != obs and not first_diff:
                k = next(j for j in range(n) if m[j] != obs[j])
                first_diff.append("pair (%s, %s) observable #%d: model %s, implementation %s" % (
                    show(a), show(b), k, m[k], obs[k]))

    # ---- 2. order laws on the table of the real struct_cmp (all triples of the clean universe)
    val = {"lt": -1, "eq": 0, "gt": 1}
    UL = U[:ctx.budget(120, 200)]
    idx = range(len(UL))
    T = [[val.get(table[(a, b)], None) for b in UL] for a in UL]
    law_bad = None
    for i in idx:
        if T[i][i] != 0:
            law_bad = law_bad or ("reflexivity", [UL[i]])
        for j in idx:
            if T[i][j] is None or T[j][i] is None or T[i][j] != -T[j][i]:
                law_bad = law_bad or ("antisymmetry/totality", [UL[i], UL[j]])
    ntr = 0
    for i in idx:
        Ti = T[i]
        for j in idx:
            if Ti[j] is None or Ti[j] > 0:
                continue
            Tj = T[j]
            for k in idx:
                if Tj[k] is not None and Tj[k] <= 0:
                    ntr += 1
                    if Ti[k] is None or Ti[k] > 0 or (Ti[k] == 0 and (Ti[j] < 0 or Tj[k] < 0)):
                        law_bad = law_bad or ("transitivity", [UL[i], UL[j], UL[k]])
    ctx.case(n=len(UL) ** 3)
    ctx.count("triples (laws on the real struct_cmp)", len(UL) ** 3)
    if law_bad:
        report("law", "%s of struct_cmp fails on %s" % (law_bad[0], ", ".join(show(t) for t in law_bad[1])),
               {"case": "law", "law": law_bad[0], "terms": law_bad[1]}, law_bad[0], "other")

    # ---- 3. sort/2 on random lists (direct)
    lrng = ctx.sub_rng("lists")
    nl = ctx.budget(1000, 8000)
    slines, smeta = [], []
    for n in range(nl):
        r = lrng.random()
        if r < 0.9:
            src_pool = U
        elif r < 0.95:
            src_pool = neg + base
        else:
            src_pool = red + base
        length = lrng.choice([0, 1, 2, 3, 4, 5, 6, 8, 12]) if n > 3 else n
        items = [lrng.choice(src_pool) for _ in range(length)]
        if lrng.random() < 0.3 and items:
            items += [lrng.choice(items) for _ in range(lrng.randrange(1, 4))]
            lrng.shuffle(items)
        if lrng.random() < 0.3:
            items = [I(lrng.randrange(-12, 121)) for _ in range(lrng.randrange(2, 10))] + items[:2]
        res = guard(lambda: impl_sort(items))
        ctx.case(("sort", [to_sexp(x) for x in items]), nontrivial=len(items) >= 2)
        ctx.count("sort list len %s%s" % (min(len(items), 9), "" if src_pool is U else " (special)"))
        p = sort_problem(items, res)
        if p:
            report("sort", "sort(%s, L) gives %s: %s" % (show(lst(items)), show_res(res), p[0]),
                   {"case": "sort", "items": items}, "sort/2", p[1])
        slines.append("sort (" + " ".join(to_sexp(x) for x in items) + ")")
        smeta.append((items, res))
    if drv is not None:
        sout = drv.run(slines)
        for (items, res), m in zip(smeta, sout):
            if isinstance(res, list):
                itxt = "(" + " ".join(to_sexp(x) for x in res) + ")"
                ties = any(impl_cmp(x, y) == 0 for x, y in zip(res, res[1:]))
                same = (sorted(split_top(itxt)) == sorted(split_top(m))) if ties else (itxt == m)
            else:
                itxt, same = str(res), False
            if not same and not first_diff:
                first_diff.append("sort %s: model %s, implementation %s" % (show(lst(items)), m, itxt))

    # ---- 4. the same questions through ProbLog programs
    erng = ctx.sub_rng("engine")
    ne = ctx.budget(1500, 10000)
    clean_pairs = [(a, b) for a in U for b in U
                   if not (vars_of(a) and vars_of(b) and a != b)]
    cases = []
    for _ in range(ne):
        a, b = erng.choice(clean_pairs)
        r = erng.random()
        if r < 0.4:
            cases.append(('cmp', a, b))
        elif r < 0.55:
            cases.append(('cmpsym', a, b, erng.choice(["<", "'<'", "=", "'='", ">", "'>'"])))
        else:
            op = erng.choice(["@<", "@=<", "@>", "@>=", "==", "\\=="])
            if op in ("==", "\\==") and ((a[0] == 'v' and b[0] == 'i') or (b[0] == 'v' and a[0] == 'i')):
                op = "@<"   # see the variable/integer identity case below
            cases.append(('op', a, b, op))
    ground = [t for t in U if not vars_of(t)]
    for _ in range(ctx.budget(300, 2000)):
        items = [erng.choice(ground) for _ in range(erng.choice([0, 1, 2, 3, 5, 8]))]
        if erng.random() < 0.4:
            items = [I(erng.randrange(-12, 121)) for _ in range(erng.randrange(2, 16))] + items[:2]
        cases.append(('sort', items))
    for _ in range(ctx.budget(30, 300)):
        items = [erng.choice(ground) for _ in range(erng.choice([1, 2, 3, 5]))]
        want = std_sort(items)
        other = list(want)
        if erng.random() < 0.5 and len(want) >= 2:
            other[0], other[-1] = other[-1], other[0]
        cases.append(('sortchk', items, other))
    B = 250
    for s in range(0, len(cases), B):
        batch = cases[s:s + B]
        out, err, src = engine_batch(batch)
        ctx.programs += 1
        if out is None:
            # find the culprit: rerun one by one
            for c in batch:
                o, e, src1 = engine_batch([c])
                if o is None:
                    report("engine", "program raises %s:\n%s" % (e, src1), {"case": "engine", "c": c}, c[0], "other")
                    break
            continue
        for c, o in zip(batch, out):
            engine_case(ctx, c, o, report)

    # ---- 5. error / mode cases through programs (one program each)
    for q, want in [("compare(a, 1, 2)", "CallModeError"), ("compare(1, 1, 2)", "CallModeError"),
                    ("sort(a, L)", "CallModeError"), ("sort([b,a|T], L)", "CallModeError")]:
        try:
            run_program("query(%s)." % q)
            got = "no error"
        except Exception as e:
            got = type(e).__name__
        ctx.case(("err", q))
        ctx.count("mode error through program")
        if got != want:
            report("engine", "query(%s): %s, expected %s" % (q, got, want), {"case": "errq", "q": q}, "mode", "other")
    # variables through the engine: X vs X is '=', a variable comes before everything else. (Which of two distinct
    # unbound variables comes first is not checked: the property quantifies over ground terms, and the engine renumbers
    # the unbound variables of every call, so compare(A,X,Y) and compare(B,Y,X) both report '>'.)
    vr = run_program("t2(A) :- compare(A,X,X).\nt3 :- X @< 1, X @< a, X @< f(X), X @< \"s\", X == X, \\+ X \\== X.\n"
                     "t4(L) :- sort([c,X,a,1,X],L).\nquery(t2(_)). query(t3). query(t4(_)).")
    got = sorted(str(k) for k, p in vr.items() if p > 0.5)
    ctx.case(("vars",))
    okv = (len(got) == 3 and got[0] == "t2('=')" and got[1] == "t3"
           and got[2].startswith("t4([X") and got[2].endswith(", 1, a, c])"))
    if not okv:
        report("engine", "variables through compare/sort: %s" % got, {"case": "vars"}, "vars", "other")

    # an unbound variable is not identical to any integer (inside the engine variables are negative Python ints and
    # Constant.__eq__ compares str(): the first variable of a clause "is" -1)
    vq = run_program("t1 :- X == -1.\nt2 :- \\+ X \\== -1.\nt3(L) :- sort([X, -1, b], L).\nquery(t1). query(t2). query(t3(_)).")
    gotq = sorted(str(k) for k, p in vq.items() if p > 0.5)
    ctx.case(("var-int",))
    ctx.count("variable vs integer identity through program")
    if gotq != ["t3([X2, -1, b])"] and not (len(gotq) == 1 and gotq[0].startswith("t3([X") and gotq[0].endswith(", -1, b])")):
        report("engine", "X == -1 with X unbound / sort([X,-1,b],L): true answers %s (expected only t3([X,-1,b]))" % gotq,
               {"case": "varint"}, "==", "var-equals-own-number" if set(gotq) <= {"t1", "t2", "t3([X2, b])", "t3([X1, b])", "t3([X3, b])"} else "other")

    # ---- verdict
    ctx.extra["failing_cases_total"] = nfail[0]
    for key in sorted(fails):
        what, rep, sig = fails[key]
        if sig["cause"] == "other":
            small = shrink_replay(rep)
            if small != rep:
                rep, what = small, (describe(small) or what)
        ctx.fail(what, rep, sig)
    if first_diff:
        ctx.disagree("Order model vs problog.engine_builtin", first_diff[0])
    ctx.obligation("correspondence: model = implementation on %d pairs and %d lists" % (len(pairs), nl),
                   not first_diff and drv is not None, first_diff[0] if first_diff else "")
    return ctx.finish("proof")


def split_top(s):
    """Top-level elements of a rendered list `(e1 e2 …)`."""
    out, depth, cur, instr, i = [], 0, "", False, 1
    body = s[1:-1]
    i = 0
    while i < len(body):
        ch = body[i]
        if instr:
            cur += ch
            if ch == "\\":
                cur += body[i + 1]
                i += 1
            elif ch == '"':
                instr = False
        elif ch == '"':
            instr = True
            cur += ch
        elif ch == "(":
            depth += 1
            cur += ch
        elif ch == ")":
            depth -= 1
            cur += ch
            if depth == 0:
                out.append(cur.strip())
                cur = ""
        else:
            cur += ch
        i += 1
    return out


def kind_of(t):
    return {'v': 'var', 'i': 'int', 'f': 'float', 's': 'str'}.get(t[0]) or ('atom' if len(t) == 2 else 'compound')


def show_res(res):
    return show(lst(res)) if isinstance(res, list) else str(res)


def engine_case(ctx, c, o, report):
    ctx.case(("eng",) + tuple(json.dumps(x, default=str) for x in c), nontrivial=True)
    ctx.count("program " + c[0] + (" " + c[3] if c[0] == 'op' else ""))
    if c[0] == 'cmp':
        want = SYM[std_cmp(c[1], c[2])]
        ok = isinstance(o, tuple) and o[0] == 'a' and len(o) == 2 and text(o[1]) == want
        if not ok:
            report("engine", "compare(O, %s, %s) through a program gives O = %s, standard order %s" % (
                show(c[1]), show(c[2]), show(o) if isinstance(o, tuple) else o, want), {"case": "engine", "c": c}, "compare/3", "other")
    elif c[0] == 'cmpsym':
        want = text(c[3]) == SYM[std_cmp(c[1], c[2])]
        if o is not want:
            report("engine", "compare(%s, %s, %s) through a program is %s, expected %s" % (
                c[3], show(c[1]), show(c[2]), o, want), {"case": "engine", "c": c}, "compare/3", "other")
    elif c[0] == 'op':
        r = std_cmp(c[1], c[2])
        same = same_term(c[1], c[2])
        want = {"@<": r < 0, "@=<": r <= 0, "@>": r > 0, "@>=": r >= 0, "==": same, "\\==": not same}[c[3]]
        if o is not want:
            report("engine", "%s %s %s through a program is %s, expected %s" % (show(c[1]), c[3], show(c[2]), o, want),
                   {"case": "engine", "c": c}, c[3], "other")
    elif c[0] == 'sort':
        res = list_of(o)
        p = sort_problem(c[1], res)
        if p:
            report("engine", "sort(%s, L) through a program gives %s: %s" % (show(lst(c[1])), show_res(res), p[0]),
                   {"case": "engine", "c": c}, "sort/2", p[1])
    elif c[0] == 'sortchk':
        want = all(same_term(x, y) for x, y in zip(std_sort(c[1]), c[2])) and len(std_sort(c[1])) == len(c[2])
        if o is not want:
            report("engine", "sort(%s, %s) through a program is %s, expected %s" % (
                show(lst(c[1])), show(lst(c[2])), o, want), {"case": "engine", "c": c}, "sort/2", "other")


def list_of(t):
    if not isinstance(t, tuple):
        return t
    out = []
    while t[0] == 'a' and t[1] == '.' and len(t) == 4:
        out.append(t[2])
        t = t[3]
    return out if t == ('a', '[]') else "not a list"


# --------------------------------------------------------------------------- replay / shrinking
def case_fails(rep):
    """Re-run one replay case against the real code; returns (what, sig) or None."""
    k = rep["case"]
    if k == "pair":
        a, b, syms = tup(rep["a"]), tup(rep["b"]), [tup(s) for s in rep.get("syms", [])]
        probs = pair_problems(a, b, syms, impl_pair(a, b, syms))
        if probs:
            want = rep.get("op")
            probs.sort(key=lambda p: (p[0] != want, p[3] != "other"))
            name, o, e, cause = probs[0]
            return ("%s on (%s, %s): real code gives %s, the standard order %s" % (name, show(a), show(b), o, e),
                    {"kind": "pair", "op": name, "cause": cause})
    elif k == "sort":
        items = [tup(x) for x in rep["items"]]
        res = guard(lambda: impl_sort(items))
        p = sort_problem(items, res)
        if p:
            return ("sort(%s, L) gives %s: %s" % (show(lst(items)), show_res(res), p[0]),
                    {"kind": "sort", "op": "sort/2", "cause": p[1]})
    elif k == "law":
        ts = [tup(x) for x in rep["terms"]]
        c = [[impl_cmp(x, y) for y in ts] for x in ts]
        bad = any(c[i][i] != 0 for i in range(len(ts))) or any(c[i][j] != -c[j][i] for i in range(len(ts)) for j in range(len(ts)))
        if len(ts) == 3 and c[0][1] <= 0 and c[1][2] <= 0 and (c[0][2] > 0 or (c[0][2] == 0 and (c[0][1] < 0 or c[1][2] < 0))):
            bad = True
        if bad:
            return ("%s of struct_cmp fails on %s" % (rep["law"], ", ".join(show(t) for t in ts)),
                    {"kind": "law", "op": rep["law"], "cause": "other"})
    elif k == "engine":
        c = rep["c"]
        if c[0] == 'sort':
            c = ('sort', [tup(x) for x in c[1]])
        elif c[0] == 'sortchk':
            c = ('sortchk', [tup(x) for x in c[1]], [tup(x) for x in c[2]])
        else:
            c = (c[0], tup(c[1]), tup(c[2])) + tuple(c[3:])
        out, err, src = engine_batch([c])
        if out is None:
            return ("program raises %s" % err, {"kind": "engine", "op": c[0], "cause": "other"})
        got = []
        engine_case(_Null(), c, out[0], lambda kind, what, r, op, cause: got.append((what, {"kind": kind, "op": op, "cause": cause})))
        if got:
            return got[0]
    elif k == "varint":
        vq = run_program("t1 :- X == -1.\nquery(t1).")
        if any(p > 0.5 for p in vq.values()):
            return ("X == -1 succeeds with X unbound", {"kind": "engine", "op": "==", "cause": "var-equals-own-number"})
    elif k == "errq":
        try:
            run_program("query(%s)." % rep["q"])
        except Exception as e:
            if type(e).__name__ == "CallModeError":
                return None
        return ("query(%s) does not raise CallModeError" % rep["q"], {"kind": "engine", "op": "mode", "cause": "other"})
    return None


class _Null:
    programs = 0

    def case(self, *a, **k):
        pass

    def count(self, *a, **k):
        pass


def shrink_replay(rep):
    try:
        if rep["case"] == "pair":
            syms = rep["syms"]
            a, b = shrink_pair(tup(rep["a"]), tup(rep["b"]),
                               lambda x, y: (case_fails({"case": "pair", "a": x, "b": y, "syms": syms, "op": rep.get("op")})
                                             or (0, {"cause": ""}))[1]["cause"] == "other")
            return {"case": "pair", "a": a, "b": b, "syms": syms, "op": rep.get("op")}
        if rep["case"] == "sort":
            items = shrink_list([tup(x) for x in rep["items"]], lambda l: case_fails({"case": "sort", "items": l}) is not None)
            return {"case": "sort", "items": items}
        if rep["case"] == "engine" and rep["c"][0] == "sort":
            items = shrink_list(list(rep["c"][1]), lambda l: case_fails({"case": "engine", "c": ("sort", l)}) is not None)
            return {"case": "engine", "c": ("sort", items)}
    except Infra:
        raise
    except Exception:
        pass
    return rep


def describe(rep):
    r = case_fails(rep)
    return r[0] if r else None


def replay(ctx, drv):
    rep = json.load(open(ctx.replay_in))["replay"]
    ctx.case(json.dumps(rep, default=str))
    ctx.sample(rep)
    r = case_fails(rep)
    if r:
        ctx.fail(r[0], rep, r[1])
    ctx.obligation("replayed case evaluated", True)
    return ctx.finish("proof")
