"""C21 — DT-ProbLog and MAP return optimal strategies.

Tie: the Lean model (lean/ProbLogModel/Tasks/DT.lean) of `search_exhaustive` / `search_local` / `num2bits` /
`evaluate` / map.py's utilities is a function of a utility oracle; the harness tabulates the real
`evaluate(formula, strategy, utilities)` for all 2^n strategies of generated decision programs, sends the table to
the compiled model and compares chosen strategy, score (exact: floats are rationals) and evaluation count with the
real searches.  Search oracle (independent of the Lean model): brute-force expected utility by possible-world
enumeration (harness/tasks_util.py) against the real task's output."""
import itertools
import json
import os
import random
import tempfile
from fractions import Fraction as F

import lib
import tasks_util as tu

MODULE = "ProbLogProofs.Properties.C21"
THEOREMS = [
    "ProbLogProofs.C21.C21_exhaustive_opt",
    "ProbLogProofs.C21.C21_exhaustive_no_decisions",
    "ProbLogProofs.C21.C21_local_terminates",
    "ProbLogProofs.C21.C21_local_opt",
    "ProbLogProofs.C21.C21_local_constraints",
    "ProbLogProofs.C21.C21_score_is_eu",
    "ProbLogProofs.C21.C21_score_is_eu_search",
    "ProbLogProofs.C21.C21_map_objective",
    "ProbLogProofs.C21.C21_map_exhaustive",
]
REFUTATIONS = [
    "ProbLogProofs.C21.C21_score_is_eu_unpatched_refuted",
    "ProbLogProofs.C21.C21_map_not_joint_refuted",
]

MANIFEST = {
    "level": "proof",
    "technique": "Lean 4 theorems about a hand-written model of dtproblog.py's searches (functions of a utility oracle) "
                 "and of evaluate/map.py's utility construction + correspondence of model and implementation on the "
                 "tabulated real utility function + brute-force expected-utility oracle",
    "text": "Lean theorems (all n, all utility oracles, all constraint filters): exhaustive search returns an admissible "
            "strategy of maximal utility with that utility as score; local search terminates and returns a strategy no "
            "single flip improves; evaluate = sum of P(lit)*utility; map.py's objective in closed form. Every run "
            "tabulates the real evaluate() on all 2^n strategies of generated decision programs and compares strategy, "
            "score and evaluation count of the real searches with the compiled model; expected utilities and optima "
            "are compared with brute-force world enumeration.",
    "note": "Trusted: Lean kernel, standard axioms, harness and driver glue. The model is hand-written and tied to the code "
            "on the generated programs only. Float rounding of the real evaluate() is outside the model (the table of "
            "real floats is the oracle; brute-force comparison uses tolerance 1e-9). Decision-AD constraints enter "
            "the model as an arbitrary admissibility predicate tabulated from the real Constraint.check.",
    "design_ref": "DESIGN.md §6 C21",
}

TOL = 1e-9
SKIP_EXC = ("NegativeCycle", "AssertionError", "UnknownClause", "IndirectCallCycleError", "InvalidEngineState")


def _bits(xs):
    return "(" + " ".join("1" if x else "0" for x in xs) + ")"


def _rats(xs):
    return "(" + " ".join(lib.rat(x) for x in xs) + ")"


def _name(k):
    """dtproblog.main renames `choice(_, _, head)` keys to the head (dtproblog.py:59-63)."""
    return str(k.args[2]) if getattr(k, "functor", None) == "choice" else str(k)


def both_polarities(P):
    s = set((pos, at) for pos, at, _ in P["utilities"])
    return any((not pos, at) in s for pos, at in s)


# ---------------------------------------------------------------------------------------------------- one DT case
def dt_case(P, want_lines=True):
    """Run the real DT pipeline and the brute-force oracle on one generated program.

    Returns dict(skip=…, fails=[(what, sig)], lines=[(line, expected, label)], glue=[…], info=…)."""
    from problog.program import PrologString
    from problog.tasks import dtproblog as dt
    from problog.engine import DefaultEngine
    from problog.logic import Term, Not
    from problog import get_evaluatable
    from problog.errors import ProbLogError

    out = dict(skip=None, fails=[], lines=[], glue=[], info={})
    src = tu.to_src(P)
    ref = tu.eu_table(P)
    if ref is None:
        out["skip"] = "oracle-too-big"
        return out
    rdec, table, decads = ref
    ridx = {c: k for k, (c, a) in enumerate(rdec)}
    rname = {tu.atom_s(a): k for k, (c, a) in enumerate(rdec)}
    declared = set(tu.atom_s(a) for c, a in tu.reference(P)[2])
    adm_ref = [b for b in table if all(sum(b[ridx[c]] for c in g) == 1 for g in decads)]
    best = max(table[b] for b in adm_ref) if adm_ref else None

    def close(x, y):
        return abs(float(x) - float(y)) <= TOL * max(1.0, abs(float(y)))

    def fail(what, **sig):
        out["fails"].append((what, sig))

    # ---- the pieces of dtproblog() (dtproblog.py:92-116), needed to tabulate evaluate()
    try:
        eng = DefaultEngine(label_all=True)
        db = eng.prepare(PrologString(src))
        utilities = dict(eng.query(db, Term("utility", None, None)))
        gp = eng.ground_all(db, target=None, queries=utilities.keys())
    except Exception as e:
        if type(e).__name__ in SKIP_EXC:
            out["skip"] = "grounding:" + type(e).__name__
            return out
        raise
    decisions = []
    dnodes = set()
    for i, n, t in gp:
        if t == "atom" and n.probability == Term("?"):
            decisions.append((i, n.name))
            dnodes.add(i)
    constraints = [c for c in gp.constraints() if set(c.get_nodes()) & dnodes]
    n = len(decisions)
    names = [_name(k) for _, k in decisions]
    out["info"] = dict(n=n, constraints=len(constraints), names=names)
    alias = [x for x in names if x not in declared]

    def project(assign):
        """Completions (over the brute-force decisions) of a {name: value} assignment that are admissible."""
        return [b for b in adm_ref if all(b[rname[k]] == v for k, v in assign.items() if k in rname)]

    # ---- top level, exhaustive
    def top(search):
        try:
            return ("ok",) + tuple(dt.dtproblog(PrologString(src), search=search))
        except Exception as e:
            return ("exc", e)

    r_ex = top(None)
    r_lo = top("local")
    if r_ex[0] == "exc":
        e = r_ex[1]
        import traceback
        tb = traceback.extract_tb(e.__traceback__)
        site = next((f.name for f in reversed(tb) if "/problog/" in f.filename), "?")
        if type(e).__name__ in SKIP_EXC:
            out["skip"] = "grounding:" + type(e).__name__
            return out
        fail("dtproblog raised %s: %s" % (type(e).__name__, str(e)[:80]), kind="exception", exc=type(e).__name__,
             site=site)
        return out
    _, ch, score, stats = r_ex
    if alias:
        fail("decision reported under the name of a derived atom: %s (declared decisions: %s)" % (
            alias, sorted(declared)), kind="alias-name")
    if best is None:
        if ch is not None:
            fail("strategy returned although no strategy is admissible", kind="inadmissible")
    elif ch is None:
        fail("no strategy returned, optimum is %s" % float(best), kind="no-strategy")
    else:
        got = {_name(k): v for k, v in ch.items()}
        comp = project(got)
        if n == 0:
            # no decision reached the ground program: the expected utility is a constant
            vals = set(table.values())
            if len(vals) == 1 and not close(score, best):
                fail("no decision atom in the ground program: score %r, constant expected utility %s" % (
                    score, float(best)), kind="no-decision-score", score_is_zero=(score == 0.0))
            elif len(vals) > 1:
                fail("decisions matter (EU ranges %s..%s) but none was found" % (
                    float(min(vals)), float(max(vals))), kind="decision-missing")
        else:
            bp = both_polarities(P)
            if not close(score, best):
                fail("exhaustive: score %r, optimum of brute-force expected utility %s" % (score, float(best)),
                     kind="exhaustive-score", both_polarities=bp)
            eus = set(table[b] for b in comp)
            if not comp:
                fail("exhaustive: returned strategy %s is not admissible" % got, kind="inadmissible")
            elif not alias and not any(close(x, best) for x in eus):
                fail("exhaustive: returned strategy %s has expected utility %s, optimum %s" % (
                    got, sorted(map(float, eus)), float(best)), kind="exhaustive-not-optimal", both_polarities=bp)
            elif not alias and len(eus) == 1 and not close(score, list(eus)[0]):
                fail("exhaustive: score %r is not the expected utility %s of the returned strategy" % (
                    score, float(list(eus)[0])), kind="score-not-eu", both_polarities=bp)
    # ---- top level, local
    if r_lo[0] == "exc":
        e = r_lo[1]
        if not (isinstance(e, ProbLogError) and constraints):
            fail("dtproblog(search=local) raised %s: %s" % (type(e).__name__, str(e)[:80]), kind="exception",
                 exc=type(e).__name__, site="local")
    elif n > 0 and not alias and not decads:
        _, chl, scl, stl = r_lo
        gotl = {_name(k): v for k, v in chl.items()}
        comp = project(gotl)
        eus = set(table[b] for b in comp)
        if len(eus) == 1:
            eu_s = list(eus)[0]
            if not close(scl, eu_s):
                fail("local: score %r is not the expected utility %s of the returned strategy %s" % (
                    scl, float(eu_s), gotl), kind="score-not-eu", both_polarities=both_polarities(P), search="local")
            b0 = comp[0]
            for k, v in gotl.items():
                if k in rname:
                    fb = list(b0)
                    fb[rname[k]] = 1 - fb[rname[k]]
                    if float(table[tuple(fb)]) > float(eu_s) + TOL * max(1.0, abs(float(eu_s))):
                        fail("local: flipping %s improves the expected utility %s -> %s" % (
                            k, float(eu_s), float(table[tuple(fb)])), kind="local-not-flip-optimal")
                        break
    if n == 0 or n > 8 or out["fails"] and any(s.get("kind") == "exception" for _, s in out["fails"]):
        return out
    # ---- tabulate the real evaluate() and run the real searches on the same objects
    knowledge = get_evaluatable(None).create_from(gp)
    dnames = [k for _, k in decisions]
    dids = [i for i, _ in decisions]
    tab = []
    adm = []
    for bits in itertools.product([0, 1], repeat=n):
        ok = all(c.check(dict(zip(dids, bits))) for c in constraints)
        adm.append(1 if ok else 0)
        # (an inadmissible strategy is never evaluated by the real search; with AD weights 1+1 evaluate() raises)
        tab.append(dt.evaluate(knowledge, dict(zip(dnames, bits)), utilities) if ok else 0.0)
    # spec: evaluate = brute-force expected utility (every strategy)
    if not alias:
        for bits, val, ok in zip(itertools.product([0, 1], repeat=n), tab, adm):
            if not ok:
                continue
            comp = [b for b in table if all(b[rname[k]] == v for k, v in zip(names, bits) if k in rname)]
            eus = set(table[b] for b in comp)
            if len(eus) == 1 and not close(val, list(eus)[0]):
                fail("evaluate(%s) = %r, brute-force expected utility %s" % (
                    dict(zip(names, bits)), val, float(list(eus)[0])), kind="evaluate-score",
                    both_polarities=both_polarities(P))
                break
    if not want_lines:
        return out
    # exhaustive
    rex = dt.search_exhaustive(knowledge, decisions, utilities, constraints)
    if rex[0] is None:
        exp = "none %d" % rex[2]["eval"]
    else:
        exp = "%s %s %d" % (_bits([rex[0][k] for k in dnames]), lib.rat(rex[1]), rex[2]["eval"])
    out["lines"].append(("ex %d %s %s" % (n, _bits(adm), _rats(tab)), exp, "search_exhaustive"))
    out["glue"].append(("dtproblog() = search_exhaustive on the same ground program",
                        ch is not None and rex[0] is not None and
                        {_name(k): v for k, v in ch.items()} == {_name(k): v for k, v in rex[0].items()}
                        and score == rex[1] and stats == rex[2] or (ch is None and rex[0] is None)))
    # local
    us = [float(utilities[k]) if k in utilities else 0.0 for k in dnames]
    ctrue = all(c.is_true() for c in constraints)
    try:
        rlo = dt.search_local(knowledge, decisions, utilities, constraints)
        exp = "%s %s %d" % (_bits([rlo[0][k] for k in dnames]), lib.rat(rlo[1]), rlo[2]["eval"])
    except ProbLogError:
        exp = "ProbLogError"
    out["lines"].append(("loc %s %d %s" % (_rats(us), 1 if ctrue else 0, _rats(tab)), exp, "search_local"))
    # evaluate: the sum over the real query probabilities
    ids = {}

    def lit(t):
        neg = isinstance(t, Not)
        a = str(t.child) if neg else str(t)
        k = ids.setdefault(a, len(ids) + 1)
        return -k if neg else k

    for bits in [b for b, ok in zip(itertools.product([0, 1], repeat=n), adm) if ok][:: max(1, (1 << n) // 3)]:
        seen = []
        orig = knowledge.evaluate

        def rec(*a, **k):
            seen.append(orig(*a, **k))
            return seen[-1]

        knowledge.evaluate = rec            # the `result` dictionary the real evaluate() iterates over
        try:
            val = dt.evaluate(knowledge, dict(zip(dnames, bits)), utilities)
        finally:
            del knowledge.evaluate
        res = seen[0]
        rl = "(" + " ".join("(%d %s)" % (lit(k), lib.rat(v)) for k, v in res.items()) + ")"
        ul = "(" + " ".join("(%d %s)" % (lit(k), lib.rat(float(v))) for k, v in utilities.items()) + ")"
        out["lines"].append(("eval %s %s" % (rl, ul), ("~", val), "evaluate"))
    return out


# ---------------------------------------------------------------------------------------------------- one MAP case
def map_case(P):
    from problog.tasks import map as mp
    out = dict(skip=None, fails=[], lines=[], glue=[], info={})
    ref = tu.map_tables(P)
    if ref is None or ref == "inconsistent":
        out["skip"] = "oracle-too-big" if ref is None else "inconsistent-evidence"
        return out
    marg, joint = ref
    qs = [tu.atom_s(q) for q in P["queries"]]
    src = tu.to_src(P)
    fd, path = tempfile.mkstemp(suffix=".pl", prefix="c21map")
    os.write(fd, src.encode())
    os.close(fd)
    try:
        results = {}
        for search in ("exhaustive", "local"):
            results[search] = mp.main([path, "-s", search], result_handler=lambda *a, **k: None)
    finally:
        os.unlink(path)

    def fail(what, **sig):
        out["fails"].append((what, sig))

    def close(x, y):
        return abs(float(x) - float(y)) <= TOL * max(1.0, abs(float(y)))

    obj = {b: sum((marg[i] if b[i] else 1 - marg[i]) for i in range(len(qs))) for b in joint}
    ok, res = results["exhaustive"]
    if not ok:
        if type(res).__name__ in SKIP_EXC:
            out["skip"] = "grounding:" + type(res).__name__
            return out
        fail("map raised %s: %s" % (type(res).__name__, str(res)[:80]), kind="exception", exc=type(res).__name__,
             site="map")
        return out
    ch, score, stats = res
    if ch is None:
        fail("map returned no assignment (score %r)" % (score,), kind="no-strategy", stream="map")
        return out
    got = {str(k): v for k, v in ch.items()}
    if sorted(got) != sorted(qs):
        fail("map assigns %s, query facts are %s" % (sorted(got), sorted(qs)), kind="map-keys")
        return out
    b = tuple(got[q] for q in qs)
    bestobj = max(obj.values())
    if not close(score, bestobj) or not close(obj[b], bestobj):
        fail("map: score %r / objective of the returned assignment %s; maximum of the modelled objective %s" % (
            score, float(obj[b]), float(bestobj)), kind="map-model-objective")
    bestjoint = max(joint.values())
    if float(joint[b]) < float(bestjoint) - TOL:
        fail("map returns %s with posterior probability %s; the most probable assignment has %s (the task maximises "
             "the sum of the posterior marginals, %s)" % (got, float(joint[b]), float(bestjoint), float(obj[b])),
             kind="map-not-joint-argmax", maximises_marginal_sum=close(obj[b], bestobj),
             zero_posterior=(joint[b] == 0))
    okl, resl = results["local"]
    if okl:
        chl, scl, _ = resl
        gl = {str(k): v for k, v in chl.items()}
        bl = tuple(gl[q] for q in qs)
        if not close(scl, obj[bl]):
            fail("map -s local: score %r, modelled objective %s" % (scl, float(obj[bl])), kind="map-model-objective",
                 search="local")
        for i in range(len(qs)):
            fb = list(bl)
            fb[i] = 1 - fb[i]
            if float(obj[tuple(fb)]) > float(obj[bl]) + TOL:
                fail("map -s local: flipping %s improves the objective" % qs[i], kind="local-not-flip-optimal")
                break
    elif not (type(resl).__name__ == "ProbLogError" and "does not support constraints" in str(resl)):
        # (local search documents that it refuses constraints, e.g. evidence directly on a queried fact)
        fail("map -s local raised %s" % type(resl).__name__, kind="exception", exc=type(resl).__name__, site="map-local")
    # model line: mapScore = objective, on the brute-force marginals
    out["lines"].append(("map %s %s" % (_rats(marg), _bits(b)), "%s %s" % (lib.rat(obj[b]), lib.rat(obj[b])), "map"))
    out["info"] = dict(n=len(qs))
    return out


# ---------------------------------------------------------------------------------------------------- run
def run(ctx):
    ctx.rule = ("a case = one generated program (decision facts ?::d, utility/2 on atoms and negated atoms, ADs, rules; "
                "or a MAP program: query facts + evidence); distinct = distinct program text; non-trivial = at least "
                "one decision (query fact) reaches the ground program")
    ctx.proof_phase(MODULE, THEOREMS, refutations=REFUTATIONS)
    drv = ctx.driver("Drivers.C21")
    cases = []
    if ctx.replay_in:
        rp = json.load(open(ctx.replay_in))["replay"]
        cases.append((rp["stream"], tu.P_from_json(rp["program"])))
    else:
        ndt = ctx.budget(400, 8000)
        nmap = ctx.budget(150, 3000)
        for i in range(ndt):
            cases.append(("dt", tu.gen_decision_program(random.Random("%s:%d:dt:%d" % (ctx.pid, ctx.seed, i)))))
        for i in range(nmap):
            P = tu.gen_map_program(random.Random("%s:%d:map:%d" % (ctx.pid, ctx.seed, i)))
            if P is not None:
                cases.append(("map", P))
        # interleave the two streams so that a time cut-off keeps the mixture
        d = [c for c in cases if c[0] == "dt"]
        m = [c for c in cases if c[0] == "map"]
        # pinned witnesses of the known findings first
        cases = [("map", tu.witness_map_objective()), ("dt", tu.witness_alias()), ("dt", tu.witness_double_count())]
        while d or m:
            cases.extend(d[:3])
            cases.extend(m[:1])
            d, m = d[3:], m[1:]
    lines, expect = [], []
    glue_bad = None
    failed = {}      # signature-key -> (stream, P, what, sig)
    import time
    import logging
    logging.getLogger("dtproblog").setLevel(logging.ERROR)
    tmax = ctx.budget(60, 900)
    for stream, P in cases:
        if time.time() - ctx.t_work > tmax and not ctx.replay_in:
            ctx.count("not-run:time-budget")
            continue
        try:
            r = tu.with_timeout(15, dt_case if stream == "dt" else map_case, P)
        except tu.CaseTimeout:
            ctx.count("skip:%s:timeout" % stream)
            ctx.case(None, nontrivial=False)
            continue
        src = tu.to_src(P)
        if r["skip"]:
            ctx.count("skip:%s:%s" % (stream, r["skip"]))
            ctx.case(None, nontrivial=False)
            continue
        n = r["info"].get("n", 0)
        ctx.case(stream + src, nontrivial=n > 0)
        ctx.count("%s:decisions=%d" % (stream, min(n, 9)))
        if stream == "dt":
            if r["info"].get("constraints"):
                ctx.count("dt:with-decision-AD")
            if both_polarities(P):
                ctx.count("dt:both-polarities")
            if any(not pos for pos, _, _ in P["utilities"]):
                ctx.count("dt:negated-utility")
        ctx.sample({"stream": stream, "program": src.split("\n")[:8]})
        for g, ok in r["glue"]:
            if not ok and glue_bad is None:
                glue_bad = (g, src)
        for what, sig in r["fails"]:
            key = json.dumps(sig, sort_keys=True)
            if key not in failed:
                failed[key] = (stream, P, what, sig)
            else:
                ctx.count("repeat:" + sig.get("kind", "?"))
        for line, exp, label in r["lines"]:
            lines.append(line)
            expect.append((exp, label, src))
    # numeric glue: num2bits itself
    from problog.tasks.dtproblog import num2bits
    rng = ctx.sub_rng("n2b")
    for _ in range(200):
        nb = rng.randrange(0, 12)
        i = rng.randrange(0, 1 << (nb + 1))
        lines.append("n2b %d %d" % (i, nb))
        expect.append((_bits(num2bits(i, nb)), "num2bits", "num2bits(%d, %d)" % (i, nb)))
    first_diff = None
    if drv is not None:
        outs = drv.run(lines)
        for o, (exp, label, src) in zip(outs, expect):
            if isinstance(exp, tuple):
                same = lib.close(lib.parse_rat(o), exp[1]) if o != "bad-op" else False
            else:
                same = (o == exp)
            ctx.count("model-line:" + label)
            if not same and first_diff is None:
                first_diff = (label, o, exp, src)
    if first_diff:
        label, o, exp, src = first_diff
        ctx.disagree("DT model vs problog.tasks.dtproblog (%s)" % label,
                     "model %s, implementation %s on program: %s" % (o, exp, src.replace("\n", " ")))
    # report failures (shrunk)
    t_shrink = time.time()
    for key, (stream, P, what, sig) in failed.items():
        def still(Q, sig=sig, stream=stream):
            try:
                rr = tu.with_timeout(15, (lambda q: dt_case(q, want_lines=False)) if stream == "dt" else map_case, Q)
            except tu.CaseTimeout:
                return False
            return (not rr["skip"]) and any(s == sig for _, s in rr["fails"])
        try:
            small = tu.shrink_program(P, still, deadline=t_shrink + ctx.budget(30, 300)) if not ctx.replay_in else P
            rr = tu.with_timeout(60, (lambda q: dt_case(q, want_lines=False)) if stream == "dt" else map_case, small)
            what2 = next((w for w, s in rr["fails"] if s == sig), what)
        except (Exception, tu.CaseTimeout):
            small, what2 = P, what
        ctx.fail("%s | program: %s" % (what2, tu.to_src(small).replace("\n", " ")),
                 {"stream": stream, "program": tu.P_to_json(small), "source": tu.to_src(small)}, sig)
    ctx.obligation("correspondence: model = implementation on %d protocol lines (searches, evaluate, num2bits, map)"
                   % len(lines), first_diff is None and drv is not None,
                   "" if first_diff is None else "first difference: %s" % (first_diff[:3],))
    ctx.obligation("glue: dtproblog() result = search on the harness' copy of its ground program", glue_bad is None,
                   "" if glue_bad is None else str(glue_bad)[:300])
    return ctx.finish("proof")
